"""C11: parsing is deterministic, re-entrant and independent of build timing."""
import re
from collections import Counter

from .. import gen_cmd
from ..core import hexs, unhex, sx_parse, sx_str
from ..runner import Stream

ID = "C11"
AREAS = ["reentrancy"]
RULE = ("history: random command trees (vp/gen_cmd.py, depth 2-3, aliases, flag subcommands, globals, "
        "propagate_version, help subcommand) x histories of 0..8 by-reference calls on ONE Command value "
        "(try_get_matches_from_mut with succeeding and failing argv under the same argv[0], build, render_help, "
        "render_long_help, render_usage, clone-and-replace, and the in-place _build_self of the subcommands of a "
        "visited level that did_you_mean_flag performs) x a final argv; half of the histories are directed: the "
        "first parse reaches a nested subcommand and the final parse a sibling / its help / its version / `help <path>`. "
        "The harness also parses the final argv on a fresh definition, a second definition built from the spec, a "
        "clone, a definition after build() and through the by-value entry point.  history-free: the same without "
        "the generator restriction that keeps the model's view of did_you_mean exact (oracle only).  build-twice: "
        "build() twice on every generated tree.  A case is non-trivial when the history is non-empty and the final "
        "parse enters a subcommand, asks for help/version or fails; distinct = distinct case text.")
TRUSTED = [
    "Coq 8.16.1 kernel (coqc); no native_compute; 55 of the 56 theorems C11_* are 'Closed under the global context'; "
    "C11_parser_reads_signatures -- whose pinned statement is an equality of FUNCTIONS, parse_loop c' = parse_loop c -- "
    "uses the standard-library axiom FunctionalExtensionality.functional_extensionality_dep (three extensionality steps "
    "over the pointwise lemma C11_parser_reads_signatures_pointwise, which is closed); no other theorem depends on it",
    "extraction: ExtrOcamlBasic only, no Extract Constant; OCaml driver ocaml/reentrancy_driver.ml + common_parse/{spec,show}.ml",
    "correspondence: vp/props/c11.py generators and projection, harness/src/modes/history.rs (public API only: "
    "try_get_matches_from_mut, build, render_help, render_long_help, render_usage, clone, get_bin_name, "
    "get_display_name, get_arguments, get_subcommands)",
    "the shared parser model coq/theories/Parse/*.v (one Gallina function per Rust function; validated by the "
    "parse-area correspondence run) - the C11 theorems are about the stateful layer built on it",
    "modelled, not verified: Path::file_name on argv[0] (generators use plain names), String formatting of the names",
]
ASSUMPTIONS = [
    "no multicall (Command::multicall resets name/bin_name per call; generators never set it)",
    "every parse of one history uses the same argv[0] (the property's 'same program name'); argv[0] is a plain UTF-8 file name",
    "usage_name is represented by bin_name: both are assigned at the same two sites from the same parent bin name "
    "(no Command::bin_name() on subcommands in the generated definitions)",
    "calls are made on the root Command value only (render_usage on a subcommand obtained through find_subcommand_mut "
    "before the root is built is a call on a different Command value and outside the property)",
    "rendered message text beyond kind / help level / names / version line / usage head is compared on the implementation "
    "only (direct oracle); the required-arguments part of usage_name is get_required_usage_from of the parent on the shared "
    "requirement graph with the per-argument texts (Arg::stylized, format_group member text) as parameters",
    "whether did_you_mean_flag builds the subcommands of the failing level depends on strsim::jaro, which the shared parser "
    "model does not compute: the theorems hold for both answers (boolean parameter `fires`)",
]

PROG = b"prog"


# ------------------------------------------------------------------------------------------ generators
def all_nodes(c, path=()):
    yield path, c
    for s in c["subs"]:
        yield from all_nodes(s, path + (s,))


def sub_token(rng, s):
    names = [s["name"]] + [n for n, _ in s.get("aliases", [])]
    if s.get("long_flag"):
        names.append(b"--" + s["long_flag"])
    if s.get("short_flag"):
        names.append(b"-" + s["short_flag"].encode())
    return gen_cmd.pick(rng, names)


def path_tokens(rng, path, canonical=False):
    return [s["name"] if canonical else sub_token(rng, s) for s in path]


def clean(toks):
    # a long flag that is not UTF-8 is reported through to_string_lossy: keep the flag part UTF-8
    out = []
    for t in toks:
        if t.startswith(b"--") and len(t) > 2:
            f = t[2:].split(b"=", 1)[0]
            try:
                f.decode("utf-8")
            except UnicodeDecodeError:
                t = b"--zz"
        out.append(t)
    return out


def directed_argv(rng, c, nodes, kind=None):
    """an argv aimed at a node: its help, version, `help <path>`, a failing flag, a plain entry"""
    path, node = gen_cmd.pick(rng, nodes)
    pre = path_tokens(rng, path)
    k = kind or gen_cmd.pick(rng, ["help", "help", "version", "version", "helpsub", "helpsub", "bad", "badpos", "enter",
                                    "enter", "helphelp", "midhelp", "shorth", "shorth"])
    if k == "help":
        toks = pre + [b"--help"]
    elif k == "shorth":
        toks = pre + [gen_cmd.pick(rng, [b"-h", b"-V", b"-hV"])]
    elif k == "version":
        toks = pre + [gen_cmd.pick(rng, [b"--version", b"-V"])]
    elif k == "helpsub":
        # help at some level of the path, the rest of the path as names (canonical names or aliases)
        cut = rng.randrange(len(path) + 1)
        toks = path_tokens(rng, path[:cut]) + [b"help"] + [gen_cmd.pick(rng, [s["name"]] + [n for n, _ in s.get("aliases", [])])
                                                            for s in path[cut:]]
        if gen_cmd.chance(rng, 0.15):
            toks.append(gen_cmd.pick(rng, [b"nosuch", b"help", b"--help"]))
    elif k == "helphelp":
        cut = rng.randrange(len(path) + 1)
        toks = path_tokens(rng, path[:cut]) + [b"help", b"help"] + [s["name"] for s in path[cut:cut + rng.randrange(0, 3)]]
    elif k == "midhelp":
        toks = pre + [b"help"]
    elif k == "bad":
        toks = pre + [gen_cmd.pick(rng, [b"--bad", b"--alph", b"--hel", b"-Z", b"--version=1", b"--gamma"])]
    elif k == "badpos":
        toks = pre + [gen_cmd.pick(rng, [b"nosuch", b"su", b"hel", b"x1", b"x2", b"x3", b"x4"])] * rng.randrange(1, 5)
    else:
        toks = pre + gen_cmd.render_level(rng, node, gen_cmd.chance(rng, 0.7))
    if "no_binary_name" in c["settings"]:
        return clean(toks)
    return [PROG] + clean(toks)


def random_argv(rng, c):
    a = gen_cmd.gen_argv(rng, c, p_mutate=0.3, safe_p=0.65)
    if "no_binary_name" in c["settings"]:
        return clean(a)
    return [PROG] + clean(a[1:])


def has_long_token(argv):
    return any(t.startswith(b"--") and len(t) > 2 for t in argv)


def gen_history(rng, c, restricted):
    """-> (ops, final argv); ops: ('parse', argv) | ('build',) | ('help',) | ('longhelp',) | ('usage',) | ('clone',) | ('sugg', path)"""
    nodes = list(all_nodes(c))
    deep = [n for n in nodes if len(n[0]) >= 1]
    nops = gen_cmd.pick(rng, [0, 1, 1, 2, 2, 3, 3, 4, 5, 6, 8])
    ops = []
    long_seen = False
    directed = gen_cmd.chance(rng, 0.5) and deep
    for i in range(nops):
        r = rng.random()
        if r < 0.5 or (directed and i == 0):
            if directed and i == 0:
                argv = directed_argv(rng, c, [n for n in deep if len(n[0]) == max(len(m[0]) for m in deep)],
                                     gen_cmd.pick(rng, ["enter", "enter", "bad", "help", "badpos"]))
            elif gen_cmd.chance(rng, 0.5):
                argv = directed_argv(rng, c, nodes)
            else:
                argv = random_argv(rng, c)
            ops.append(("parse", argv))
            long_seen = long_seen or has_long_token(argv)
        elif r < 0.60:
            if restricted and long_seen:
                ops.append(("usage",))
            else:
                ops.append(("build",))
                if gen_cmd.chance(rng, 0.25):
                    ops.append(("build",))
        elif r < 0.68:
            ops.append(("help",))
        elif r < 0.74:
            ops.append(("longhelp",))
        elif r < 0.82:
            ops.append(("usage",))
        elif r < 0.92:
            ops.append(("clone",))
        else:
            path, _ = gen_cmd.pick(rng, nodes)
            ops.append(("sugg", [s["name"] for s in path]))
    if directed:
        # a sibling of / a node near the first target, or help for it
        final = directed_argv(rng, c, deep)
    elif gen_cmd.chance(rng, 0.5):
        final = directed_argv(rng, c, nodes)
    else:
        final = random_argv(rng, c)
    return ops[:10], final


def op_sx(op):
    if op[0] == "parse":
        return "(parse%s)" % "".join(" " + hexs(t) for t in op[1])
    if op[0] == "sugg":
        return "(sugg%s)" % "".join(" " + hexs(t) for t in op[1])
    return "(%s)" % op[0]


def hist_sx(c, ops, final):
    return "(hist %s (ops%s) (argv%s))" % (gen_cmd.cmd_sx(c), "".join(" " + op_sx(o) for o in ops),
                                          "".join(" " + hexs(t) for t in final))


FLAT_MARK = b"FLATTENMARK:"


def hist_sx_flat(c, ops, final):
    """hist_sx, with `(x-flatten-help)` on the nodes that carry c["flatten"] (carried through the `about` slot)"""
    saved = []

    def mark(n):
        if n.get("flatten"):
            saved.append((n, n.get("about")))
            n["about"] = FLAT_MARK + (n.get("about") or b"")
        for s_ in n["subs"]:
            mark(s_)
    mark(c)
    s = hist_sx(c, ops, final)
    for n, a in saved:
        n["about"] = a
    return re.sub(r"\(about x%s([0-9a-f]*)\)" % FLAT_MARK.hex(), lambda m: "(about x%s) (x-flatten-help)" % m.group(1), s)


def gen_flatten_cases(rng, n, stats):
    """flattened help (Command::flatten_help) renders the subtree from the names the tree carries: an earlier parse that
    entered an intermediate subcommand, but not all of its children, must not change the ancestor's help (seeded change
    seed3/C11-3 skipped the naming of the subtree of an already named subcommand).  Implementation only: flatten_help is
    rendering, outside the model"""
    out = []
    guard = 0
    while len(out) < n and guard < 50 * n:
        guard += 1
        c = gen_tree(rng, want_subs=True)
        nodes = list(all_nodes(c))
        inner = [(p_, nd) for p_, nd in nodes if nd["subs"]]
        if max(len(p_) for p_, _ in nodes) < 2 or "no_binary_name" in c["settings"]:
            continue
        for _, nd in inner:
            if gen_cmd.chance(rng, 0.8):
                nd["flatten"] = True
        c["flatten"] = True
        if gen_cmd.chance(rng, 0.5) and "disable_help_subcommand" not in c["settings"]:
            c["settings"].append("disable_help_subcommand")
        mids = [(p_, nd) for p_, nd in inner if len(p_) >= 1]
        for _ in range(4):
            ops = []
            for _i in range(rng.randrange(1, 4)):
                r = rng.random()
                if r < 0.7:
                    ops.append(("parse", directed_argv(rng, c, mids if mids and gen_cmd.chance(rng, 0.7) else nodes,
                                                      gen_cmd.pick(rng, ["enter", "enter", "bad", "help", "badpos"]))))
                elif r < 0.8:
                    ops.append(("clone",))
                elif r < 0.9:
                    ops.append(("usage",))
                else:
                    ops.append(("help",))
            path, _ = gen_cmd.pick(rng, inner)
            final = [PROG] + path_tokens(rng, path) + [gen_cmd.pick(rng, [b"--help", b"--help", b"-h"])]
            for o in ops:
                stats["ops"][o[0]] += 1
            stats["history_length"][len(ops)] += 1
            stats["tree_depth"][max(len(p_) for p_, _ in nodes)] += 1
            out.append(hist_sx_flat(c, ops, final))
    return out[:n]


PROFILES = [
    dict(depth=2, globals=0.35, flag_subs=0.35, aliases=0.4, invalid=0.02, settings=0.12, env=0.05, relations=0.15),
    dict(depth=3, max_opts=3, max_pos=2, globals=0.35, flag_subs=0.3, aliases=0.4, invalid=0.0, settings=0.1, env=0.0,
         relations=0.1, groups=0.15),
    dict(depth=2, conventional=True, hyphen=0, flag_subs=0, external=0, low_index=0, terminators=0, require_equals=0,
         last=0, tva=0, invalid=0, ignore_errors=0, infer=0, globals=0.4, settings=0.15),
]


def gen_tree(rng, want_subs=True):
    for _ in range(200):
        prof = gen_cmd.Profile(**gen_cmd.pick(rng, PROFILES))
        c = gen_cmd.gen_cmd(rng, prof)
        if gen_cmd.chance(rng, 0.2) and "propagate_version" not in c["settings"]:
            c["settings"].append("propagate_version")
            c["version"] = b"1.0"
        if c["subs"] or not want_subs:
            return c
    return c


def gen_hist_cases(rng, n, restricted, stats):
    out = []
    while len(out) < n:
        c = gen_tree(rng, want_subs=gen_cmd.chance(rng, 0.9))
        for _ in range(4):
            ops, final = gen_history(rng, c, restricted)
            stats["history_length"][len(ops)] += 1
            for o in ops:
                stats["ops"][o[0]] += 1
            stats["tree_depth"][max(len(p) for p, _ in all_nodes(c))] += 1
            out.append(hist_sx(c, ops, final))
    return out[:n]


# ------------------------------------------------------------------------------------------ decoding
def split_result(r):
    """-> None for INVALID/PANIC/other, else (steps, finals dict, end, freshend)"""
    if r is None or not r.startswith("steps"):
        return None
    v = sx_parse("(" + r + ")")
    i = v.index("final")
    steps = v[1:i]
    fin = {}
    for f in v[i + 1:]:
        fin[f[0]] = f[1:]
    return steps, fin


def canon_parse(items):
    """items of a parse result (`ok (m..)` / `err Kind stream code [head]` [msg hex] [names ...]) ->
    (canonical text, message hex or None)"""
    items = list(items)
    msg = None
    if "names" in items:
        items = items[:items.index("names")]
    if "msg" in items:
        k = items.index("msg")
        msg = items[k + 1] if k + 1 < len(items) else "x"
        items = items[:k]
    if items and items[0] == "err":
        kind = items[1]
        # the choice between these two kinds depends on strsim::jaro suggestions, which the shared
        # parser model does not compute: one class for the model/implementation comparison
        if kind in ("UnknownArgument|InvalidSubcommand", "InvalidSubcommand", "UnknownArgument"):
            kind = "Unknown*"
        # the help head (first line of the rendered help / the level's about) is kept only for help
        return "err %s %s" % (kind, " ".join(sx_str(x) for x in items[2:])), msg
    return " ".join(sx_str(x) for x in items), msg


def raw_kind(items):
    if items and items[0] == "PANIC":
        return "PANIC"
    return items[1] if items and items[0] == "err" else "ok"


def canon_state(s):
    """named nodes with their names and arg ids; nodes the parser / build() never named are opaque
    (did_you_mean may or may not have built them - see docs/notes/C11.md)"""
    if s[2] == "-":
        return "(u %s)" % s[1]
    return "(n %s %s %s (%s)%s)" % (s[1], s[2], s[3], " ".join(s[4]), "".join(" " + canon_state(x) for x in s[5:]))


def canon_root(s):
    return "(n %s %s %s (%s)%s)" % (s[1], s[2], s[3], " ".join(s[4]), "".join(" " + canon_state(x) for x in s[5:]))


def sx_match(a, b):
    """equality of two parsed projections where an entry `(id ?)` (the implementation cannot report on an id
    that was propagated into a level that does not define it) matches any entry of that id"""
    if isinstance(a, list) and isinstance(b, list):
        if a and b and a[0] == b[0] and ((len(a) == 2 and a[1] == "?") or (len(b) == 2 and b[1] == "?")):
            return True
        return len(a) == len(b) and all(sx_match(x, y) for x, y in zip(a, b))
    return a == b


class Proj(str):
    """a projection (canonical text); two projections are equal when they match modulo `(id ?)` entries"""
    def __eq__(self, other):
        if str.__eq__(self, other):
            return True
        if not isinstance(other, str) or "?" not in self + other:
            return False
        try:
            return sx_match(sx_parse("(" + self + ")"), sx_parse("(" + other + ")"))
        except Exception:
            return False

    def __ne__(self, other):
        return not self.__eq__(other)

    __hash__ = str.__hash__


def project(r):
    sp = split_result(r)
    if sp is None:
        if r and r.startswith("PANIC"):
            return "PANIC"
        if r and r.startswith("INVALID"):
            return "INVALID"
        return r
    steps, fin = sp
    out = []
    for st in steps:
        op, obs, state = st[0], st[1], st[2]
        if op == "parse":
            o = canon_parse(obs)[0]
        else:
            o = obs[0] if obs else ""
        out.append("(%s %s %s)" % (op, o, canon_root(state)))
    for k in ("reused", "fresh", "fresh2", "cloned", "built", "byval"):
        out.append("(%s %s)" % (k, canon_parse(fin[k])[0]))
    out.append("(end %s)" % canon_root(fin["end"][0]))
    out.append("(freshend %s)" % canon_root(fin["freshend"][0]))
    return Proj(" ".join(out))


# ------------------------------------------------------------------------------------------ oracle
def case_ops(case):
    v = sx_parse(case)
    ops = v[2][1:]
    argv = [unhex(t) for t in v[3][1:]]
    return ops, argv


def make_oracle(stats):
    def oracle(case, impl):
        sp = split_result(impl)
        if sp is None:
            stats["outcome"]["invalid-or-panic" if impl and (impl.startswith("INVALID") or impl.startswith("PANIC"))
                             else "other"] += 1
            if impl and (impl.startswith("INVALID") or impl.startswith("PANIC") or impl.startswith("ABORT")):
                return None      # configuration errors and panics belong to C01
            return "unexpected harness output: %r" % (impl or "")[:200]
        steps, fin = sp
        ops, argv = case_ops(case)
        built_in_history = any(o[0] == "build" for o in ops)
        res = {k: canon_parse(fin[k]) for k in ("reused", "fresh", "fresh2", "cloned", "built", "byval")}
        kinds = {k: raw_kind(fin[k]) for k in res}
        stats["outcome"][kinds["fresh"]] += 1
        for st in steps:
            if st[0] == "parse":
                stats["history_parse_outcome"][raw_kind(st[1])] += 1
            # (0) a call that panics on the reused definition although it is fine on a fresh one
            if st[1] and st[1][0] == "PANIC" and st[1][1:] == ["fine"]:
                return "the call (%s) panics on the reused definition but not on a fresh one" % st[0]
        # (1) equal matches or an error of the same kind, whatever the build timing / history
        for k in ("fresh2", "cloned", "byval", "reused", "built"):
            a, b = fin["fresh"], fin[k]
            if kinds[k] != kinds["fresh"]:
                return "%s definition: %s, fresh definition: %s (same argv)" % (k, kinds[k], kinds["fresh"])
            if kinds[k] == "ok" and res[k][0] != res["fresh"][0]:
                return "%s definition gives different matches than the fresh one: %s vs %s" % (k, res[k][0][:300], res["fresh"][0][:300])
        # (2) fresh, cloned and reused definitions render the identical message
        same_msg = ["fresh2", "cloned", "byval"] + ([] if built_in_history else ["reused"])
        for k in same_msg:
            if res[k][1] != res["fresh"][1]:
                return "%s definition renders a different message than the fresh one: %r vs %r" % (
                    k, unhex(res[k][1] or "x")[:400], unhex(res["fresh"][1] or "x")[:400])
        # (3) building is idempotent: a second build() in a row changes nothing observable
        prev = None
        for st in steps:
            if st[0] == "build" and prev is not None and prev[0] == "build" and sx_str(st[2]) != sx_str(prev[2]):
                return "a second build() changed the observable state: %s -> %s" % (sx_str(prev[2])[:300], sx_str(st[2])[:300])
            prev = st
        return None
    return oracle


def build2_oracle(case, impl):
    if impl is None or impl.startswith("INVALID") or impl.startswith("PANIC"):
        return None
    v = sx_parse("(" + impl + ")")
    first, second = v[0][1:], v[1][1:]
    if second and second[0] == "PANIC":
        return "build() twice: the second call panics"
    if sx_str(first[0]) != sx_str(second[0]):
        return "build() twice: observable state differs: %s vs %s" % (sx_str(first[0])[:300], sx_str(second[0])[:300])
    if len(first) > 1 and first[1] != second[1]:
        return "build() twice: rendered help differs"
    return None


def build2_project(r):
    if r is None or not r.startswith("(first"):
        return "PANIC" if r and r.startswith("PANIC") else r
    v = sx_parse("(" + r + ")")
    return "%s %s" % (sx_str(v[0][1]), sx_str(v[1][1]))


def nontrivial(case, impl):
    sp = split_result(impl)
    if sp is None:
        return False
    steps, fin = sp
    if not steps:
        return False
    f = fin["fresh"]
    return f[0] == "err" or "(sub " in sx_str(f)


# ------------------------------------------------------------------------------------------ known finding
HELP_USAGE_LAZY = re.compile(rb" help \[COMMAND\]\.\.\.(?=\n)")


HELP_ARG_LAZY = re.compile(rb"(?m)^ +\[COMMAND\]\.\.\. +Print help for the subcommand\(s\)\n")


def flatten_help_shape(case, fin, failure):
    """C11-flatten-help-subcommand-shape: the flattened usage of an ancestor (Command::flatten_help) prints the usage line
    of every subcommand's auto-generated `help` subcommand; a subcommand the parser entered earlier carries the lazily
    built form (an argument: `... help [COMMAND]...`), one that is built for the rendering (clone + build()) the expanded
    form (subcommands: `... help [COMMAND]`).  Exactly: some node has (x-flatten-help), the only complaint is a message
    difference (help screen, or the usage part of an error), every kind agrees, and the messages are equal once each usage
    line ending in ` help [COMMAND]...` is read as ` help [COMMAND]` and the lazily built form's argument line
    `  [COMMAND]...  Print help for the subcommand(s)` is dropped."""
    if failure == "diff" or "(x-flatten-help)" not in case:
        return False
    if not isinstance(failure, str) or "renders a different message than the fresh one" not in failure:
        return False
    kinds = {k: raw_kind(fin[k]) for k in ("reused", "fresh", "fresh2", "cloned", "built", "byval")}
    if len(set(kinds.values())) != 1 or kinds["fresh"] == "ok":
        return False
    msgs = {k: canon_parse(fin[k])[1] for k in ("reused", "fresh", "fresh2", "cloned", "byval")}
    if any(m is None for m in msgs.values()):
        return False
    norm = {k: HELP_ARG_LAZY.sub(b"", HELP_USAGE_LAZY.sub(b" help [COMMAND]", unhex(m))) for k, m in msgs.items()}
    raw_differs = len({unhex(m) for m in msgs.values()}) > 1
    return raw_differs and len(set(norm.values())) == 1


def classify_known(stream, case, impl, failure):
    """C11-help-tree-after-build: after build() the auto-generated help subcommand carries a copy of the
    subcommand tree, so `help help <sub>...` walks into it (DisplayHelp) where a lazily built command
    reports InvalidSubcommand.  Exactly: the only complaint concerns the definition that went through
    build() and the argv has two consecutive `help` tokens followed by a further name."""
    if not case.startswith("(hist"):
        return None
    sp = split_result(impl)
    if sp is None:
        return None
    steps, fin = sp
    ops, argv = case_ops(case)
    if flatten_help_shape(case, fin, failure):
        return "C11-flatten-help-subcommand-shape"
    hh = any(argv[i] == b"help" and argv[i + 1] == b"help" for i in range(len(argv) - 2))
    if not hh:
        return None
    kinds = {k: raw_kind(fin[k]) for k in ("reused", "fresh", "fresh2", "cloned", "built", "byval")}
    if not (kinds["fresh"] == kinds["fresh2"] == kinds["cloned"] == kinds["byval"]):
        return None
    built_in_history = any(o[0] == "build" for o in ops)
    suspects = {"built"} | ({"reused"} if built_in_history else set())
    differing = {k for k in kinds if kinds[k] != kinds["fresh"]}
    if failure == "diff":
        # the model reproduces the behaviour; a model/implementation difference is never this family
        return None
    fresh_ok = kinds["fresh"] == "InvalidSubcommand" or (kinds["fresh"] == "ok" and "ignore_errors" in case)
    if differing and differing <= suspects and fresh_ok and all(kinds[k] == "DisplayHelp" for k in differing):
        return "C11-help-tree-after-build"
    return None


# ------------------------------------------------------------------------------------------ streams
def streams(tier, rng):
    quick = tier == "quick"
    st_h = {"ops": Counter(), "history_length": Counter(), "tree_depth": Counter(), "outcome": Counter(),
            "history_parse_outcome": Counter()}
    st_f = {"ops": Counter(), "history_length": Counter(), "tree_depth": Counter(), "outcome": Counter(),
            "history_parse_outcome": Counter()}
    st_x = {"ops": Counter(), "history_length": Counter(), "tree_depth": Counter(), "outcome": Counter(),
            "history_parse_outcome": Counter()}
    hist = gen_hist_cases(rng, 1500 if quick else 60000, True, st_h)
    free = gen_hist_cases(rng, 1000 if quick else 40000, False, st_f)
    b2 = []
    for _ in range(300 if quick else 6000):
        b2.append("(build2 %s)" % gen_cmd.cmd_sx(gen_tree(rng, want_subs=gen_cmd.chance(rng, 0.8))))
    return [
        Stream("history", hist, oracle=make_oracle(st_h), area="reentrancy", project=project, nontrivial=nontrivial,
               describe=st_h),
        Stream("history-free", free, oracle=make_oracle(st_f), area=None, project=project, nontrivial=nontrivial,
               describe=st_f),
        Stream("history-flatten", gen_flatten_cases(rng, 400 if quick else 12000, st_x), oracle=make_oracle(st_x), area=None,
               project=project, nontrivial=nontrivial, describe=st_x),
        Stream("build-twice", b2, oracle=build2_oracle, area="reentrancy", project=build2_project,
               nontrivial=lambda c, r: bool(r) and r.startswith("(first")),
    ]


TECHNIQUE = ("Coq proof (idempotence of the build steps, normal-form invariance of the in-place mutations for every "
             "operation history incl. failing parses that build subcommands behind the caller's back and -- outside the "
             "family of the recorded finding, modulo the BinNameBuilt marks -- explicit build() calls; the parser and the "
             "validator read subcommands only through their signatures and never read the mark, proved pointwise without "
             "axioms; history independence of the parser result, of the complete outcome after global-value propagation and "
             "of the name-dependent message lines) + extracted-model/implementation correspondence on operation histories")
LEVEL_TEXT = ("Machine-checked theorems (Coq 8.16) about a stateful model of one Command value mutated in place by "
              "try_get_matches_from_mut / build / render_help / render_long_help / render_usage / clone and by the "
              "subcommand building hidden in did_you_mean_flag: the build steps are idempotent and never re-run behind "
              "the Built flag; naming a command commutes with building it; every operation except build() preserves the "
              "normal form of the tree to every depth, for every command and every finite history; the parser of a level "
              "reads its subcommands only through names/aliases/flags and _build_subcommand, so the parser result, the "
              "names of every visited level and the reported error after any history equal those of the fresh definition "
              "(C11_history_independence).  Third pass: the failing parse that mutates (did_you_mean_flag builds every "
              "subcommand of the level that rejected an unknown long flag) is folded into the parse; histories containing "
              "such parses give the fresh parser result, names, error and the same own definition of every visited level "
              "(C11_history_independence_dym); the COMPLETE outcome after propagate_globals, incl. the order of ids(), "
              "equals the fresh one for definitions whose root subcommand names/aliases are distinct (C11_history_outcome); "
              "version line and usage head of every visited level are equal on reused / cloned / fresh "
              "(C11_history_messages; with the real required-arguments part of usage_name, get_required_usage_from of the parent: "
              "C11_history_messages_usage_name).  Fourth pass: (a) all of these are now closed under the global context: the "
              "congruence of parse_loop, short_loop, parse_short_arg and of the 15 validator functions is proved POINTWISE "
              "(bodies restated with the subcommand-reading calls as parameters, tied to the model by reflexivity, lock-step "
              "tactic), also for arbitrary BinNameBuilt marks (C11_parser_reads_signatures_pointwise, "
              "C11_validator_congruence); (b) histories containing build(): _build_bin_names_internal is absorbed by the "
              "normal form modulo the marks incl. display-name consistency (C11_build_bin_names_normal_form), the parser "
              "never reads the mark (C11_parse_normal_form_modulo_marks), the family of the recorded finding is made exact as "
              "a function of the normal form -- some node of the lazily built tree gets an auto-generated help subcommand "
              "(help_family / quiet_tree), an invariant of every history (C11_family_invariant) -- and OUTSIDE it every "
              "finite history of parses (failing, mutating), renders, clones and build() calls leaves the fresh parser "
              "result, visited names and error (C11_history_independence_build) and the fresh version line / usage head of every "
              "visited level (C11_history_messages_build); the witness of the finding lies inside the "
              "family and is refuted there (C11_finding_witness_in_family).  The model is tied to clap_builder by running "
              "the extracted model and the real crate on the same generated histories on every check (results and the "
              "observable names / argument ids of every node after every step), and an independent python oracle compares "
              "the reused, fresh, cloned, pre-built and by-value results and rendered messages of the real crate.")
LEVEL_NOTE = ("56 theorems: 55 closed under the global context; C11_parser_reads_signatures (an equality of functions) keeps "
              "functional_extensionality_dep, nothing depends on it.  Trusted: Coq kernel, extraction, OCaml driver, Rust "
              "harness, generators, the shared parser model.  Differential only: rendered message text beyond version line / "
              "usage head (the required-arguments part `mid` of usage_name is modelled on the shared requirement graph with the "
              "per-argument texts as parameters, C11_history_messages_usage_name; not tied by a stream of its own), the complete outcome after propagate_globals for histories WITH build() (parser result / names / "
              "error / version line / usage head are proved outside the family: C11_history_independence_build, C11_history_messages_build), build() inside the family (the finding), whether did_you_mean builds "
              "(jaro; both answers covered by the theorems).  Known finding: after build() `help help <sub>` is DisplayHelp "
              "instead of InvalidSubcommand.")
