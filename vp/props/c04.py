"""C04: typed values are exactly what the value parser's language admits."""
import itertools
import os
import re

from ..core import hexs, unhex, sx_parse
from ..runner import Stream
from .. import parse_streams, gen_cmd
from ..parse_common import parse_result

ID = "C04"
AREAS = ["value", "parse"]
RULE = ("int: for each target type u8..i64 x boundary, debug-assert-violating and random ranges x the values "
        "{min-1,min,min+1,-1,0,1,max-1,max,max+1,+-2^63(+-1),+-2^64,2^64-1,20/25-digit numbers, range bounds +-1} x the "
        "decorations {plain,+,-,+-,--,leading zeros,0x, leading/trailing blank,_ ,1_0, empty, lone sign, non-UTF-8, "
        "Arabic-Indic and full-width digits}; bool: all 2^k casings of every literal (tables re-read from "
        "str_to_bool.rs and from the documentation) plus near misses and case-folding traps (U+212A, U+017F, U+0130, "
        "full-width), for bool/boolish/falsey/nonempty/string; possible/enum: random possible-value sets with aliases, "
        "ignore_case on/off, ASCII and non-ASCII names, values = declared names with case flips and foldings; "
        "store: random argument sets (typed by value_parser!(T)), raw values valid and invalid, random sequences of "
        "try_get_one/try_get_many/try_remove_one/try_remove_many/ids with right, wrong and unknown ids and types. "
        "stored (round 2, full parser; round 5: 15% of the SetTrue/SetFalse options take an optional value, num_args 0..1, "
        "spelled --flag / --flag=true|false / -f=false / -f false): random command trees with at least one ranged-i64 / bool / count argument "
        "(vp/gen_cmd.py), defaults, env values and subcommands as generated, 6 mostly-valid or mutated lines each; "
        "non-trivial = a successful parse in which a reported value was checked against such a parser.  "
        "stored_wide (round 4, full parser): random command trees in which arguments (and the external-subcommand "
        "parser) carry boolish / falsey / non-empty / possible-value (aliases, hidden values, ignore_case from the "
        "argument's flag) / value_parser!(T).range(lo..=hi) for u8..u64 parsers; values, defaults and env values drawn "
        "around each language boundary (literals in flipped case, near misses, U+212A, names of hidden values, wrong "
        "case with and without ignore_case, lo-1/lo/hi/hi+1, T::MIN-1, T::MAX+1, +-2^63, 2^64, -0, lone sign, "
        "non-UTF-8); a third more cases are SIMPLE lines (one level, options with only a value parser, each given once "
        "as --name=value) on which the oracle decides the outcome exactly from the property text (ok and stored as typed "
        "iff every value is in its parser's language, a value error otherwise); "
        "non-trivial = a successful parse storing a value under such a parser, or a value-error rejection.  "
        "Non-trivial: int = the candidate is a well-formed decimal (so range/width decided) or carries a decoration "
        "trap; bool = ASCII-lowercases to a literal or contains non-ASCII; possible = some declared name equals the "
        "value up to case; store = the history contains a failing access or a removal.  Distinct = distinct case text.")
TRUSTED = [
    "Coq 8.16.1 kernel (coqc); no native_compute; theorems C04_* are 'Closed under the global context'",
    "extraction: ExtrOcamlBasic only, no Extract Constant; OCaml driver ocaml/value_driver.ml + zarith conversions",
    "correspondence: vp/props/c04.py generators, harness/src/modes/value.rs, string comparison of canonical results; "
    "streams `stored`/`stored_wide`: vp/gen_cmd.py, harness/src/modes/parse.rs, ocaml/parse_driver.ml (the parser model of C01-C11)",
    "round 4: ocaml/common_parse/spec.ml copies the argument's ignore_case flag into VPPossible's `ic` (what "
    "PossibleValuesParser::parse_ref reads from the Arg it is called for); Cmd.pv_coherent states it, "
    "C04_stored_possible_arg uses it, stream stored_wide exercises ignore_case on/off against the real crate",
    "round 2 imports the parser-model proof files of C01/C02/C09/C10 (Invariant, IndexInv, Provenance, Dispatch, Chain, "
    "Globals, KindSound, Unparse*) as lemmas; their theorems are closed under the global context",
    "translators/tables.py: regex extraction of TRUE_LITERALS/FALSE_LITERALS, the shape of str_to_bool and of the "
    "integer ValueParserFactory impls; python unicodedata for the lowercase exceptions and the case-folding table",
    "modelled not verified (std / third party): str::parse::<i64/u64> (core::num::from_str_radix, transcribed), "
    "str::from_utf8 (Base/Utf8.v), T::try_from(i64), str::to_lowercase, unicase::eq, TypeId equality, Vec",
]
ASSUMPTIONS = [
    "OsStr = bytes (Unix); harness built with clap features unicode (eq_ignore_case = unicase::eq) and error-context",
    "C04_typed_store assumes the store invariant wf_store (FlatMap keys distinct; an entry with a declared type holds "
    "only values of that type); round 2 PROVES it of the root level of every successful parse of a valid plain "
    "definition and of every successful level of the recursion (C04_parse_store_wf, C04_level_store_wf) -- for the merged result and for levels that failed under ignore_errors it remains an assumption",
    "the matcher model stores raw values only; 'the typed value next to a raw value' is typed_value (TypedView.v), the "
    "C04 model of value_parser.parse_ref applied to it (push_arg_values pushes both with one add_val_to call)",
    "whole-parse corollaries exist for the value parsers a definition of the parser model can name: String, OsString, "
    "bool, the u8 parser of Count, RangedI64ValueParser<i64> and (round 4) boolish, falsey, non-empty, possible values, "
    "value_parser!(T).range(lo..=hi) for every integer width; EnumValueParser (a derive-side parser, C15 models it by "
    "a stand-in) has its per-parser theorems and the implementation-side stream only",
    "a VPRanged t lo hi of the parser model denotes value_parser!(T).range(lo..=hi) with lo, hi inside T (outside, "
    "the debug build panics while the command is DEFINED: stream `int` / C04_range_builder cover that; the parse-"
    "level generator keeps the bounds inside T)",
    "non-ASCII case-insensitive matching is the Unicode full case folding of unicase (table from python's casefold); "
    "the oracle brackets it (must accept exact/ASCII-caseless matches, must reject what no folding equates)",
    "debug-assertion behaviour (range() asserts, verify_arg's UnknownArgument) is modelled by a flag and exercised in "
    "the debug profile; the release profile is exercised in the thorough tier",
]

I64_MIN, I64_MAX, U64_MAX = -2**63, 2**63 - 1, 2**64 - 1
TYPES = ["u8", "i8", "u16", "i16", "u32", "i32", "u64", "i64"]


def tbounds(t):
    bits = int(t[1:])
    return (0, 2**bits - 1) if t[0] == "u" else (-2**(bits - 1), 2**(bits - 1) - 1)


def carrier(t):
    return (0, U64_MAX) if t == "u64" else (I64_MIN, I64_MAX)


# ----------------------------------------------------------------- independent reading of a candidate
def is_utf8(b):
    try:
        b.decode("utf-8")
        return True
    except UnicodeDecodeError:
        return False


DEC_SIGNED = re.compile(rb"\A[+-]?[0-9]+\Z")
DEC_UNSIGNED = re.compile(rb"\A\+?[0-9]+\Z")


def big_reading(b):
    """value of a string matching [+-]?[0-9]+, digit by digit (no int())"""
    neg = b[:1] == b"-"
    ds = b[1:] if b[:1] in (b"+", b"-") else b
    v = 0
    for c in ds:
        v = v * 10 + (c - 48)
    return -v if neg else v


def bound_ok(side, b, v):
    if b == "none":
        return True
    k, n = b[0], int(b[1])
    if side == "lo":
        return n <= v if k == "incl" else n < v
    return v <= n if k == "incl" else v < n


def expect_int(t, lo, hi, raw):
    """('ok', v) | ('err', kind)"""
    if not is_utf8(raw):
        return ("err", "InvalidUtf8")
    rx = DEC_UNSIGNED if t == "u64" else DEC_SIGNED
    if not rx.match(raw):
        return ("err", "ValueValidation")
    v = big_reading(raw)
    cmin, cmax = carrier(t)
    tmin, tmax = tbounds(t)
    if not (cmin <= v <= cmax and tmin <= v <= tmax and bound_ok("lo", lo, v) and bound_ok("hi", hi, v)):
        return ("err", "ValueValidation")
    return ("ok", v)


def range_assert_fails(t, lo, hi):
    """the documented debug assertion of .range(): a given bound must lie in the current bounds"""
    if t in ("u64", "i64"):
        return False
    tmin, tmax = tbounds(t)
    cmin, cmax = carrier(t)

    def bad(b, d):
        if b == "none":
            return False
        n = int(b[1])
        if b[0] == "excl":
            n = max(min(n + d, cmax), cmin)
        return not (tmin <= n <= tmax)
    return bad(lo, 1) or bad(hi, -1)


KNOWN_UTF8 = "invalid-utf8-unnamed"


def split_two(impl):
    m = re.match(r"direct=(\(.*\)) cmd=(\(.*\))\Z", impl)
    if not m:
        return None
    return sx_parse(m.group(1)), sx_parse(m.group(2))


def check_two(impl, exp, raw, show, has_detail=False, utf8_kind="InvalidUtf8"):
    """Shared verdict check of both observation points.  exp = ('ok', value) | ('err', kind)."""
    two = split_two(impl)
    if two is None:
        return "unparsable result %r" % impl[:200]
    d, c = two
    soft = None
    for where, r in (("direct parse_ref", d), ("Command path", c)):
        if exp[0] == "ok":
            if r[0] != "ok":
                return "%s rejected %r which is in the parser's language (expected %s): %s" % (where, raw, show(exp[1]), r)
            if r[1] != show(exp[1]):
                return "%s produced %s from %r, expected %s" % (where, r[1], raw, show(exp[1]))
            if where == "Command path" and r[2:] != [hexs(raw)]:
                return "reported raw value %s is not the typed-in string %s" % (r[2:], hexs(raw))
        else:
            if r[0] == "ok":
                return "%s accepted %r (as %s) which is outside the parser's language" % (where, raw, r[1])
            if r[0] != "err":
                return "%s: unexpected outcome %s" % (where, r)
            if r[1] != exp[1]:
                return "%s rejected %r with %s, expected %s" % (where, raw, r[1], exp[1])
            named = r[-1]
            if named != "arg":
                if r[1] == "InvalidUtf8":
                    soft = "KNOWN-CANDIDATE %s: %s rejects non-UTF-8 %s with InvalidUtf8, which does not name the argument" % (
                        KNOWN_UTF8, where, hexs(raw))
                else:
                    return "%s: %s error does not name the argument" % (where, r[1])
    return soft


# ----------------------------------------------------------------- int
def int_oracle(case, impl):
    v = sx_parse(case)
    prof, t, lo, hi, raw = v[1], v[2], v[3], v[4], unhex(v[5])
    if impl == "build-panic":
        if prof == "debug" and range_assert_fails(t, lo, hi):
            return None
        return "range() panicked although every given bound lies inside the type's range"
    if prof == "debug" and range_assert_fails(t, lo, hi):
        return "range() accepted a bound outside the current bounds in a debug build: %s" % impl[:120]
    exp = expect_int(t, lo, hi, raw)
    return check_two(impl, exp, raw, lambda x: str(x))


def int_nontrivial(case, impl):
    raw = unhex(sx_parse(case)[5])
    return bool(DEC_SIGNED.match(raw)) or len(raw) > 1


def sxb(b):
    return "none" if b == "none" else "(%s %d)" % (b[0], b[1])


ARABIC = "٠١٢٣٤٥٦٧٨٩"
FULLW = "０１２３４５６７８９"


def decorations(v):
    x = str(abs(v))
    sign = "-" if v < 0 else ""
    s = sign + x
    out = [s, "+" + s, "-" + s, "+-" + x, "--" + x, sign + "00" + x, "+00" + x, "0x" + x, " " + s, s + " ", s + "_",
           s[:1] + "_" + s[1:] if len(s) > 1 else "1_0", s + "\n", "\t" + s, s + ".0", s + "e0"]
    outb = [o.encode() for o in out]
    outb += [s.encode() + b"\xff", b"\xff" + s.encode(), b"\xc3" + s.encode(),
             (sign + "".join(ARABIC[int(c)] for c in x)).encode(),
             (sign + "".join(FULLW[int(c)] for c in x)).encode(),
             (sign + x[:-1] + FULLW[int(x[-1])]).encode(),
             "−".encode() + x.encode(), "＋".encode() + x.encode()]
    return outb


FIXED_STRINGS = [b"", b"+", b"-", b"+-", b"--", b"++", b" ", b"0", b"-0", b"+0", b"00", b"-00", b"\xff", b"\xed\xa0\x80",
                 b"\xc0\xb1", b"0x10", b"1e3", b"1_0", b"0_", "٣".encode(), "３".encode(), b"a", b"-a", b"+ 1", b"- 1",
                 b"1 ", b"\x000", b"0\x00"]


def gen_int(tier, rng, profile="debug"):
    cases = []
    quick = tier == "quick"
    for t in TYPES:
        tmin, tmax = tbounds(t)
        cmin, cmax = carrier(t)

        def clampc(n):
            return max(cmin, min(cmax, n))
        ranges = [("none", "none"),
                  (("incl", tmin), ("incl", tmax)), (("incl", tmin + 1), ("excl", tmax)),
                  (("excl", tmin), "none"), ("none", ("excl", tmax)), ("none", ("incl", tmax - 1)),
                  (("incl", 0), ("incl", 0)), (("incl", 1), ("excl", 1)), (("excl", 0), ("excl", 1)),
                  (("incl", tmax), ("incl", tmin)), (("excl", tmax), "none"), ("none", ("excl", tmin)),
                  (("incl", -1 if tmin < 0 else 1), ("incl", 10))]
        # bounds the documented debug assertion refuses (or, for i64/u64, carrier extremes)
        ranges += [(("incl", clampc(tmin - 1)), "none"), ("none", ("incl", clampc(tmax + 1))),
                   (("excl", clampc(tmin - 1)), "none"), ("none", ("excl", clampc(tmax + 1))),
                   (("excl", clampc(tmin - 2)), "none"), ("none", ("excl", clampc(tmax + 2))),
                   (("excl", cmax), "none"), ("none", ("excl", cmin)), (("incl", cmin), ("incl", cmax))]
        for _ in range(3 if quick else 12):
            a, b = sorted([rng.randint(tmin, tmax), rng.randint(tmin, tmax)])
            if rng.random() < 0.3:
                a, b = sorted([rng.randint(max(tmin, -300), min(tmax, 300)), rng.randint(max(tmin, -300), min(tmax, 300))])
            ranges.append(((rng.choice(["incl", "excl"]), a), (rng.choice(["incl", "excl"]), b)))
            ranges.append(((rng.choice(["incl", "excl"]), a), "none") if rng.random() < 0.5
                          else ("none", (rng.choice(["incl", "excl"]), b)))
        for lo, hi in ranges:
            vals = {tmin - 1, tmin, tmin + 1, -1, 0, 1, tmax - 1, tmax, tmax + 1,
                    2**63, -2**63, 2**63 - 1, 2**63 + 1, -2**63 - 1, -2**63 + 1, 2**64, -2**64, 2**64 - 1, 2**64 + 1,
                    10**19, 12345678901234567890, 99999999999999999999, -99999999999999999999,
                    1234567890123456789012345, -1234567890123456789012345,
                    256, 65536, 2**32, 128, 32768, 2**31, 10, 9, 7}
            for b in (lo, hi):
                if b != "none":
                    vals |= {b[1] - 1, b[1], b[1] + 1}
            vals = sorted(vals)
            panics = profile == "debug" and range_assert_fails(t, lo, hi)
            if panics:
                vals = vals[:3]
            for v in vals:
                decs = decorations(v)
                for d in decs:
                    cases.append("(int %s %s %s %s %s)" % (profile, t, sxb(lo), sxb(hi), hexs(d)))
            for s in FIXED_STRINGS:
                cases.append("(int %s %s %s %s %s)" % (profile, t, sxb(lo), sxb(hi), hexs(s)))
    # random decimal strings of random length against random ranges
    n = 2000 if quick else 60000
    for _ in range(n):
        t = rng.choice(TYPES)
        tmin, tmax = tbounds(t)
        L = rng.choice([1, 2, 3, 5, 10, 18, 19, 20, 21])
        s = rng.choice(["", "", "+", "-"]) + "".join(rng.choice("0123456789") for _ in range(L))
        if rng.random() < 0.1:
            i = rng.randrange(len(s) + 1)
            s = s[:i] + rng.choice([" ", "_", "x", "-", "+", ".", "٣"]) + s[i:]
        a, b = sorted([rng.randint(tmin, tmax), rng.randint(tmin, tmax)])
        lo = rng.choice(["none", ("incl", a), ("excl", a)])
        hi = rng.choice(["none", ("incl", b), ("excl", b)])
        cases.append("(int %s %s %s %s %s)" % (profile, t, sxb(lo), sxb(hi), hexs(s.encode())))
    return cases


# ----------------------------------------------------------------- bool-like
# the documented literal sets (doc comments of BoolishValueParser/FalseyValueParser and str_to_bool.rs)
DOC_TRUE = ["y", "yes", "t", "true", "on", "1"]
DOC_FALSE = ["n", "no", "f", "false", "off", "0"]


def ascii_lower(b):
    return bytes(c + 32 if 65 <= c <= 90 else c for c in b)


def source_literals():
    try:
        src = open(os.environ.get("VERIF_REPO", "/repo") + "/clap_builder/src/util/str_to_bool.rs", encoding="utf-8").read()
    except OSError:
        return [], []
    out = []
    for name in ("TRUE_LITERALS", "FALSE_LITERALS"):
        m = re.search(r"%s\s*:[^=]*=\s*\[(.*?)\]" % name, src, re.S)
        out.append(re.findall(r'"([^"]*)"', m.group(1)) if m else [])
    return out[0], out[1]


def expect_bool(kind, raw):
    if kind == "bool":
        if raw == b"true":
            return ("ok", "true")
        if raw == b"false":
            return ("ok", "false")
        return ("err", "InvalidValue")
    if kind == "nonempty":
        if raw == b"":
            return ("err", "InvalidValue")
        return ("ok", hexs(raw)) if is_utf8(raw) else ("err", "InvalidUtf8")
    if kind == "string":
        return ("ok", hexs(raw)) if is_utf8(raw) else ("err", "InvalidUtf8")
    if not is_utf8(raw):
        return ("err", "InvalidUtf8")
    low = ascii_lower(raw)
    t = low in [x.encode() for x in DOC_TRUE]
    f = low in [x.encode() for x in DOC_FALSE]
    if kind == "boolish":
        return ("ok", "true") if t else ("ok", "false") if f else ("err", "ValueValidation")
    if kind == "falsey":
        return ("ok", "false") if (f or raw == b"") else ("ok", "true")
    raise ValueError(kind)


def bool_oracle(case, impl):
    v = sx_parse(case)
    kind, raw = v[1], unhex(v[2])
    return check_two(impl, expect_bool(kind, raw), raw, lambda x: x)


def bool_nontrivial(case, impl):
    raw = unhex(sx_parse(case)[2])
    low = ascii_lower(raw)
    return low in [x.encode() for x in DOC_TRUE + DOC_FALSE] or any(c >= 128 for c in raw)


def casings(s):
    idx = [i for i, c in enumerate(s) if c.isalpha()]
    for mask in range(1 << len(idx)):
        l = list(s)
        for k, i in enumerate(idx):
            if mask >> k & 1:
                l[i] = l[i].upper()
        yield "".join(l)


TRAPS = {"k": "K", "s": "ſ", "i": "İ", "f": "ﬀ", "o": "ｏ", "n": "Ｎ", "t": "Ｔ",
         "e": "Е", "y": "Υ", "a": "А", "1": "１", "0": "٠", "u": "µ", "l": "ℓ", "r": "ℛ"}


def gen_bool(tier, rng):
    st, sf = source_literals()
    lits = list(dict.fromkeys(DOC_TRUE + DOC_FALSE + st + sf))
    cands = []
    for l in lits:
        for c in casings(l):
            cands.append(c.encode())
        cands += [(l + "x").encode(), l[:-1].encode(), (" " + l).encode(), (l + " ").encode(), (l + "\n").encode(),
                  (l + l).encode(), (l[0] + "_" + l[1:]).encode(), l.encode() + b"\xff", b"\xff" + l.encode(),
                  (l + "̇").encode(), l.encode() + b"\x00"]
        for i, ch in enumerate(l):
            if ch in TRAPS:
                cands.append((l[:i] + TRAPS[ch] + l[i + 1:]).encode())
                cands.append((l[:i] + TRAPS[ch] + l[i + 1:]).upper().encode())
    cands += [b"", b"2", b"-1", b"00", b"01", b"10", b"yes!", b"nope", b"tru", b"fals", b"of", b"o", b"\xff", b"\xc3",
              "ja".encode(), "ΤRUE".encode(), "K".encode(), "K".encode(), "ſ".encode(), "İ".encode(),
              "ＴＲＵＥ".encode(), "ｏｎ".encode(), "ß".encode(), "true​".encode(), b"True", b"FALSE", b"enabled",
              b"disabled", b"null", b"none", b"nil"]
    cands = list(dict.fromkeys(cands))
    cases = []
    for kind in ("bool", "boolish", "falsey", "nonempty", "string"):
        for c in cands:
            cases.append("(bool %s %s)" % (kind, hexs(c)))
    n = 300 if tier == "quick" else 20000
    alpha = "yestrunofalYESTRUNOFAL01 Kſİx"
    for _ in range(n):
        s = "".join(rng.choice(alpha) for _ in range(rng.choice([1, 2, 3, 4, 5])))
        b = s.encode()
        if rng.random() < 0.05:
            b += bytes([rng.choice([0x80, 0xff, 0xc3])])
        cases.append("(bool %s %s)" % (rng.choice(["boolish", "falsey", "bool", "nonempty"]), hexs(b)))
    return cases


# ----------------------------------------------------------------- possible values / enum
def strict_ci(n, v):
    """matches under every reading of 'case-insensitively'"""
    if n == v:
        return True
    if all(c < 128 for c in n) and all(c < 128 for c in v):
        return ascii_lower(n) == ascii_lower(v)
    return False


def loose_ci(n, v):
    """matches under some reading of 'case-insensitively' (ASCII or any Unicode folding)"""
    if all(c < 128 for c in n) and all(c < 128 for c in v):
        return ascii_lower(n) == ascii_lower(v)
    a, b = n.decode(), v.decode()
    return a == b or a.casefold() == b.casefold() or a.lower() == b.lower() or a.upper() == b.upper()


def expect_match(names, raw, ic):
    """True / False / None (either is admissible: non-ASCII caseless matching)"""
    if not ic:
        return raw in names
    if any(strict_ci(n, raw) for n in names):
        return True
    if not any(loose_ci(n, raw) for n in names):
        return False
    return None


def pv_names(pv):
    """names and aliases of one possible value of a case; a leading `hide` only hides it from listings"""
    return [x for x in pv if x != "hide"]


def possible_oracle(case, impl):
    v = sx_parse(case)
    ic, pvs, raw = v[1] == "true", [pv_names(pv) for pv in v[2]], unhex(v[3])
    if not is_utf8(raw):
        return check_two(impl, ("err", "InvalidUtf8"), raw, lambda x: x)
    names = [unhex(x) for pv in pvs for x in pv]
    e = expect_match(names, raw, ic)
    if e is None:
        two = split_two(impl)
        if two is None:
            return "unparsable result %r" % impl[:200]
        e = two[0][0] == "ok"     # either verdict is admissible, but both points must agree and be well-formed
    return check_two(impl, ("ok", hexs(raw)) if e else ("err", "InvalidValue"), raw, lambda x: x)


def possible_nontrivial(case, impl):
    v = sx_parse(case)
    raw = unhex(v[3])
    if not is_utf8(raw):
        return False
    return any(loose_ci(unhex(x), raw) for pv in v[2] for x in pv_names(pv))


NAME_POOL = ["a", "A", "ab", "Ab", "AB", "aB", "k", "K", "K", "s", "S", "ſ", "ss", "SS", "ß", "ẞ", "é", "É",
             "é", "ǆ", "ǅ", "Ǆ", "İ", "i̇", "i", "I", "ı", "σ", "ς", "Σ", "fast", "FAST", "Fast", "slow", "",
             "-", "--x", "-1", "a b", "a=b", "straße", "STRASSE", "strasse", "ﬀ", "ff", "FF", "µ", "μ", "Μ", "å", "Å",
             "Å", "ω", "Ω", "Ω", "z", "Z", "0", "é1", "É1", "日本", "ǰ", "J̌"]


def flip(s, rng):
    out = []
    for ch in s:
        r = rng.random()
        if r < 0.3:
            ch = ch.upper()
        elif r < 0.6:
            ch = ch.lower()
        elif r < 0.65:
            ch = ch.casefold()
        out.append(ch)
    return "".join(out)


def gen_possible(tier, rng):
    cases = []
    n = 4000 if tier == "quick" else 80000
    for _ in range(n):
        k = rng.choice([1, 1, 2, 3, 4])
        ascii_only = rng.random() < 0.35
        pool = [x for x in NAME_POOL if not ascii_only or x.isascii()]
        pvs = []
        for _ in range(k):
            pvs.append([rng.choice(pool) for _ in range(rng.choice([1, 1, 2, 3]))])
        names = [x for pv in pvs for x in pv]
        r = rng.random()
        if r < 0.45:
            val = flip(rng.choice(names), rng).encode()
        elif r < 0.60:
            val = rng.choice(names).encode()
        elif r < 0.85:
            val = rng.choice(pool).encode()
        elif r < 0.92:
            val = (rng.choice(names) + rng.choice(["x", " ", "̇", "s"])).encode()
        else:
            val = rng.choice(names).encode() + bytes([rng.choice([0xff, 0x80, 0xc3])])
        ic = rng.choice(["true", "false"])
        # a declared value may be hidden from help/error listings (PossibleValue::hide); it is declared all the same
        hid = [rng.random() < 0.25 for _ in pvs]
        cases.append("(possible %s (%s) %s)" % (ic, " ".join("(" + ("hide " if h else "") + " ".join(hexs(x) for x in pv) + ")"
                                                               for pv, h in zip(pvs, hid)), hexs(val)))
    return cases


FRUIT = [["apple", "a", "Pomme"], ["kiwi", "k"], ["éclair", "É"], ["apricot", "APPLE", "ß"]]


def enum_oracle(case, impl):
    v = sx_parse(case)
    ic, pvs, raw = v[1] == "true", v[2], unhex(v[3])
    if impl == "enum-mismatch":
        return "the case's variant table is not the harness's enum"
    if not is_utf8(raw):
        # EnumValueParser reports non-UTF-8 as InvalidValue (and names the argument)
        return check_two(impl, ("err", "InvalidValue"), raw, lambda x: x)
    two = split_two(impl)
    if two is None:
        return "unparsable result %r" % impl[:200]
    per = [expect_match([unhex(x) for x in pv], raw, ic) for pv in pvs]
    # the first variant that must match bounds the answer from above; variants that may match are admissible
    admissible = []
    for i, e in enumerate(per):
        if e is True:
            admissible.append(i)
            break
        if e is None:
            admissible.append(i)
    must = any(e is True for e in per)
    got = two[0]
    if got[0] == "ok":
        if int(got[1]) not in admissible:
            return "enum parser chose variant %s for %r; admissible first matches: %s" % (got[1], raw, admissible)
        return check_two(impl, ("ok", got[1]), raw, lambda x: x)
    if must:
        return "enum parser rejected %r although variant %d declares it" % (raw, admissible[-1])
    if not admissible or got[0] == "err":
        return check_two(impl, ("err", "InvalidValue"), raw, lambda x: x)
    return None


def gen_enum(tier, rng):
    tab = "(" + " ".join("(" + " ".join(hexs(x) for x in pv) + ")" for pv in FRUIT) + ")"
    names = [x for pv in FRUIT for x in pv]
    vals = set()
    for nme in names:
        vals |= {nme, nme.upper(), nme.lower(), nme.casefold(), nme.capitalize(), nme + "x", nme[:-1]}
    vals |= {"", "ss", "SS", "sS", "ẞ", "K", "Kiwi", "KIWI", "ÉCLAIR", "éclair", "É", "é", "pomme", "POMME"}
    cases = []
    for v in sorted(vals):
        for ic in ("true", "false"):
            cases.append("(enum %s %s %s)" % (ic, tab, hexs(v.encode())))
    for ic in ("true", "false"):
        for b in (b"\xff", b"apple\xff", b"\xc3"):
            cases.append("(enum %s %s %s)" % (ic, tab, hexs(b)))
    for _ in range(100 if tier == "quick" else 3000):
        cases.append("(enum %s %s %s)" % (rng.choice(["true", "false"]), tab, hexs(flip(rng.choice(names), rng).encode())))
    return cases


# ----------------------------------------------------------------- typed store
STYPES = TYPES + ["string", "bool"]


def py_typed(t, raw):
    """('ok', canonical rendering bytes) | ('err', kind): what value_parser!(T) makes of raw"""
    if t == "string":
        return ("ok", raw) if is_utf8(raw) else ("err", "InvalidUtf8")
    if t == "bool":
        return ("ok", raw) if raw in (b"true", b"false") else ("err", "InvalidValue")
    e = expect_int(t, "none", "none", raw)
    return ("ok", str(e[1]).encode()) if e[0] == "ok" else e


def store_oracle(case, impl):
    v = sx_parse(case)
    prof, decls, ops = v[1], v[2], v[3]
    # expected build outcome: the first value (in argv order) outside its parser's language
    store = {}
    valid = set()
    for d in decls:
        i, t, raws = unhex(d[0]), d[1], [unhex(x) for x in d[2:]]
        valid.add(i)
        typed = []
        for r in raws:
            e = py_typed(t, r)
            if e[0] == "err":
                if impl != "builderr " + e[1]:
                    return "value %s of a %s argument must be rejected with %s, got %s" % (hexs(r), t, e[1], impl[:200])
                if e[1] == "InvalidUtf8":
                    return None
                return None
            typed.append(e[1])
        if raws:
            store[i] = (t, typed, raws)
    m = re.match(r"ops=\((.*)\) final=\((.*)\)\Z", impl)
    if not m:
        return "all values are in their parsers' languages but the outcome is %s" % impl[:200]
    outs = sx_parse("(" + m.group(1) + ")")
    fin = sx_parse("(" + m.group(2) + ")")
    if len(outs) != len(ops):
        return "history of %d operations produced %d results (panic?): %s" % (len(ops), len(outs), m.group(1)[:300])
    for op, got in zip(ops, outs):
        before = {k: (a, list(b), list(c)) for k, (a, b, c) in store.items()}
        name = op[0]
        if name == "ids":
            if sorted(got[1:]) != sorted(hexs(k) for k in store):
                return "ids() = %s but the stored ids are %s" % (got[1:], sorted(hexs(k) for k in store))
            if len(set(got[1:])) != len(got[1:]):
                return "ids() lists an id twice: %s" % got[1:]
            continue
        i, t = unhex(op[1]), op[2]
        if prof == "debug" and i != b"" and i not in valid:
            exp = ["err", "unknown"]
        elif i not in store:
            exp = "none"
        elif store[i][0] != t:
            exp = ["err", "downcast", store[i][0], t]
        else:
            vals = [hexs(x) for x in store[i][1]]
            exp = ["one", vals[0]] if name.endswith("_one") else ["many"] + vals
            if name.startswith("remove"):
                del store[i]
        if got != exp:
            return "%s: expected %s, got %s (store before: %s)" % (op, exp, got, sorted(before))
    expfin = sorted([hexs(k), [hexs(r) for r in raws]] for k, (_, _, raws) in store.items())
    if fin != expfin:
        return "stored values after the history are %s, expected %s" % (fin, expfin)
    return None


def store_nontrivial(case, impl):
    return "(err " in impl or "(remove_" in case


VAL_POOL = {
    "string": [b"", b"x", b"qq", b"-v", b"a b", "é".encode(), b"true", b"7"],
    "bool": [b"true", b"false"],
}


def gen_store(tier, rng, profile="debug"):
    cases = []
    n = 3000 if tier == "quick" else 60000
    for _ in range(n):
        ids = rng.sample(["a", "b", "c", "d", "e"], rng.choice([0, 1, 2, 2, 3, 3, 4]))
        decls = []
        bad = rng.random() < 0.08
        for i in ids:
            t = rng.choice(STYPES)
            k = rng.choice([0, 1, 1, 1, 2, 3])
            vals = []
            for _ in range(k):
                if t in VAL_POOL:
                    vals.append(rng.choice(VAL_POOL[t]))
                else:
                    tmin, tmax = tbounds(t)
                    x = rng.choice([tmin, tmax, 0, 1, 7, rng.randint(tmin, tmax)])
                    s = str(x)
                    if rng.random() < 0.2:
                        s = ("+" if x >= 0 else "-") + "00" + str(abs(x))
                    vals.append(s.encode())
                if bad and rng.random() < 0.3:
                    vals[-1] = rng.choice([b"\xff", b"300000000000000000000", b"x", b"", b"-1", b"TRUE", b"256", b"128"])
            decls.append((i, t, vals))
        types = {i: t for i, t, _ in decls}
        ops = []
        for _ in range(rng.choice([1, 2, 3, 5, 8, 12])):
            r = rng.random()
            if r < 0.12:
                ops.append("(ids)")
                continue
            i = rng.choice(ids + ["z", ""]) if (not ids or rng.random() < 0.15) else rng.choice(ids)
            if i in types and rng.random() < 0.7:
                t = types[i]
            else:
                t = rng.choice(STYPES)
            ops.append("(%s %s %s)" % (rng.choice(["get_one", "get_many", "remove_one", "remove_many"]), hexs(i.encode()), t))
        cases.append("(store %s (%s) (%s))" % (
            profile, " ".join("(%s %s%s)" % (hexs(i.encode()), t, "".join(" " + hexs(x) for x in vals)) for i, t, vals in decls),
            " ".join(ops)))
    return cases



# ----------------------------------------------------------------- stream `store-groups` (implementation only)
# A group's matcher entry holds the ids of its present members (type clap::Id).  Every typed accessor called on a group id
# with one of the value types must FAIL (Downcast) and leave every stored value as it was (seeded change seed2/C04-3: a
# remove that trusted the entry's recorded type id, which a group entry does not have, removed the entry and then panicked).
def gen_store_groups(tier, rng):
    cases = []
    n = 400 if tier == "quick" else 8000
    for _ in range(n):
        ids = rng.sample(["a", "b", "c", "d"], rng.choice([2, 3, 4]))
        decls = []
        for i in ids:
            t = rng.choice(["u8", "string", "bool", "i64"])
            k = rng.choice([0, 1, 1, 2])
            pool = VAL_POOL.get(t, [b"1", b"7", b"0", b"100"])
            decls.append((i, t, [rng.choice(pool) for _ in range(k)]))
        groups = []
        for g in rng.sample(["g", "h"], rng.choice([1, 2])):
            groups.append((g, rng.sample(ids, rng.choice([1, 2]))))
        ops = []
        for _ in range(rng.choice([1, 2, 3, 5])):
            r = rng.random()
            if r < 0.15:
                ops.append("(ids)")
            elif r < 0.75:
                g = rng.choice(groups)[0]
                ops.append("(%s %s %s)" % (rng.choice(["get_one", "get_many", "remove_one", "remove_many"]), hexs(g.encode()),
                                           rng.choice(["u8", "string", "bool", "i64", "u16"])))
            else:
                i = rng.choice(ids)
                wrong = rng.choice([t for t in ["u8", "string", "bool", "i64", "u16"] if t != dict((a, b) for a, b, _ in decls)[i]])
                ops.append("(%s %s %s)" % (rng.choice(["get_one", "remove_one", "remove_many"]), hexs(i.encode()), wrong))
        cases.append("(store debug (%s) (%s) (%s))" % (
            " ".join("(%s %s%s)" % (hexs(i.encode()), t, "".join(" " + hexs(x) for x in vals)) for i, t, vals in decls),
            " ".join(ops),
            " ".join("(%s %s)" % (hexs(g.encode()), " ".join(hexs(m.encode()) for m in ms)) for g, ms in groups)))
    return cases


# ----------------------------------------------------------------- stream `store-empty` (implementation only)
# An option given WITHOUT a value (num_args(0..), no default_missing_value) is present and holds an empty occurrence.  The
# typed accessors must still check the requested type against the argument's parser: the wrong type fails with Downcast
# (get_one and get_many alike), the right type sees no value (seeded change seed4/C04-2 deferred the check to the first
# stored value, so it never happened for an empty occurrence).
def gen_store_empty(tier, rng):
    cases = []
    types = ["u8", "string", "bool", "i64", "u16"]
    for _ in range(300 if tier == "quick" else 6000):
        ids = rng.sample(["a", "b", "c", "d"], rng.choice([1, 2, 3]))
        decls = []
        for i in ids:
            t = rng.choice(types)
            if rng.random() < 0.6:
                decls.append((i, t, None))
            else:
                pool = VAL_POOL.get(t, [b"1", b"7", b"0", b"100"])
                decls.append((i, t, [rng.choice(pool) for _ in range(rng.choice([1, 2]))]))
        ops = []
        for _ in range(rng.choice([1, 2, 3, 5])):
            i, t, _v = rng.choice(decls)
            ops.append("(%s %s %s)" % (rng.choice(["get_one", "get_many"]), hexs(i.encode()), t if rng.random() < 0.4 else rng.choice(types)))
        cases.append("(store debug (%s) (%s))" % (
            " ".join("(%s %s%s)" % (hexs(i.encode()), t, " bare" if vals is None else "".join(" " + hexs(x) for x in vals))
                     for i, t, vals in decls), " ".join(ops)))
    return cases


def store_empty_oracle(case, impl):
    v = sx_parse(case)
    decls, ops = v[2], v[3]
    ty = {unhex(d[0]): d[1] for d in decls}
    bare = {unhex(d[0]) for d in decls if len(d) == 3 and d[2] == "bare"}
    m = re.match(r"ops=\((.*)\) final=\((.*)\)\Z", impl)
    if not m:
        return "unexpected outcome %s" % impl[:200]
    outs = sx_parse("(" + m.group(1) + ")")
    if "panic" in outs or len(outs) != len(ops):
        return "a typed access panicked / the history stopped early: %s" % m.group(1)[:300]
    for op, got in zip(ops, outs):
        i, t = unhex(op[1]), op[2]
        if t != ty[i]:
            if got != ["err", "downcast", ty[i], t]:
                return "%s on an argument of type %s (%s) must fail with Downcast, got %s" % (
                    op, ty[i], "present with an empty occurrence" if i in bare else "present", got)
        elif i in bare:
            want = "none" if op[0] == "get_one" else ["many"]
            if got != want:
                return "%s on a present argument without values: expected %s, got %s" % (op, want, got)
    return None


def store_groups_oracle(case, impl):
    v = sx_parse(case)
    decls, ops, groups = v[2], v[3], v[4]
    present = {unhex(d[0]): [unhex(x) for x in d[2:]] for d in decls if len(d) > 2}
    gpresent = {unhex(g[0]): [unhex(m) for m in g[1:] if unhex(m) in present] for g in groups}
    gpresent = {g: ms for g, ms in gpresent.items() if ms}
    m = re.match(r"ops=\((.*)\) final=\((.*)\)\Z", impl)
    if not m:
        return "unexpected outcome %s" % impl[:200]
    outs = sx_parse("(" + m.group(1) + ")")
    fin = sx_parse("(" + m.group(2) + ")")
    if "panic" in outs or len(outs) != len(ops):
        return "a typed access panicked / the history stopped early: %s" % m.group(1)[:300]
    for op, got in zip(ops, outs):
        if op[0] == "ids":
            want = sorted(hexs(k) for k in list(present) + list(gpresent))
            if sorted(got[1:]) != want:
                return "ids() = %s, the stored ids are %s" % (got[1:], want)
            continue
        i = unhex(op[1])
        if i in present or i in gpresent:
            if not (isinstance(got, list) and got[:2] == ["err", "downcast"]):
                return "%s on a present id with another type must fail with Downcast, got %s" % (op, got)
        elif got != "none":
            return "%s on an absent id: expected none, got %s" % (op, got)
    have = {unhex(k): [unhex(x) for x in raws] for k, raws in fin}
    for k, raws in present.items():
        if have.get(k) != raws:
            return "failing accesses disturbed the stored values of %r: %s, expected %s" % (k, have.get(k), raws)
    for g in gpresent:
        if g not in have:
            return "failing accesses removed the entry of group %r" % g
    return None


# ----------------------------------------------------------------- stream `stored` (round 2): the values a whole parse stores
# Direct reading of the property's first sentence on the implementation's ArgMatches: at every level of a
# successful parse, every raw value reported for an argument lies in the language of THAT argument's value
# parser (ranged integer: a decimal inside the range and i64; bool: true/false; count: 0..255; String: UTF-8).
# This is the statement of the Coq theorems C04_parser_typed_levels / C04_stored_* / C04_merge_typed.
def _vp_of(a):
    v = a.get("vp")
    if v:
        return v
    act = a.get("action", "set")
    if act in ("settrue", "setfalse"):
        return "bool"
    if act == "count":
        return "count"
    return "string"


def _level_defs(cmd, chain_names):
    """per level of the reported chain: id -> argument definition (own arguments, then the global arguments of
    the ancestors that the level does not define itself); stops at a name that is not a subcommand (external)"""
    out = []
    inherited = []
    cur = cmd
    while True:
        defs = {a["id"]: a for a in cur["args"]}
        for g in inherited:
            defs.setdefault(g["id"], g)
        out.append(defs)
        if len(out) > len(chain_names):
            break
        nxt = [s for s in cur["subs"] if s["name"] == chain_names[len(out) - 1]]
        if not nxt:
            break
        inherited = [a for a in defs.values() if "global" in a["flags"]]
        cur = nxt[0]
    return out


def _in_language(vp, raw, icase=False):
    if vp == "os":
        return True
    if vp == "string":
        return is_utf8(raw)
    if vp == "bool":
        return raw in (b"true", b"false")
    if vp == "count":
        return bool(DEC_SIGNED.match(raw)) and 0 <= big_reading(raw) <= 255
    if isinstance(vp, tuple) and vp[0] == "i64":
        return (is_utf8(raw) and bool(DEC_SIGNED.match(raw)) and vp[1] <= big_reading(raw) <= vp[2]
                and I64_MIN <= big_reading(raw) <= I64_MAX)
    # round 4: the parsers the case format can now name (the same independent readings as the streams
    # `int` / `bool` / `possible` use on parse_ref directly)
    if vp in ("boolish", "falsey", "nonempty"):
        return expect_bool(vp, raw)[0] == "ok"
    if isinstance(vp, tuple) and vp[0] == "int":
        return expect_int(vp[1], ("incl", vp[2]), ("incl", vp[3]), raw)[0] == "ok"
    if isinstance(vp, tuple) and vp[0] == "pv":
        if not is_utf8(raw):
            return False
        names = [x for n, al, _hide in vp[1] for x in [n] + list(al)]      # hidden values are values
        return expect_match(names, raw, icase) is not False                 # None: non-ASCII caseless, either verdict
    return True


def _stored_walk(case, impl):
    """-> (violation or None, number of values checked against a non-trivial parser, skipped shadowed ids)"""
    p = parse_result(impl)
    if p["kind"] != "ok":
        return None, 0, 0
    cmd, _argv = parse_streams.decode_case(case)
    lv = parse_streams.levels(p["m"])
    names = [n for (_e, n) in lv if n is not None]
    defs = _level_defs(cmd, names)
    checked = skipped = 0
    for k, (ents, _n) in enumerate(lv):
        if k >= len(defs):
            break
        for e in ents:
            a = defs[k].get(e["id"])
            if a is None or e["src"] == "?":
                continue
            vps = {repr(_vp_of(d[e["id"]])) for d in defs if e["id"] in d}
            if len(vps) > 1:        # the id is redefined with another parser on the chain: recorded observation
                skipped += 1
                continue
            vp = _vp_of(a)
            for g in e["occ"]:
                for raw in g:
                    if vp not in ("os", "string"):
                        checked += 1
                    if not _in_language(vp, raw, "icase" in a.get("flags", ())):
                        return ("level %d: argument %r (parser %r) reports the value %r, which its value parser does not accept"
                                % (k, e["id"], vp, raw)), checked, skipped
    return None, checked, skipped


def stored_oracle(case, impl):
    return _stored_walk(case, impl)[0]


def make_stored_nontrivial(d):
    """non-trivial = a successful parse in which at least one reported value was checked against a parser other
    than String/OsString; the measured distribution goes into the evidence"""
    def nt(case, impl):
        _v, checked, skipped = _stored_walk(case, impl)
        p = parse_result(impl)
        key = p["kind"] if p["kind"] != "err" else "err:" + p["ekind"]
        d["outcome " + key] = d.get("outcome " + key, 0) + 1
        d["typed values checked (i64/bool/count)"] = d.get("typed values checked (i64/bool/count)", 0) + checked
        d["entries skipped: id redefined with another parser on the chain"] = \
            d.get("entries skipped: id redefined with another parser on the chain", 0) + skipped
        return checked > 0
    return nt


def stored_project(r):
    p = parse_result(r)
    if p["kind"] == "err":
        return "help-or-version" if p["ekind"].split("|")[0] in ("DisplayHelp", "DisplayVersion") else "err"
    if p["kind"] == "panic":
        return "panic"
    return r


def _has_typed_arg(c):
    return any(isinstance(a.get("vp"), tuple) or a.get("action") in ("count", "settrue", "setfalse") for a in c["args"]) \
        or any(_has_typed_arg(sc) for sc in c["subs"])


def gen_stored(tier, rng):
    n = 4000 if tier == "quick" else 60000
    # commands with at least one ranged-integer / bool / count argument; mostly-valid lines (so that values are
    # stored), defaults and env values as generated, some mutation (so that values outside the language occur)
    # flag_values: SetTrue / SetFalse options with num_args(0..=1) (`--flag=false` stores "false", which the bool parser accepted)
    return parse_streams.gen_cases(rng, n, {"flag_values": 0.15}, per_cmd=6, p_mutate=0.25, safe_p=0.8, want=_has_typed_arg)


# ----------------------------------------------------------------- stream `stored_wide` (round 4)
# The same reading on commands whose arguments carry the value parsers the parser MODEL can name since round 4:
# boolish / falsey / non-empty / possible values (hidden values, aliases, ignore_case from the argument's flag) /
# value_parser!(T).range(lo..=hi) for u8..u64.  Values are drawn around each parser's language boundary
# (gen_cmd.wide_value): literals in flipped case, near misses, U+212A, names of hidden values, wrong case with and
# without ignore_case, lo-1/lo/hi/hi+1, T::MIN-1/T::MAX+1, +/-2^63, 2^64, "-0", "+", non-UTF-8.
WIDE_PROFILE = dict(vp_wide=0.55, vp_wide_ext=0.4, typed=0.25, defaults=0.35, env=0.25, max_opts=4, max_pos=2, invalid=0.01)
VALUE_KINDS = ("InvalidValue", "ValueValidation", "InvalidUtf8")


def _has_wide_arg(c):
    return any(gen_cmd.vp_is_wide(a.get("vp")) for a in c["args"]) or any(_has_wide_arg(sc) for sc in c["subs"])


def _wide_kind(vp):
    return vp if isinstance(vp, str) else (vp[0] if vp[0] != "int" else "int-" + vp[1])


def gen_wide_simple(rng, n):
    """SIMPLE lines: one level, 1..3 options `--oK` (action set, a wide or ranged-i64 value parser, ignore_case now and
    then, nothing else), each given once as `--oK=value`: the outcome is decided exactly by the property text
    (`_simple_expect`), independently of any model of the parser loop"""
    out = []
    while len(out) < n:
        k = rng.randrange(1, 4)
        args = []
        for j in range(k):
            name = ("o%d" % j).encode()
            a = {"id": name, "long": name, "action": "set", "flags": set()}
            a["vp"] = gen_cmd.gen_wide_vp(rng, None) if rng.random() < 0.9 else ("i64", -5, 300)
            if isinstance(a["vp"], tuple) and a["vp"][0] == "pv" and rng.random() < 0.5:
                a["flags"].add("icase")
            args.append(a)
        c = {"name": b"p", "args": args, "groups": [], "subs": [], "settings": [], "aliases": []}
        for _ in range(4):
            order = list(args)
            rng.shuffle(order)
            argv = [b"p"]
            for a in order:
                if rng.random() < 0.85:
                    v = gen_cmd.wide_value(rng, a, rng.random() < 0.7) if gen_cmd.vp_is_wide(a["vp"]) else \
                        gen_cmd.value_for(rng, a, rng.random() < 0.7)
                    argv.append(b"--" + a["long"] + b"=" + v)
            out.append(gen_cmd.case_sx(c, argv, mode="parse"))
    return out[:n]


def gen_stored_wide(tier, rng):
    n = 6000 if tier == "quick" else 60000
    return (parse_streams.gen_cases(rng, n, WIDE_PROFILE, per_cmd=6, p_mutate=0.2, safe_p=0.75, want=_has_wide_arg)
            + gen_wide_simple(rng, n // 3))


_PLAIN_ARG_KEYS = {"id", "long", "action", "vp", "flags", "aliases", "saliases", "difs", "requires_if", "r_if", "r_if_all",
                   "short"}


def _simple_line(cmd, argv):
    """[(arg, value)] in argv order if the case is a SIMPLE line (see gen_wide_simple), else None"""
    if cmd["subs"] or cmd["groups"] or cmd["settings"] or cmd.get("ext") or cmd.get("ext_items"):
        return None
    by_long = {}
    for a in cmd["args"]:
        if set(k for k, v in a.items() if v not in (None, [], set(), ())) - _PLAIN_ARG_KEYS:
            return None
        if a.get("action") != "set" or not a.get("long") or a.get("short") or a["flags"] - {"icase"}:
            return None
        if a["aliases"] or a["saliases"] or a["difs"] or a["requires_if"] or a["r_if"] or a["r_if_all"]:
            return None
        if a["long"] in (b"help", b"version") or a["long"] in by_long:
            return None
        by_long[a["long"]] = a
    out, seen = [], set()
    for t in argv[1:]:
        if not t.startswith(b"--") or b"=" not in t:
            return None
        name, _, v = t[2:].partition(b"=")
        a = by_long.get(name)
        if a is None or name in seen:
            return None
        seen.add(name)
        out.append((a, v))
    return out


def simple_oracle(case, impl):
    """two-sided, from the property text: on a SIMPLE line the parse succeeds and stores every value exactly as
    typed iff each value lies in the language of its argument's parser; otherwise it fails with a value error"""
    cmd, argv = parse_streams.decode_case(case)
    line = _simple_line(cmd, argv)
    if line is None or not argv:
        return None
    p = parse_result(impl)
    if p["kind"] not in ("ok", "err"):
        return None                      # panics / invalid definitions: C01's
    verdicts = []
    for a, v in line:
        vp = _vp_of(a)
        if isinstance(vp, tuple) and vp[0] == "pv" and is_utf8(v):
            names = [x for n, al, _h in vp[1] for x in [n] + list(al)]
            verdicts.append(expect_match(names, v, "icase" in a["flags"]))     # None = either (non-ASCII caseless)
        else:
            verdicts.append(_in_language(vp, v, "icase" in a["flags"]))
    if any(x is None for x in verdicts):
        return None
    if all(verdicts):
        if p["kind"] != "ok":
            return ("every value of the line lies in the language of its argument's parser, but the parse failed with %s"
                    % p.get("ekind"))
        ents = {e["id"]: e for e in parse_streams.levels(p["m"])[0][0]}
        for a, v in line:
            e = ents.get(a["id"])
            if e is None or e["occ"] != [[v]]:
                return "argument %r: expected the stored value %r, reported %r" % (a["id"], v, e and e["occ"])
        return None
    a, v = [(a, v) for (a, v), ok in zip(line, verdicts) if not ok][0]
    if p["kind"] == "ok":
        return "the value %r is outside the language of the parser of %r (%r), but the parse succeeded" % (v, a["id"], _vp_of(a))
    if p["ekind"].split("|")[0] not in VALUE_KINDS:
        return "the value %r of %r is outside its parser's language: expected a value error, got %s" % (v, a["id"], p["ekind"])
    return None


def stored_wide_oracle(case, impl):
    return stored_oracle(case, impl) or simple_oracle(case, impl)


def make_wide_nontrivial(d):
    """non-trivial = a successful parse that stores at least one value of an argument with a wide parser, or a
    value-error rejection; the measured distribution (parser kinds stored, outcomes) goes into the evidence"""
    def nt(case, impl):
        p = parse_result(impl)
        key = p["kind"] if p["kind"] != "err" else "err:" + p["ekind"]
        d["outcome " + key] = d.get("outcome " + key, 0) + 1
        cmd, _argv = parse_streams.decode_case(case)
        if _simple_line(cmd, _argv) is not None:
            d["simple lines (outcome decided exactly by the oracle)"] = \
                d.get("simple lines (outcome decided exactly by the oracle)", 0) + 1
        if p["kind"] == "err":
            return p["ekind"].split("|")[0] in VALUE_KINDS
        if p["kind"] != "ok":
            return False
        lv = parse_streams.levels(p["m"])
        defs = _level_defs(cmd, [n for (_e, n) in lv if n is not None])
        hit = False
        for k, (ents, _n) in enumerate(lv):
            if k >= len(defs):
                break
            for e in ents:
                a = defs[k].get(e["id"])
                if a is None or e["src"] == "?" or not gen_cmd.vp_is_wide(a.get("vp")):
                    continue
                nv = sum(len(g) for g in e["occ"])
                if nv:
                    hit = True
                    key = "values stored under %s (%s)" % (_wide_kind(a["vp"]), e["src"])
                    d[key] = d.get(key, 0) + nv
                    if isinstance(a["vp"], tuple) and a["vp"][0] == "pv":
                        names = {x: h for n_, al, h in a["vp"][1] for x in [n_] + list(al)}
                        for g in e["occ"]:
                            for raw in g:
                                if names.get(raw):
                                    d["stored values that are HIDDEN possible values"] = \
                                        d.get("stored values that are HIDDEN possible values", 0) + 1
                                elif raw not in names:
                                    d["stored possible values matched caselessly (ignore_case)"] = \
                                        d.get("stored possible values matched caselessly (ignore_case)", 0) + 1
        return hit
    return nt


def stored_wide_project(r):
    """full matches on success; the value-error kinds are C04's, other rejections only as `err`"""
    p = parse_result(r)
    if p["kind"] == "err":
        k = p["ekind"].split("|")[0]
        if k in ("DisplayHelp", "DisplayVersion"):
            return "help-or-version"
        return "err:" + k if k in VALUE_KINDS else "err"
    if p["kind"] == "panic":
        return "panic"
    return r


# ----------------------------------------------------------------- streams
def streams(tier, rng):
    d_stored = {"measured": "on the implementation's results of this run (filled in while the stream is evaluated)"}
    d_wide = {"measured": "on the implementation's results of this run (filled in while the stream is evaluated)"}
    sts = [
        Stream("int", gen_int(tier, rng), oracle=int_oracle, area="value", nontrivial=int_nontrivial),
        Stream("bool", gen_bool(tier, rng), oracle=bool_oracle, area="value", nontrivial=bool_nontrivial),
        Stream("possible", gen_possible(tier, rng), oracle=possible_oracle, area="value", nontrivial=possible_nontrivial),
        Stream("enum", gen_enum(tier, rng), oracle=enum_oracle, area="value"),
        Stream("store", gen_store(tier, rng), oracle=store_oracle, area="value", nontrivial=store_nontrivial),
        Stream("store-groups", gen_store_groups(tier, rng), oracle=store_groups_oracle, area=None,
               nontrivial=lambda c, r: "(err " in (r or "")),
        Stream("store-empty", gen_store_empty(tier, rng), oracle=store_empty_oracle, area=None,
               nontrivial=lambda c, r: "downcast" in (r or "")),
        Stream("stored", gen_stored(tier, rng), oracle=stored_oracle, area="parse", project=stored_project,
               nontrivial=make_stored_nontrivial(d_stored), describe=d_stored),
        Stream("stored_wide", gen_stored_wide(tier, rng), oracle=stored_wide_oracle, area="parse", project=stored_wide_project,
               nontrivial=make_wide_nontrivial(d_wide), describe=d_wide),
    ]
    if tier == "thorough":
        # builds without debug assertions: range() does not assert, verify_arg does not check
        sts.append(Stream("int_release", gen_int("quick", rng, "release"), oracle=int_oracle, area="value",
                          nontrivial=int_nontrivial, profile="release"))
        sts.append(Stream("store_release", gen_store("quick", rng, "release"), oracle=store_oracle, area="value",
                          nontrivial=store_nontrivial, profile="release"))
    return sts


def classify_known(stream, case, impl, failure):
    """A failing case belongs to the recorded family only if the *only* complaint is that an
    InvalidUtf8 rejection of a non-UTF-8 candidate does not name the argument."""
    if failure and failure.startswith("KNOWN-CANDIDATE " + KNOWN_UTF8):
        v = sx_parse(case)
        raw = unhex(v[-1])
        if not is_utf8(raw) and "InvalidUtf8" in impl:
            return "C04-" + KNOWN_UTF8
    return None


TECHNIQUE = ("Coq proof (language equality of the ranged-integer, boolean-literal and possible-value parser models with "
             "declarative specifications; refinement of the typed store to a finite map; round 2: a state invariant of the "
             "parser model -- every value stored for an argument was accepted by that argument's value parser -- proved by "
             "one traversal of the token loop, the env/default phases, the subcommand recursion and the globals merge, and "
             "bridged to the value-parser models; round 4: the parser model's value-parser type extended by the boolish, "
             "falsey, non-empty, possible-value and every-width ranged parsers, delegating to those models, so the invariant "
             "and its per-parser readings cover them) + regenerated literal/factory tables + extracted-model/implementation "
             "correspondence (value parsers directly and through the full parser)")
LEVEL_TEXT = ("Machine-checked theorems (Coq 8.16, closed under the global context): the transcription of "
              "Ranged{I64,U64}ValueParser::parse_ref over a digit-by-digit model of str::parse accepts exactly the strings "
              "[+-]?[0-9]+ (resp. +?[0-9]+) whose unbounded integer reading lies in the declared range, the carrier and the "
              "target type, and returns that integer (no wrapping, no truncation), for every range and width; each "
              "value_parser!(T) factory (table regenerated from the source) has exactly T's bounds; bool/boolish/falsey "
              "accept exactly the literal sets regenerated from str_to_bool.rs (ASCII-case-insensitively for the lowercasing "
              "ones); possible-value and enum parsers accept exactly the declared names and aliases, caselessly iff "
              "ignore_case; every rejection is InvalidUtf8/ValueValidation/InvalidValue; every history of typed "
              "get/remove calls refines a finite map in which failing accesses change nothing and a successful remove "
              "deletes exactly that id.  Round 2 (whole parser): for EVERY command passing the validity gate and every "
              "token list, the matcher get_matches_with hands back -- on success and on error -- is typed at every level of "
              "the subcommand chain: each value stored for an argument (command line, env, default, conditional default, "
              "default-missing, action literal) was accepted by that argument's value parser, and the typed value stored "
              "next to it is the C04 model's parse of it (same shape, same place); hence for a ranged-integer argument every "
              "reported value is a decimal inside the range and the target type whose integer reading is the typed value, "
              "for bool exactly true/false, for String well-formed UTF-8; the property survives the globals merge whenever the "
              "definitions agree on the parser of each global id (refutation witness otherwise); a rendered invocation "
              "(C02's un-parser class) carrying a value outside the language is never accepted, and every value-error of "
              "parse_top is the refusal of an argument's parser of a value of the line or the definition, naming the "
              "argument; the ArgMatches of every successful level of a parse satisfies the typed-store invariant, so wrong-type and "
              "unknown-id accesses on a parse result fail and leave every stored entry untouched.  Round 4: the parser "
              "model itself names BoolishValueParser, FalseyValueParser, NonEmptyStringValueParser, PossibleValuesParser "
              "(ignore_case read from the argument, hidden values kept) and value_parser!(T).range(lo..=hi) for "
              "u8/i8/u16/i16/u32/i32/u64/i64 and hands their strings to the C04 models, so all of the above holds for "
              "commands using them; for all ten parser names `accepted by the parser model <-> in the documented language, "
              "typed value as documented` (C04_accepts_reading): a stored boolish value is one of the regenerated literals "
              "up to ASCII case and its typed value the truth value; falsey is false exactly for the empty string and the "
              "false literals; a stored possible value is a declared name or alias of some value of the list -- hidden ones "
              "included (C04_hidden_accepted) --, byte for byte unless the argument asked for ignore_case "
              "(C04_possible_exact); a stored ranged value of any width is a decimal whose unbounded reading lies in the "
              "declared bounds and in the type (65536 is no u16, 261 is not 5, -0 and 2^64 are no u64: C04_ranged_no_wrap, "
              "C04_ranged_complete); outside the documented language each of the ten parsers answers InvalidUtf8 / "
              "InvalidValue / ValueValidation, InvalidUtf8 only for ill-formed input (C04_outside_reading_rejected), and "
              "C10's language predicate is this language (C04_in_lang_reading); the reading holds at every level of what "
              "parse_top reports (C04_parse_top_stored, C04_parse_top_root_stored).  The models are tied to "
              "clap_builder by running the extracted model and the real crate (direct parse_ref, full Command path, and the "
              "full parser on random command trees with typed arguments) on the same generated cases on every check, with "
              "an independent python oracle on the implementation's output.")
LEVEL_NOTE = ("Trusted: Coq kernel, extraction, OCaml driver, Rust harness, generators, translators/tables.py; std's "
              "str::parse/from_utf8/try_from/to_lowercase and unicase::eq are modelled (spec-level), not verified.  "
              "Recorded: InvalidUtf8 rejections do not name the argument (known finding C04-invalid-utf8-unnamed, theorem "
              "C04_reject_names_arg_refuted); a failed try_remove_* moves the id to the end of ids() "
              "(C04_store_order_refuted, observation); the globals merge copies entries by id alone, so a subcommand that "
              "redefines the id of an ancestor's global argument with another value parser makes the ancestor report a value "
              "its own parser refuses (C04_merged_typed_refuted, model = implementation, observation).  Round 4 changed the MODEL "
              "(Parse/Cmd.v vparser, Parse/Parser.v vp_parse; spec reader, harness and generator follow): pinned statements of "
              "the other properties are textually unchanged and now quantify over the wider parser type.  Differential only: "
              "whole-parse statements for EnumValueParser (derive side), the link `ic = the argument's ignore_case` outside "
              "commands built by the spec reader (pv_coherent is a hypothesis of C04_stored_possible_arg), the typed store of the merged result and of levels "
              "that failed under ignore_errors, rejection completeness outside the un-parser class, unicase outside ASCII.")
