"""C06: command line beats environment beats default, and sources are reported honestly.

The oracle is written from the property text (and clap's documentation of `Arg::env`,
`default_value`, `default_value_if(s)`, `default_missing_value`, `ArgMatches::value_source`), on
the output of the real crate only; it knows nothing of the Coq model."""
import collections

from .. import gen_cmd
from ..core import hexs, unhex, sx_parse, sx_str
from ..parse_common import parse_result
from ..parse_streams import cmd_of_sx, levels
from ..runner import Stream

ID = "C06"
AREAS = ["sources"]
RULE = ("random command trees (vp/gen_cmd.py, profile defaults=0.7 env=0.6, no hyphen-values) post-processed so that "
        "every argument independently carries plain defaults, default_value_if chains (present / equals, value / None), "
        "default-missing values (num 0..=1, with and without require_equals), an environment variable (set / unset, also "
        "on flags and counters), globals; argv rendered from invocations where each argument is independently present or "
        "absent, spelled `--o`, `--o=`, `--o=v`, `--o v`, `-o`, `-o=v`; a second stream mutates tokens; a third runs every "
        "command twice (with / without its default declarations); a fourth uses the shared generator with every parser "
        "feature on (hyphen values, trailing var args, flag subcommands, inference, external subcommands, boundary and "
        "non-UTF-8 tokens).  The first stream also carries `pending_error_cases`: ignore_errors, an argument with a "
        "distinctive default (sometimes an environment variable) that is a single/multi-valued positional or a num_args(1..) "
        "option, values, then a token that raises an error while the occurrence is still open (`help <unknown>`, a conflicting "
        "subcommand, an error inside the subcommand, an unknown flag, an invalid subcommand).  A case is non-trivial when the result is Ok and some "
        "argument of a reached level has at least two of {command-line occurrence, set environment variable, declared "
        "default} or a default-missing occurrence; distinct = distinct case text.")
TRUSTED = [
    "Coq 8.16.1 kernel (coqc); no native_compute; theorems C06_* are 'Closed under the global context'",
    "extraction: ExtrOcamlBasic only, no Extract Constant; OCaml driver ocaml/sources_driver.ml + common_parse/{spec,show}.ml",
    "correspondence: vp/props/c06.py generators, harness/src/modes/{parse,c06}.rs, projection = per level (id, value_source, raw occurrences) in ids() order + args_present",
    "modelled not verified: std::env::var_os (the variable's value is read when Arg::env is called; the harness sets it just before), Vec/FlatMap of Rust core",
]
ASSUMPTIONS = [
    "environment = finite map fixed before the command is built (Arg::env resolves the variable at builder time)",
    "value parsers limited to string / os-string / bool / u8-count / ranged i64 (custom parsers, FalseyValueParser for flags are outside the model)",
    "theorems quantify over every command record / matcher / state (no validity hypothesis unless stated); ids of groups and args are assumed distinct only where a hypothesis says so",
]
TECHNIQUE = ("Coq proof about the executable parser model (phase order of get_matches_with; frame theorems for add_env / "
             "add_defaults / add_default_value; parse-loop invariant 'every command-line entry is labelled CommandLine'; "
             "set_source monotone; validate and args_present blind to DefaultValue entries; default-missing injection iff "
             "the occurrence is empty; source tables regenerated from action.rs / value_source.rs; round 2: whole-line "
             "statements by composition with the un-parser theorem C02_unparse (class wf_inv), C10's line invariant K "
             "(all token lists) and C09's globals closed form; a simulation proof that no function of the command-line "
             "phase, the env phase or the validator reads a default value; under ignore_errors: pending-invariance of react on "
             "success and error states and an append-only shape invariant of the defaults phase that holds of error states) + extracted-model / "
             "implementation correspondence + python precedence oracle on the implementation")
LEVEL_TEXT = ("Machine-checked theorems (Coq 8.16, closed under the global context) about the executable model of "
              "Parser::{get_matches_with, add_env, add_defaults, add_default_value, react, start_custom_arg, parse (token loop)}, "
              "MatchedArg::{set_source, check_explicit}, Validator::validate and ArgMatches::args_present, for every command "
              "record, environment (a_env per argument), state and argument vector: on success the parse is validate after "
              "add_defaults after add_env after the command line; per argument the entry is the command-line one untouched, "
              "else the environment value labelled EnvVariable, else the first matching conditional default / plain default "
              "labelled DefaultValue, else absent; DefaultValue entries never start groups, never remove overrides and do not "
              "change the validator's verdict or args_present.  Round 2, against the LINE: for every rendered invocation tree "
              "of C02's class (wf_inv) and every argument of every level of a successful try_get_matches_from, exactly one "
              "origin holds (C06_origin, C06_origin_globals): named on the line by an occurrence that survives the overrides "
              "(source CommandLine, values = the line's) iff not that, else env set, else conditional/plain default, else no "
              "entry; CommandLine iff named (C06_cmdline_iff_named); the missing-value default is stored iff the option's item "
              "carries no value (C06_missing_value_line); two commands differing only in default values have the same "
              "pre-defaults state, the same verdict and the same explicit entries, and -- when no default_value_if reads a changed "
              "argument -- the same source and values for every unchanged argument (C06_defaults_noninterference, C06_defaults_unchanged_args, with "
              "C06_phases_ignore_defaults for ALL commands); for every valid definition without short flag subcommands and "
              "EVERY token list a CommandLine label implies that a token names the argument.  Under ignore_errors, for ALL "
              "commands and token lists (C06_ignore_errors_pending_flushed): the state handed back with an error has no pending "
              "occurrence; the dropped phases ran pending occurrence -> environment -> defaults, each from the state the previous "
              "one left; the defaults phase -- also when it stops at an error -- only appended DefaultValue entries for absent "
              "arguments and every other entry is handed back unchanged (the pre-repair behaviour, a default appended to a "
              "CommandLine entry / a command-line value lost, is kept as C06_pending_default_before_fix).  The model is tied to clap_builder "
              "by running the extracted model "
              "and the real crate (debug build) on the same generated cases on every run and comparing per level the (id, "
              "value_source, raw occurrences) lists in ids() order and args_present; a python oracle written from the "
              "property text checks the implementation's output directly.")
LEVEL_NOTE = ("Trusted: Coq kernel, extraction (ExtrOcamlBasic), OCaml driver, Rust harness, generators, python oracle. The "
              "per-argument theorems assume argument ids distinct from each other and from group ids (clap's debug assertions). "
              "'A conditional default fires' is defined as the code and documentation do: the other argument has an entry of any "
              "source, so the result depends on the definition order (theorem C06_conditional_default_order_dependent).  "
              "Whole-line iff / origin / non-interference theorems hold for C02's class wf_inv (no hyphen values, last, "
              "trailing var args, terminators, require_equals, inference, flag or external subcommands, ignore_errors); outside "
              "it only 'CommandLine => a token names it' is proved and the rest is differential (under ignore_errors additionally the "
              "phase order and the frame of what is handed back; which partial command-line entries exist at the error is differential).  'EnvVariable => not named on "
              "the line' is refuted (C06_env_named_refuted: an override chain removes the occurrence, the environment re-adds "
              "the argument; the real crate agrees).")

REL_KINDS = {"ArgumentConflict", "MissingRequiredArgument", "MissingSubcommand", "DisplayHelpOnMissingArgumentOrSubcommand"}
VALUE_KINDS = {"ValueValidation", "InvalidValue", "InvalidUtf8"}
FLAG_ACTIONS = ("settrue", "setfalse", "count")
IMPLICIT_DEFAULT = {"settrue": [b"false"], "setfalse": [b"true"], "count": [b"0"]}


# ====================================================================== generation
def takes_value(a):
    return gen_cmd.takes_value(a)


def decorate(rng, c, depth=0):
    """add the C06 features to a generated command (every level)"""
    own = c["args"]
    ids = [a["id"] for a in own]
    gids = [g["id"] for g in c["groups"]]
    for a in own:
        a["flags"].discard("hyphen"); a["flags"].discard("negnum")
        tv = takes_value(a) and a.get("action") in ("set", "append", None)
        opt = gen_cmd.is_opt(a)
        if tv:
            # plain default (one or several values; sometimes with the delimiter inside)
            r = rng.random()
            if r < 0.45:
                a["default"] = [rng.choice([b"d", b"w", b"1", b"d1,d2"])]
                if rng.random() < 0.15:
                    a["default"].append(b"d3")
            elif r < 0.55:
                a.pop("default", None)
            # conditional defaults
            others = [i for i in ids + gids if i != a["id"]]
            if others and rng.random() < 0.45:
                difs = []
                for _ in range(rng.choice([1, 1, 2, 3])):
                    tgt = rng.choice(others)
                    pred = None if rng.random() < 0.5 else rng.choice([b"v", b"w", b"1", b"v", b"w", b"d", b"e", b"true", b"false", b"0", b"cd"])
                    d = None if rng.random() < 0.25 else rng.choice([b"cd", b"c1,c2", b"7"])
                    difs.append((tgt, pred, d))
                a["difs"] = difs
            # missing-value default
            if opt and rng.random() < 0.35:
                a["num"] = (0, 1)
                a["dmissing"] = [rng.choice([b"dm", b"m1,m2", b"5"])]
                if rng.random() < 0.15:
                    a["dmissing"].append(b"dm2")
                if rng.random() < 0.4:
                    a["flags"].add("reqeq")
                else:
                    a["flags"].discard("reqeq")
                a.pop("term", None)
        # environment
        r = rng.random()
        if r < 0.55:
            name = "VP6_%d_%s_%s" % (depth, c["name"].decode(), a["id"].decode())
            if tv:
                val = rng.choice([b"e", b"w", b"1", b"e1,e2", b"v", b""])
            elif a.get("action") in ("settrue", "setfalse"):
                val = rng.choice([b"true", b"false"] * 6 + [b"yes", b""])
            else:
                val = rng.choice([b"3", b"0", b"255", b"1"] * 3 + [b"256", b"x"])
            a["env"] = (name.encode(), None if rng.random() < 0.3 else val)
        elif r < 0.7:
            a.pop("env", None)
        if "required" in a["flags"] and rng.random() < 0.7:
            a["flags"].discard("required")
    for s in c["subs"]:
        decorate(rng, s, depth + 1)
    return c


PROFILE = dict(defaults=0.7, env=0.6, hyphen=0, tva=0.03, last=0.04, terminators=0.05, invalid=0.01, infer=0.05,
               external=0.04, flag_subs=0.12, low_index=0.03, relations=0.12, groups=0.3, globals=0.3,
               ignore_errors=0.04, settings=0.1, max_opts=5, max_pos=2, typed=0.12)


def pick_value(rng, a):
    """values concentrated on the ones the `default_value_if(.., Equals(v), ..)` rules test for"""
    if (a.get("vp") and not isinstance(a["vp"], str)) or rng.random() < 0.4:
        return gen_cmd.value_for(rng, a, True)
    v = rng.choice([b"v", b"w", b"1", b"v", b"w", b"0", b"true"])
    if a.get("delim") and rng.random() < 0.35:
        v = rng.choice([b"x1", b"v", b"w"]) + b"," + v
    return v


def render_argv(rng, c, p_mutate, globals_=()):
    """argv of one invocation: every option independently present w.p. 1/2, all spellings"""
    toks = []
    opts = [a for a in c["args"] if gen_cmd.is_opt(a)] + list(globals_)
    items = []
    for a in opts:
        if rng.random() < 0.5:
            continue
        reps = 1
        if a.get("action") in ("append", "count") or "args_override_self" in c["settings"]:
            reps = rng.choice([1, 1, 2, 3])
        for _ in range(reps):
            names = []
            if a.get("long"):
                names.append(b"--" + a["long"])
            for n, _ in a.get("aliases", []):
                names.append(b"--" + n)
            if a.get("short"):
                names.append(b"-" + a["short"].encode())
            if not names:
                continue
            name = rng.choice(names)
            if not takes_value(a):
                items.append([name])
                continue
            lo, hi = a["num"] if a.get("num") is not None else (1, 1)
            v = pick_value(rng, a)
            if (lo, hi) == (0, 1):
                k = rng.randrange(5)
                if k == 0:
                    items.append([name])
                elif k == 1:
                    items.append([name + b"="])
                elif k == 2:
                    items.append([name + b"=" + v])
                elif k == 3:
                    items.append([name, v])
                else:
                    items.append([name] if "reqeq" in a["flags"] else [name + b"=" + v])
            else:
                n = rng.choice([lo, max(lo, 1), hi if hi is not None else lo + 1])
                vals = [pick_value(rng, a) for _ in range(max(n, 1 if lo > 0 else 0))]
                if len(vals) == 1 and rng.random() < 0.5:
                    items.append([name + b"=" + vals[0]])
                else:
                    items.append([name] + vals)
    rng.shuffle(items)
    pos = [a for a in c["args"] if not gen_cmd.is_opt(a)]
    pos_toks = []
    for a in pos:
        if "required" not in a["flags"] and rng.random() < 0.5:
            break
        lo, hi = a["num"] if a.get("num") is not None else (1, 1)
        k = 1 if (hi == 1 or a.get("num") is None) else rng.choice([max(lo, 1), max(lo, 1) + 1])
        pos_toks.append([pick_value(rng, a) for _ in range(k)])
    slots = [[] for _ in range(len(pos_toks) + 1)]
    for it in items:
        slots[rng.randrange(len(slots))].append(it)
    for i, pv in enumerate(pos_toks):
        for it in slots[i]:
            toks += it
        toks += pv
    for it in slots[len(pos_toks)]:
        toks += it
    if c["subs"] and rng.random() < 0.5:
        s = rng.choice(c["subs"])
        toks.append(rng.choice([s["name"]] + [n for n, _ in s.get("aliases", [])]))
        g = [a for a in c["args"] if "global" in a["flags"]] + list(globals_)
        toks += render_argv(rng, s, 0, g)
    if p_mutate and rng.random() < p_mutate:
        toks = gen_cmd.mutate(rng, toks)
    return toks


def gen_cases(rng, n, mode, p_mutate, per_cmd=4):
    prof = gen_cmd.Profile(**PROFILE)
    out = []
    while len(out) < n:
        c = decorate(rng, gen_cmd.gen_cmd(rng, prof))
        for _ in range(per_cmd):
            toks = render_argv(rng, c, p_mutate)
            argv = toks if "no_binary_name" in c["settings"] else [b"prog"] + toks
            if mode == "c06":
                out.append(gen_cmd.case_sx(c, argv, mode="c06"))
            else:
                out.append(gen_cmd.case_sx(c, argv, mode="c06pair"))
    return out[:n]


def gen_generic(rng, n):
    """the shared parser generator with every feature on (hyphen values, trailing var args, flag subcommands,
    inference, external subcommands, boundary / non-UTF-8 tokens), decorated with the C06 features"""
    prof = gen_cmd.Profile(defaults=0.6, env=0.5)
    out = []
    while len(out) < n:
        c = gen_cmd.gen_cmd(rng, prof)
        keep = {id(a): set(a["flags"]) & {"hyphen", "negnum"} for cc in all_cmds(c) for a in cc["args"]}
        decorate(rng, c)
        for cc in all_cmds(c):
            for a in cc["args"]:
                a["flags"] |= keep.get(id(a), set())
        for _ in range(4):
            out.append(gen_cmd.case_sx(c, gen_cmd.gen_argv(rng, c, p_mutate=0.4, safe_p=0.5), mode="c06"))
    return out[:n]


def pending_error_cases(rng, n):
    """`ignore_errors` + an argument with a default (sometimes also an environment variable) whose occurrence is
    still being collected when a token raises an error: a single- or multi-valued positional, or an option with
    `num_args(1..)`, followed by `help <unknown>`, a subcommand name that conflicts
    (`args_conflicts_with_subcommands`), an error inside the subcommand, an unknown flag or an invalid
    subcommand.  Defaults and environment values are distinctive (they occur in no token of the line), so
    "a value reported under CommandLine occurs in a command-line token" has teeth.  (finding repaired by
    docs/pending/pending_flush_fix.diff: the error branch of Parser::get_matches_with did not store the pending
    occurrence before the environment and the defaults were consulted.)"""
    out = []
    while len(out) < n:
        kind = rng.choice(["pos_multi", "pos_multi", "pos_single", "opt_multi"])
        a = {"id": b"p0", "flags": set(), "default": [rng.choice([b"pd9", b"dq7", b"zd9,zq9"])]}
        if rng.random() < 0.3:
            a["default"].append(b"pd8")
        if kind == "pos_multi":
            a.update(index=1, num=rng.choice([(1, None), (1, None), (1, 3), (0, None), (2, 4)]))
        elif kind == "pos_single":
            a.update(index=1)
        else:
            a.update(long=b"opt", short="o", action=rng.choice(["set", "append"]), num=rng.choice([(1, None), (1, 3), (0, None)]))
        if rng.random() < 0.3:
            a["delim"] = ","
        if rng.random() < 0.45:
            a["env"] = (b"VP6_PF_p0", rng.choice([b"ev9", b"ev9", b"e19,e29", None]))
        args = [a]
        if rng.random() < 0.5:
            args.insert(rng.randrange(2), {"id": b"z", "flags": set(), "short": "z", "action": rng.choice(["count", "settrue"])})
        if rng.random() < 0.5:
            q = {"id": b"q", "flags": set(), "long": b"qq", "action": "set", "default": [b"qd9"]}
            if rng.random() < 0.4:
                q["env"] = (b"VP6_PF_q", rng.choice([b"qe9", None]))
            args.insert(rng.randrange(len(args) + 1), q)
        settings = ["ignore_errors"]
        if rng.random() < 0.8:        # without it an open multi-valued occurrence swallows `help` / the subcommand name
            settings.append("subcommand_precedence_over_arg")
        if rng.random() < 0.3:
            settings.append("args_conflicts_with_subcommands")
        sub = {"name": b"a", "about": b"A:p/a", "args": [], "groups": [], "subs": [], "settings": [], "aliases": []}
        if rng.random() < 0.4:
            sub["args"].append({"id": b"x", "flags": set(), "long": b"xx", "action": "set", "default": [b"xd9"]})
        c = {"name": b"p", "about": b"A:p", "args": args, "groups": [], "subs": [sub], "settings": settings, "aliases": []}
        vals = [rng.choice([b"s", b"v1", b"w", b"s,t"]) for _ in range(1 if kind == "pos_single" else rng.choice([1, 1, 2, 3]))]
        tail = rng.choice([[b"help", b"E"], [b"help", b"E"], [b"help", b"E", b"x"], [b"help", b"a", b"E"],
                           [b"a"], [b"a", b"--nope"], [b"a", b"stray"], [b"-Z"], [b"--nope"], [b"bogus"], [b"--opt"], []])
        line = []
        if any(x["id"] == b"z" for x in args) and rng.random() < 0.6:
            line.append(b"-z")
        if kind == "opt_multi":
            line.append(rng.choice([b"--opt", b"-o"]))
        line += vals + tail
        out.append(gen_cmd.case_sx(c, [b"prog"] + line, mode="c06"))
    return out


def directed_cases():
    """hand-written boundary cases (the documented behaviours, one per line of the property)"""
    def arg(i, **kw):
        a = {"id": i.encode(), "flags": set(), "long": i.encode()}
        a.update(kw)
        return a

    def cmd(args, **kw):
        c = {"name": b"p", "about": b"A:p", "args": args, "groups": [], "subs": [], "settings": [], "aliases": []}
        c.update(kw)
        return c
    E = lambda v: (b"VP6_D", v)
    out = []
    base = [arg("o", action="set", default=[b"d"], env=E(b"e"))]
    for argv in ([], [b"--o", b"c"], [b"--o=c"]):
        out.append((cmd(base), argv))
    out.append((cmd([arg("o", action="set", default=[b"d"], env=E(None))]), []))
    out.append((cmd([arg("o", action="set", env=E(None))]), []))
    # default-missing
    dm = [arg("o", action="set", num=(0, 1), dmissing=[b"dm"], default=[b"d"], env=E(b"e"))]
    for argv in ([], [b"--o"], [b"--o="], [b"--o=v"], [b"--o", b"v"]):
        out.append((cmd(dm), argv))
    dmr = [arg("o", action="set", num=(0, 1), dmissing=[b"dm"], default=[b"d"], flags={"reqeq"}), arg("p", long=None, index=1)]
    for argv in ([], [b"--o"], [b"--o="], [b"--o=v"], [b"--o", b"v"]):
        out.append((cmd(dmr), argv))
    # conditional defaults: first match in declaration order decides, None stops, checked before the plain default
    cd = [arg("a", action="set"), arg("b", action="set"),
          arg("o", action="set", default=[b"d"], difs=[(b"a", None, b"c1"), (b"b", b"v", None), (b"b", None, b"c3")])]
    for argv in ([], [b"--a", b"x"], [b"--b", b"v"], [b"--b", b"w"], [b"--a", b"x", b"--b", b"v"], [b"--o", b"c", b"--a", b"x"]):
        out.append((cmd(cd), argv))
    # Equals looks at every raw value of the other argument (all occurrences, all values, after delimiting)
    eqs = [arg("a", action="append", num=(1, None), delim=","), arg("o", action="set", default=[b"d"], difs=[(b"a", b"v", b"c1")])]
    for argv in ([b"--a", b"x", b"--a", b"v"], [b"--a", b"x", b"v"], [b"--a=x,v"], [b"--a", b"x"], [b"--a", b"v", b"--a", b"x"]):
        out.append((cmd(eqs), argv))
    import itertools
    for n in (1, 2, 3):
        for vals in itertools.product([b"v", b"x"], repeat=n):
            out.append((cmd(eqs), [t for v in vals for t in (b"--a", v)]))     # separate occurrences
            out.append((cmd(eqs), [b"--a"] + list(vals)))                      # one occurrence, several values
            out.append((cmd(eqs), [b"--a=" + b",".join(vals)]))                # delimited
    # DESIGN 7-P: a default of an earlier arg triggers the conditional default of a later one, not vice versa
    out.append((cmd([arg("a", action="set", default=[b"d"]), arg("o", action="set", difs=[(b"a", None, b"c1")])]), []))
    out.append((cmd([arg("o", action="set", difs=[(b"a", None, b"c1")]), arg("a", action="set", default=[b"d"])]), []))
    # defaults never trigger conflicts / requirements / arguments-present logic
    rel = [arg("a", action="set", default=[b"d"], conflicts=[b"b"], requires=[b"c"]), arg("b", action="set"), arg("c", action="set")]
    for argv in ([], [b"--b", b"x"], [b"--a", b"x"], [b"--a", b"x", b"--c", b"y"]):
        out.append((cmd(rel), argv))
    out.append((cmd([arg("a", action="set", default=[b"d"])], settings=["arg_required_else_help"]), []))
    out.append((cmd([arg("a", action="set", env=E(b"e"))], settings=["arg_required_else_help"]), []))
    grp = cmd([arg("a", action="set", default=[b"d"]), arg("b", action="set", env=E(b"e")), arg("c", action="settrue")],
              groups=[{"id": b"g", "args": [b"a", b"b"], "requires": [b"c"], "conflicts": []}])
    for argv in ([], [b"--c"], [b"--a", b"x"]):
        out.append((grp, argv))
    # flags and counters: implicit defaults, env on flags
    fl = [arg("f", action="settrue", env=E(b"true")), arg("n", action="setfalse"), arg("k", action="count", short="k")]
    for argv in ([], [b"--f"], [b"--n"], [b"-kk"]):
        out.append((cmd(fl), argv))
    out.append((cmd([arg("k", action="count", env=E(b"3"))]), []))
    # a flag declared as a value-less option: num_args(0) without an action infers SetTrue WITH its implicit default
    # `false` (Arg::_build; seeded change seed4/C06-2 installed implicit defaults only for explicitly set actions)
    inf = [arg("q", num=(0, 0), short="q"), arg("e", action="settrue")]
    for argv in ([], [b"--q"], [b"-q"], [b"--e"], [b"--q", b"--e"]):
        out.append((cmd(inf), argv))
    # overrides: an overridden command-line argument falls back to env / default
    ov = [arg("a", action="set", default=[b"d"], env=E(b"e")), arg("b", action="set", overrides=[b"a"])]
    for argv in ([b"--a", b"x", b"--b", b"y"], [b"--b", b"y", b"--a", b"x"]):
        out.append((cmd(ov), argv))
    # delimiter applies to env / default values
    out.append((cmd([arg("o", action="append", delim=",", num=(1, None), default=[b"d1,d2"], env=E(None))]), []))
    out.append((cmd([arg("o", action="append", delim=",", num=(1, None), default=[b"d1,d2"], env=E(b"e1,e2"))]), []))
    # globals
    gl = cmd([arg("g", action="set", default=[b"d"], env=E(None), flags={"global"})],
             subs=[cmd([arg("x", action="set", difs=[(b"g", None, b"c")])], name=b"sub", about=b"A:p/sub")])
    for argv in ([], [b"sub"], [b"--g", b"v", b"sub"], [b"sub", b"--g", b"v"]):
        out.append((gl, argv))
    return [gen_cmd.case_sx(c, [b"prog"] + a, mode="c06") for c, a in out]


# ====================================================================== decoding
def infer_actions(c):
    """Arg::_build: an argument without an explicit action that takes no value (num_args(0)) is a SetTrue flag -- with
    SetTrue's implicit default -- (everything else without an action is read as Set/Append by the code below)"""
    for a in c["args"]:
        if a.get("action") is None and a.get("num") == (0, 0):
            a["action"] = "settrue"
    for s_ in c["subs"]:
        infer_actions(s_)
    return c


def decode(case):
    sx = sx_parse(case)
    return infer_actions(cmd_of_sx(sx[1][1:])), None, [unhex(t) for t in sx[2][1:]]


def split_impl(impl):
    """-> (parse result text, list of args_present booleans or None)"""
    if impl and impl.startswith("ok ") and " (present" in impl:
        i = impl.rindex(" (present")
        pres = impl[i + 1:].strip("()").split()[1:]
        return impl[:i], [p == "true" for p in pres]
    return impl, None


def chain_levels(cmd, lv):
    """[(cmd of the level, effective args in build order, entries)] along the reported subcommand chain"""
    out = []
    cur = cmd
    inherited = []
    for ents, subname in lv:
        if any(e["id"] == b"" for e in ents):
            break           # the matches of an external subcommand (Id::EXTERNAL = ""), not a level of the tree
        own_ids = {a["id"] for a in cur["args"]}
        eff = list(cur["args"]) + [a for a in inherited if a["id"] not in own_ids]
        out.append((cur, eff, ents))
        if subname is None:
            break
        nxt = [s for s in cur["subs"] if s["name"] == subname]
        if not nxt:
            break
        inherited = [a for a in eff if "global" in a["flags"]]
        cur = nxt[0]
    return out


def split_vals(a, vals):
    d = a.get("delim")
    if not d:
        return list(vals)
    out = []
    for v in vals:
        out += v.split(d.encode()) if d.encode() in v else [v]
    return out


def all_cmds(c):
    yield c
    for s in c["subs"]:
        yield from all_cmds(s)


def scan_friendly(cmd, argv_toks):
    """argv can be read token by token without knowing the parser: no hyphen values, no escape, no
    inference, no external subcommands, no error swallowing, no flag subcommands"""
    if b"--" in argv_toks:
        return False
    for c in all_cmds(cmd):
        S = set(c["settings"])
        if S & {"ignore_errors", "infer_long_args", "infer_subcommands", "allow_external_subcommands",
                "subcommand_precedence_over_arg", "no_binary_name", "args_conflicts_with_subcommands"}:
            return False
        if c.get("ext") or c.get("short_flag") or c.get("long_flag") or c.get("short_flag_aliases") or c.get("long_flag_aliases"):
            return False
        for a in c["args"]:
            if a["flags"] & {"hyphen", "negnum", "tva", "last"}:
                return False
    return True


def spellings(a):
    longs = ([a["long"]] if a.get("long") else []) + [n for n, _ in a.get("aliases", [])]
    shorts = ([a["short"]] if a.get("short") else []) + [n for n, _ in a.get("saliases", [])]
    return longs, [s.encode() for s in shorts]


def override_involved(level_args, a):
    if a.get("overrides"):
        return True
    return any(a["id"] in (b.get("overrides") or []) for b in level_args)


def mentions(a, toks):
    """(certainly mentioned, possibly mentioned) as an option somewhere in argv"""
    longs, shorts = spellings(a)
    sure = maybe = False
    for t in toks:
        if t.startswith(b"--") and len(t) > 2:
            name = t[2:].split(b"=", 1)[0]
            if name in longs:
                sure = True
        elif t.startswith(b"-") and len(t) > 1 and not t.startswith(b"--"):
            if t[1:2] in shorts:
                sure = True
            elif any(s in t[2:] for s in shorts):
                maybe = True
    return sure, maybe or sure


# ====================================================================== oracle
def expected_default(a, eff, ents_by_id, order, global_ids=()):
    mode, exp, _ = expected_default3(a, eff, ents_by_id, order, global_ids)
    return mode, exp


def expected_default3(a, eff, ents_by_id, order, global_ids=()):
    """what the defaults phase gives an argument that is absent after command line and environment,
    read from the documentation: the first `default_value_if` whose condition holds decides (None = no
    default at all), otherwise the plain default.  Returns ('exact', values|None) or ('any', candidates)."""
    plain = a.get("default") or IMPLICIT_DEFAULT.get(a.get("action"))
    globals_here = {b["id"] for b in eff if "global" in b["flags"]} | set(global_ids)
    exact = True
    for tgt, pred, d in a.get("difs", []):
        e = ents_by_id.get(tgt)
        if tgt in globals_here:
            exact = False       # the entry seen here may have been copied from another level afterwards
            break
        if e is None:
            continue
        if e["src"] == "?":
            exact = False
            break
        if e["src"] == "default" and not (tgt in order and a["id"] in order and order.index(tgt) < order.index(a["id"])):
            continue            # that default did not exist yet when this argument's defaults were resolved
        vals = [v for g in e["occ"] for v in g]
        if pred is None or pred in vals:
            return "exact", (None if d is None else split_vals(a, [d])), True
    if exact:
        return "exact", (split_vals(a, plain) if plain else None), False
    cands = [split_vals(a, [d]) for _, _, d in a.get("difs", []) if d is not None]
    cands.append(split_vals(a, plain) if plain else None)
    if any(d is None for _, _, d in a.get("difs", [])):
        cands.append(None)
    return "any", cands, False


def _expected_occurrences(a, toks, sub_names):
    """wrapper keeping the reading simple: see expected_occurrences; a following bare token is the value
    unless it could be a subcommand name (then: unknown)"""
    longs, shorts = spellings(a)
    reqeq = "reqeq" in a["flags"]
    occ = []
    for i, t in enumerate(toks):
        val = None
        bare = False
        if t.startswith(b"--") and len(t) > 2:
            name, eq, v = t[2:].partition(b"=")
            if name not in longs:
                continue
            if eq:
                val = v
            else:
                bare = True
        elif t.startswith(b"-") and len(t) > 1:
            if t[1:2] in shorts:
                if len(t) == 2:
                    bare = True
                elif t[2:3] == b"=":
                    val = t[3:]
                else:
                    return None
            elif any(s in t[2:] for s in shorts):
                return None
            else:
                continue
        else:
            continue
        if not bare:
            occ.append(split_vals(a, [val]))
        elif reqeq:
            occ.append(split_vals(a, a["dmissing"]))
        else:
            nxt = toks[i + 1] if i + 1 < len(toks) else None
            if nxt is None or (nxt.startswith(b"-") and len(nxt) > 1):
                occ.append(split_vals(a, a["dmissing"]))
            elif nxt in sub_names:
                return None
            else:
                occ.append(split_vals(a, [nxt]))
    return occ


def check_levels(cmd, argv, m, present):
    toks = argv[1:] if "no_binary_name" not in cmd["settings"] else argv
    lv = levels(m)
    chain = chain_levels(cmd, lv)
    friendly = scan_friendly(cmd, toks)
    chain_cmds = [c for c, _, _ in chain]
    # how many arguments of the reached levels answer to each spelling
    long_owner = collections.Counter()
    short_owner = collections.Counter()
    seen = set()
    for c, eff, _ in chain:
        for a in eff:
            if (id(a)) in seen:
                continue
            seen.add(id(a))
            ls, ss = spellings(a)
            for l in ls:
                long_owner[l] += 1
            for s in ss:
                short_owner[s] += 1
    sub_names = set()
    for c in all_cmds(cmd):
        for s in c["subs"]:
            sub_names.add(s["name"])
            sub_names.update(n for n, _ in s.get("aliases", []))
    sub_names.add(b"help")
    full_chain = len(chain) == len(lv)
    all_eff = [b for _, eff2, _ in chain for b in eff2]     # an override at any reached level can remove a global argument
    global_ids = {b["id"] for _, eff2, _ in chain for b in eff2 if "global" in b["flags"]}
    for k, (c, eff, ents) in enumerate(chain):
        by_id = {e["id"]: e for e in ents}
        order = [a["id"] for a in eff]
        where = "level %d (%s)" % (k, c["name"].decode())
        any_explicit = False
        for e in ents:
            if e["src"] in ("cmdline", "env"):
                any_explicit = True
        if present is not None and k < len(present):
            unknown = any(e["src"] == "?" for e in ents)
            if not unknown and present[k] != any_explicit:
                return "%s: args_present() is %s but the explicit (command-line/environment) entries are %s" % (
                    where, present[k], [e["id"] for e in ents if e["src"] in ("cmdline", "env")])
        # the same id defined differently at another reached level with one of the two definitions global:
        # clap copies global values between the levels by id, so what this level reports for that id
        # may be about the other definition
        def collides(a):
            for j, (_, eff2, _) in enumerate(chain):
                if j == k:
                    continue
                for b in eff2:
                    if b["id"] == a["id"] and b is not a and ("global" in b["flags"] or "global" in a["flags"]):
                        return True
            return False
        # a group is present through its explicitly given members: its source is never DefaultValue and never
        # weaker than the source of a member that is reported from the command line / environment
        rank = {"default": 0, "env": 1, "cmdline": 2}
        for g in c["groups"]:
            ge = by_id.get(g["id"])
            if ge is None or ge["src"] not in rank or any(a["id"] == g["id"] for a in eff):
                continue
            if ge["src"] == "default":
                return "%s: group %s reports value source DefaultValue" % (where, g["id"].decode())
            for a in eff:
                if a["id"] in g["args"] and "global" not in a["flags"] and not collides(a):
                    e = by_id.get(a["id"])
                    if e is not None and e["src"] in ("env", "cmdline") and rank[ge["src"]] < rank[e["src"]]:
                        return "%s: group %s reports %s although its member %s reports %s" % (
                            where, g["id"].decode(), ge["src"], a["id"].decode(), e["src"])
        for a in eff:
            e = by_id.get(a["id"])
            if e is not None and e["src"] == "?":
                continue
            if collides(a):
                continue
            is_global = "global" in a["flags"]
            env_val = a["env"][1] if a.get("env") else None
            name = a["id"].decode()
            if e is not None and e["src"] not in ("cmdline", "env", "default"):
                return "%s: argument %s has values but reports value source %s" % (where, name, e["src"])
            sure, maybe = mentions(a, toks) if gen_cmd.is_opt(a) else (False, True)
            unique = all(long_owner[l] == 1 for l in spellings(a)[0]) and all(short_owner[s] == 1 for s in spellings(a)[1])
            # ---- values come from exactly one origin, named by the source
            if e is not None and e["src"] == "env":
                if env_val is None:
                    return "%s: %s reports EnvVariable but its variable is not set" % (where, name)
                if e["occ"] != [split_vals(a, [env_val])]:
                    return "%s: %s reports EnvVariable with values %r, the variable holds %r" % (where, name, e["occ"], env_val)
            if e is not None and e["src"] == "default":
                if env_val is not None:
                    return "%s: %s reports DefaultValue although its environment variable is set (%r)" % (where, name, env_val)
                mode, exp = expected_default(a, eff, by_id, order, global_ids)
                if is_global and mode == "exact":
                    mode, exp = "any", [exp] + [split_vals(a, [d]) for _, _, d in a.get("difs", []) if d is not None] + \
                        ([split_vals(a, a.get("default") or IMPLICIT_DEFAULT.get(a.get("action")))] if (a.get("default") or IMPLICIT_DEFAULT.get(a.get("action"))) else [])
                got = e["occ"]
                if mode == "exact":
                    if exp is None or got != [exp]:
                        return "%s: %s reports DefaultValue with %r, the declared defaults give %r" % (where, name, got, exp)
                else:
                    if not any(x is not None and got == [x] for x in exp):
                        return "%s: %s reports DefaultValue with %r, not among its declared defaults %r" % (where, name, got, exp)
            if e is None:
                if env_val is not None:
                    return "%s: %s is absent although its environment variable is set (%r)" % (where, name, env_val)
                mode, exp = expected_default(a, eff, by_id, order, global_ids)
                if not is_global and mode == "exact" and exp is not None:
                    return "%s: %s is absent although its defaults give %r" % (where, name, exp)
                if mode == "any" and None not in exp and not is_global:
                    return "%s: %s is absent although every declared default applies a value %r" % (where, name, exp)
            # ---- the command line wins when (and only when) it supplied the argument
            if friendly and gen_cmd.is_opt(a):
                if e is not None and e["src"] == "cmdline" and not maybe:
                    return "%s: %s reports CommandLine but no token of argv names it" % (where, name)
                if sure and unique and full_chain and not override_involved(all_eff, a) and "exclusive" not in a["flags"]:
                    if e is None or e["src"] != "cmdline":
                        return "%s: %s was given on the command line but reports %s" % (
                            where, name, "no value" if e is None else e["src"])
            # ---- the missing-value default applies exactly to the occurrences without a value
            if friendly and gen_cmd.is_opt(a) and a.get("dmissing") and a.get("num") == (0, 1) and unique and not is_global \
                    and full_chain and not override_involved(all_eff, a) and a.get("action") in ("set", "append", None) \
                    and e is not None and e["src"] == "cmdline":
                exp = _expected_occurrences(a, toks, sub_names)
                if exp:
                    want = exp if a.get("action") == "append" else [exp[-1]]
                    if e["occ"] != want:
                        return "%s: %s occurrences %r, expected %r (missing-value default %r only for occurrences without a value)" % (
                            where, name, e["occ"], want, a["dmissing"])
    return None


def oracle(case, impl):
    res, present = split_impl(impl)
    p = parse_result(res)
    if p["kind"] != "ok":
        return None
    cmd, _, argv = decode(case)
    if any("ignore_errors" in c["settings"] for c in all_cmds(cmd)):
        # an Ok under ignore_errors may be a swallowed error (partial command-line entries), but at every level that
        # was reached the occurrence still being collected is stored first, then the environment phase and the
        # defaults phase run, in that order (Parser::get_matches_with, error branch; C06_ignore_errors_pending_flushed)
        return check_levels_ignore_errors(cmd, argv, p["m"])
    return check_levels(cmd, argv, p["m"], present)


def _env_surely_valid(a):
    """the environment value of `a` is certainly accepted by its value parser (so the environment phase of
    the level cannot stop early at this argument)"""
    val = a["env"][1]
    act = a.get("action")
    if act in ("settrue", "setfalse"):
        return val in (b"true", b"false")
    if act == "count":
        return val.isdigit() and int(val) <= 255
    vp = a.get("vp")
    try:
        val.decode("utf-8")
    except UnicodeDecodeError:
        return vp == "os"
    if vp in (None, "string", "os"):
        return True
    if isinstance(vp, tuple) and vp[0] == "i64":
        d = a.get("delim")
        pieces = val.split(d.encode()) if d else [val]
        try:
            return all(vp[1] <= int(x) <= vp[2] and x.strip() == x for x in pieces)
        except ValueError:
            return False
    return False


def declared_default_values(a):
    """every value a DefaultValue entry of `a` may hold: the plain default, the values of its conditional
    defaults, the implicit default of a flag action -- split at the declared delimiter"""
    vals = list(a.get("default") or []) + [d for _, _, d in a.get("difs", []) if d is not None]
    vals += IMPLICIT_DEFAULT.get(a.get("action"), [])
    return set(split_vals(a, vals))


def check_origin_ignore_errors(cmd, argv, m):
    """`ignore_errors`: an Ok may be a swallowed error, so the line cannot be re-read token by token; what the
    property says about ORIGINS still holds of every entry that is reported: the values of an entry labelled
    CommandLine occur in command-line tokens (or are the argument's missing-value default), the values of an entry
    labelled DefaultValue are declared defaults of that argument.  (The pending occurrence is stored first, then
    the environment is consulted, then the defaults: Parser::get_matches_with, error branch.)"""
    chain = chain_levels(cmd, levels(m))
    ids = collections.Counter(b["id"] for _, eff2, _ in chain for b in eff2)
    toks = argv[1:] if "no_binary_name" not in cmd["settings"] else argv
    for k, (c, eff, ents) in enumerate(chain):
        by_arg = {a["id"]: a for a in eff}
        for e in ents:
            a = by_arg.get(e["id"])
            if a is None or ids[a["id"]] > 1 or "global" in a["flags"]:
                continue          # a group, an external subcommand, or an id that also exists at another reached level
                                  # (the entries of global arguments are copied between levels after parsing)
            vals = [v for g in e["occ"] for v in g]
            if e["src"] == "cmdline" and takes_value(a) and a.get("action") in ("set", "append", None):
                dm = set(split_vals(a, a.get("dmissing") or []))
                for v in vals:
                    if v not in dm and not any(v in t for t in toks):
                        return ("level %d (%s): %s reports CommandLine but its value %r occurs in no command-line token "
                                "[ignore_errors; declared defaults %r]"
                                % (k, c["name"].decode(), a["id"].decode(), v, sorted(declared_default_values(a))))
            if e["src"] == "default":
                decl = declared_default_values(a)
                for v in vals:
                    if v not in decl:
                        return ("level %d (%s): %s reports DefaultValue but its value %r is no declared default %r [ignore_errors]"
                                % (k, c["name"].decode(), a["id"].decode(), v, sorted(decl)))
    return None


def check_levels_ignore_errors(cmd, argv, m):
    lv = levels(m)
    chain = chain_levels(cmd, lv)
    bad = check_origin_ignore_errors(cmd, argv, m)
    if bad:
        return bad
    for k, (c, eff, ents) in enumerate(chain):
        with_env = [a for a in eff if a.get("env") and a["env"][1] is not None]
        if not with_env or not all(_env_surely_valid(a) for a in with_env):
            continue
        ids = collections.Counter(b["id"] for _, eff2, _ in chain for b in eff2)
        by_id = {e["id"]: e for e in ents}
        for a in with_env:
            if ids[a["id"]] > 1 or "global" in a["flags"]:
                continue      # the id also exists at another reached level: values are copied between levels
            e = by_id.get(a["id"])
            if e is not None and e["src"] == "default":
                return ("level %d (%s): %s reports DefaultValue although its environment variable is set (%r) "
                        "[ignore_errors: the occurrence still being collected is stored first, then the environment phase runs, then the defaults]"
                        % (k, c["name"].decode(), a["id"].decode(), a["env"][1]))
    return None


def pair_oracle(case, impl):
    if not impl or not impl.startswith("pair "):
        return None
    a, _, b = impl[5:].partition(" ;; ")
    pa, pb = parse_result(a), parse_result(b)
    if pa["kind"] not in ("ok", "err") or pb["kind"] not in ("ok", "err"):
        return None
    cmd, _, argv = decode(case)
    if any("ignore_errors" in c["settings"] for c in all_cmds(cmd)):
        return None
    ka = pa.get("ekind") if pa["kind"] == "err" else None
    kb = pb.get("ekind") if pb["kind"] == "err" else None
    # The only thing default declarations may add is a rejection of a *default value* by the value parser
    # while the defaults phase of some level runs (a deeper level's defaults phase runs before the
    # environment phase and the validation of its parents).
    if kb is not None and kb not in REL_KINDS:
        # rejected while reading the command line / environment: defaults cannot repair that
        if ka is None or (ka != kb and ka not in VALUE_KINDS):
            return "without defaults the line is rejected with %s (command line / environment); with defaults: %s" % (kb, ka or "Ok")
        return None
    if kb in REL_KINDS:
        if ka is None:
            return "declaring defaults turned a %s rejection into Ok: a default satisfied or suppressed a relation" % kb
        if ka != kb and ka not in VALUE_KINDS:
            return "declaring defaults changed the relation error from %s to %s" % (kb, ka)
        return None
    # kb is None: accepted without defaults
    if ka is not None and ka not in VALUE_KINDS:
        return "declaring defaults turned Ok into %s: a value that came from a default triggered a relation" % ka
    if ka is None:
        # explicit entries (ids, sources, values) are the same with and without defaults
        ea = [sorted((e["id"], e["src"], e["occ"]) for e in ents if e["src"] in ("cmdline", "env")) for ents, _ in levels(pa["m"])]
        eb = [sorted((e["id"], e["src"], e["occ"]) for e in ents if e["src"] in ("cmdline", "env")) for ents, _ in levels(pb["m"])]
        if ea != eb:
            return "declaring defaults changed the explicit entries: %r vs %r" % (ea, eb)
    return None


# ====================================================================== projection, statistics
def project(r):
    res, present = split_impl(r or "")
    if res.startswith("pair "):
        a, _, b = res[5:].partition(" ;; ")
        return "pair " + project(a) + " ;; " + project(b)
    p = parse_result(res)
    if p["kind"] == "ok":
        out = []
        for ents, sub in levels(p["m"]):
            out.append("[" + " ".join("%s:%s:%s" % (e["id"].hex(), e["src"],
                                                   "|".join(",".join(v.hex() for v in g) for g in e["occ"])) for e in ents)
                       + "]" + ("" if sub is None else ">" + sub.hex()))
        return "ok " + " ".join(out) + " present=" + str(present)
    if p["kind"] == "err":
        k = p["ekind"]
        return "err " + ("unknown-token" if ("|" in k or k in ("UnknownArgument", "InvalidSubcommand")) else k)
    if p["kind"] == "panic":
        return "PANIC"
    return res


def make_nontrivial(stats_out):
    combos = collections.Counter()
    sources = collections.Counter()
    outcomes = collections.Counter()
    cond = collections.Counter()
    dmc = [0]

    def flush():
        stats_out["combos (cmdline?, env set?, default declared?, default_if fired?) per argument of a reached level"] = \
            {"".join("CEDF"[i] if b else "-" for i, b in enumerate(k)): v for k, v in sorted(combos.items())}
        stats_out["reported sources"] = dict(sources)
        stats_out["outcomes"] = dict(outcomes)
        stats_out["conditional defaults"] = dict(cond)
        stats_out["occurrences filled by a missing-value default"] = dmc[0]

    def nontrivial(case, impl):
        res, present = split_impl(impl or "")
        if res.startswith("pair "):
            res = res[5:].partition(" ;; ")[0]
        p = parse_result(res)
        outcomes[p["kind"] if p["kind"] != "err" else "err " + p["ekind"]] += 1
        if p["kind"] != "ok":
            flush()
            return False
        cmd, _, argv = decode(case)
        nt = False
        for c, eff, ents in chain_levels(cmd, levels(p["m"])):
            by_id = {e["id"]: e for e in ents}
            order = [a["id"] for a in eff]
            for a in eff:
                e = by_id.get(a["id"])
                src = e["src"] if e else "absent"
                sources[src] += 1
                has_env = bool(a.get("env") and a["env"][1] is not None)
                has_def = bool(a.get("default") or a.get("difs") or a.get("action") in FLAG_ACTIONS)
                fired = False
                if a.get("difs"):
                    mode, exp, fired = expected_default3(a, eff, by_id, order)
                    if mode == "exact" and src in ("default", "absent"):
                        cond["fired->value" if (fired and exp is not None) else "fired->None" if fired else "none fired"] += 1
                combos[(src == "cmdline", has_env, has_def, fired)] += 1
                if (src == "cmdline") + has_env + has_def >= 2:
                    nt = True
                if a.get("dmissing") and e and src == "cmdline" and [split_vals(a, a["dmissing"])] == e["occ"][-1:]:
                    dmc[0] += 1
                    nt = True
        flush()
        return nt
    return nontrivial


# ====================================================================== streams
def streams(tier, rng):
    quick = tier == "quick"
    n_main, n_mut, n_pair = (8000, 4000, 4000) if quick else (160000, 60000, 60000)
    n_gen = 3000 if quick else 50000
    n_pend = 600 if quick else 12000
    d4 = {"measured": "on the implementation's results of this run (filled in while the stream is evaluated)"}
    d1, d2, d3 = ({"measured": "on the implementation's results of this run (filled in while the stream is evaluated)"} for _ in range(3))
    return [
        Stream("sources", directed_cases() + pending_error_cases(rng, n_pend) + gen_cases(rng, n_main, "c06", 0.0), oracle=oracle, area="sources",
               project=project, nontrivial=make_nontrivial(d1), describe=d1),
        Stream("sources_mutated", gen_cases(rng, n_mut, "c06", 0.6), oracle=oracle, area="sources",
               project=project, nontrivial=make_nontrivial(d2), describe=d2),
        Stream("with_without_defaults", gen_cases(rng, n_pair, "c06pair", 0.15), oracle=pair_oracle, area="sources",
               project=project, nontrivial=make_nontrivial(d3), describe=d3),
        Stream("sources_all_features", gen_generic(rng, n_gen), oracle=oracle, area="sources",
               project=project, nontrivial=make_nontrivial(d4), describe=d4),
    ]


def classify_known(stream, case, impl, failure):
    return None
