"""C01: parsing is total — any argv against any valid command returns, never panics."""
import collections
import os
import re

from .. import core, gen_cmd
from ..core import hexs
from ..parse_streams import gen_cases, decode_case, parse_result, outcome_class, GLOBAL_SETTINGS
from ..runner import Stream

ID = "C01"
AREAS = ["parse", "errctx"]
RULE = ("random command trees (vp/gen_cmd.py: depth <= 2(3), every setting toggled independently, groups, relations, "
        "flag subcommands, external subcommands, hyphen values, terminators, low-index multiples, deliberately "
        "questionable configurations) x argv rendered from invocations with 0-2 mutations (delete/duplicate/garble/"
        "swap/insert a boundary token) plus a malformed stream of pure boundary tokens (--, -, '', -x, --l=, =, "
        "prefixes, subcommand names, -1e, non-UTF-8 bytes) plus an ignore_errors stream.  A case is non-trivial when "
        "the configuration is accepted by the library's own checks (not INVALID) and argv has at least one token "
        "after the program name; distinct = distinct case text.  Stream errctx: the same generators, mutation-heavy "
        "(p_mutate 0.8) so that most lines end in an error; non-trivial = the outcome is an error.  Stream "
        "parse-flagsub-class (round 4): definitions of the class of C01_no_panic_flag_subs that have short flag-subcommands "
        "(python mirror of the class, a subset) x lines aimed at the resume logic: names down to a level with a short "
        "flag-subcommand, a cluster -<flags>*S<letters incl. the child's shorts, S again, =, digits, unknown letters, non-UTF-8 "
        "bytes>, then further clusters / names / boundary tokens; non-trivial = a cluster carries a flag-subcommand letter "
        "that is not its last byte (keep_state); a panic on this stream is a violation even with the message of the recorded finding.  "
        "Stream parse-single-clusters (round 5): definitions with short flag-subcommands, mostly OUTSIDE flag_sub_class (nested, hyphen "
        "positionals), x lines of the class of C01_no_panic_single_clusters (no token is a short cluster of more than one character): "
        "a walk that selects every level by its own token, single-letter flags, values, boundary tokens, and generic lines with every "
        "multi-character cluster split; non-trivial = definition outside the class mirror and a level selected by `-S`; a panic is a "
        "violation as on parse-flagsub-class.  Stream parse-no-resume (round 5): the same definitions x lines of the class of "
        "C01_no_panic_no_resume: clusters of several flags, attached values, `=` forms are kept, a cluster is cut only behind a short "
        "flag-subcommand letter of the tree, so such a letter always ends its cluster; non-trivial = outside the class mirror, a level "
        "selected by a cluster ending in such a letter, and a multi-character cluster on the line.  Pseudo-stream panic-site-classes: no cases; carries the coverage class of every source "
        "panic site into the evidence.")
TRUSTED = [
    "Coq 8.16.1 kernel (coqc); no native_compute; theorems C01_* are 'Closed under the global context'",
    "extraction: ExtrOcamlBasic only, no Extract Constant; OCaml driver ocaml/parse_driver.ml + common_parse/{spec,show}.ml",
    "correspondence: vp/gen_cmd.py generators, harness/src/modes/parse.rs (builds clap::Command from the spec, "
    "catch_unwind around build/parse/render), comparison of the outcome class (ok / err / help-or-version / panic / invalid)",
    "modelled not verified: Rust core (Vec, String, str::from_utf8, integer ops), strsim::jaro (the choice between "
    "InvalidSubcommand and UnknownArgument is outside this property's projection); <str as Debug>::fmt (used by the "
    "error formatter's Escape) is a parameter of the rendering model",
    "translators/parse_sites.py (regex extraction of panic-shaped sites per function, of ErrorKind::as_str, of the "
    "ContextKind enum and of what each error constructor attaches); 10 rows of the site table are justified by "
    "reasoning local to the Rust function (pinned lists: C01_sites_reasoned_rows, C01_sites_classified)",
    "stream errctx: harness/src/modes/c01.rs reads the private message form off the derived Debug of the error; "
    "ocaml/errctx_driver.ml; the suggestion context kinds, PriorArg's variant and InvalidArg-vs-InvalidSubcommand for "
    "ArgumentConflict / unknown-token errors are outside the comparison",
]
ASSUMPTIONS = [
    "the model's `valid` (Valid.v: assert_app/assert_arg/_verify_positionals) is the library's configuration gate; its "
    "agreement with a debug build's Command::build() is part of the correspondence (INVALID must coincide)",
    "no multicall, no Command::defer, built-in value parsers only",
    "stack/heap exhaustion and wall-clock are outside the theorem; the harness run has a per-shard timeout",
    "round 5: for EVERY definition the gate accepts (class unbuilt: the internal Built flag is unset on every node, a "
    "syntactic check; users cannot set it) the only reachable panic site is debug_assert_eq!(advance_by(skip)) of "
    "Parser::parse_short_arg (C01_only_site_920); it is unreachable for the boolean class flag_sub_class "
    "(C01_no_panic_flag_subs: short flag-subcommands allowed; every level a cluster can re-enter has no short "
    "flag-subcommands of its own and a first positional without negative-number / non-last hyphen values) and reachable "
    "outside it: the recorded finding C01-flag-subcmd-skip",
]
TECHNIQUE = ("Coq proof (state invariant of the parse loop: every unwrap/expect/unreachable!/debug_assert site of "
             "parser.rs/arg_matcher.rs on the path is dead for commands accepted by the validity gate; fuel = tree depth "
             "suffices -- for definitions without short flag-subcommands and, with the invariant generalised over "
             "flag_subcmd_at/flag_subcmd_skip, for the boolean class flag_sub_class with them, and for EVERY valid definition up to the one "
             "debug assertion of the recorded finding (invariant: flag_subcmd_at is constant inside a level and <= cur_idx); "
             "ignore_errors at the entry point: matches or help/version, nothing else; panic-site table regenerated from the Rust source "
             "and proved equal to the model's, in both directions, every site with a pinned coverage class; model of the error value, its constructors and "
             "RichFormatter with 'rendering never panics and gets its context') + extracted-model/implementation "
             "correspondence (outcome class; for errors also context kinds, value variants, message form)")
LEVEL_TEXT = ("Machine-checked theorems (Coq 8.16, closed under the global context) about the executable model of "
              "Parser::{parse, parse_long_arg, parse_short_arg, parse_opt_value, react, resolve_pending, push_arg_values, "
              "verify_num_args, start_custom_arg, add_env, add_defaults, get_matches_with} and Command::_do_parse in which "
              "every Rust panic site is an explicit result: see evidence/C01.json for the theorem list discharged on this "
              "run.  The model is tied to clap_builder by running the extracted model and the real crate (debug build, "
              "catch_unwind, Error::render on every error) on the same generated command trees and argument vectors on "
              "every check; the direct oracle (no panic, no abort/timeout, ignore_errors => Ok unless help/version) runs "
              "on the implementation's output alone.  Round 2: (a) the panic sites of parser.rs, arg_matcher.rs, "
              "matched_arg.rs, validator.rs and the parse-reachable functions of command.rs are extracted from the source on "
              "every run as (file, fn, kind, ordinal) and proved to be exactly the keys of a model-side table whose rows are "
              "model panic numbers (dead by the main theorem), proved statements, or pinned prose justifications; conversely "
              "every panic outcome of the model, for any definition, carries a number of that table; (b) the error value, the 19 "
              "constructors of error/mod.rs the parser uses, Error::render and RichFormatter::format_error/write_dynamic_context "
              "are modelled with their unwraps visible: rendering never panics for any error value, every error the parser model "
              "returns (any definition, any input) is built by a modelled constructor and carries the context its message needs; "
              "the constructor/context tables are regenerated from error/*.rs and the context of every error is compared with the "
              "implementation (stream errctx); (c) two further refutation witnesses for classes with short flag-subcommands.  "
              "Round 4: no panic for the boolean class flag_sub_class (flat short flag-subcommands).  Round 5: (A) gate and class do "
              "not read the program name, so the entry-point theorems speak about the definition as written (C01_no_panic_argv); the "
              "error-ignoring contract at try_get_matches_from for the user-level setting: matches or DisplayHelp/DisplayVersion, "
              "nothing else (C01_ignore_errors_top); (B) for EVERY definition the gate accepts and every argv the only reachable "
              "panic site is the debug assertion on advance_by(skip) -- 30 of the 31 modelled source sites, incl. the unsigned "
              "subtraction cur_idx - flag_subcmd_at, are dead without any class restriction (C01_only_site_920, "
              "C01_sites_dead_any_valid); (C) every one of the 48 source sites has a coverage class pinned by name "
              "(C01_sites_classified: 7 proved for every definition, 30 dead for every valid definition, 1 dead in the class only, "
              "10 reasoned), printed into the evidence; three formerly prose rows are theorems (external-subcommand guard, ids of "
              "missing_required_error); (D) the line side: for every valid definition a line without multi-character short clusters "
              "never panics (C01_no_panic_single_clusters) -- a panic needs a definition outside flag_sub_class AND such a cluster, and "
              "is then that one assertion; (F) sharpened: no panic on any line in which no short flag-subcommand letter of the definition is "
              "followed by further characters of its cluster (C01_no_panic_no_resume: the resume logic is never engaged); the whole "
              "property statement at the entry point in one theorem (C01_entry_point_summary).")
LEVEL_NOTE = ("Trusted: Coq kernel, extraction, OCaml driver, Rust harness, generators. Recorded finding: nested short "
              "flag-subcommands whose intermediate flag consumes a number of indices other than one make the "
              "flag_subcmd_skip debug assertion fail (debug builds panic, release builds reject the line); round 2 found two "
              "more mechanisms reaching the same assertion with one-index flags only (stale flag_subcmd_at across clusters; "
              "skip left unconsumed when the re-read cluster is taken as a hyphen value): C01_no_panic_*_refuted. Round 4 "
              "proves the no-panic theorem for the class in which neither mechanism can occur (flag_sub_class: short "
              "flag-subcommands one level deep below any chain of ordinary subcommands, re-entered level without a "
              "negative-number / non-last hyphen-value first positional); definitions with short flag-subcommands outside that "
              "class are covered, for that ONE assertion, by the correspondence run and the direct oracle only (round 5: every other "
              "site is proved dead there too). Differential only: that assertion outside flag_sub_class; 10 source sites justified by "
              "type-level / std-library / TypeId arguments (listed by name in the evidence). Not compared: error text, suggestion "
              "context kinds.")

KNOWN_SKIP_MSG = "tracking of `flag_subcmd_skip` is off"


def root_ignore_errors(cmd):
    return "ignore_errors" in cmd["settings"]


def oracle(case, impl):
    p = parse_result(impl)
    k = p["kind"]
    if k == "panic":
        return "panic while building/parsing/rendering: %s" % p["msg"][:300]
    if k == "abort":
        return "process aborted or timed out (parse did not return): %s" % p.get("msg", "")
    if k == "other" and (impl or "").split(" ")[0] in ("badcase", "harness-error", "unknown-mode"):
        return None       # a malformed case (only the shrinker produces these), not a statement about clap
    if k in ("other", "outoffuel"):
        return "unexpected harness result: %s" % (impl or "")[:200]
    if k == "invalid":
        return None
    cmd, argv = decode_case(case)
    if root_ignore_errors(cmd) and k == "err" and p["ekind"] not in ("DisplayHelp", "DisplayVersion"):
        return "ignore_errors is set but parsing returned the error %s" % p["ekind"]
    return None


def nontrivial(case, impl):
    if impl is None or impl.startswith("INVALID"):
        return False
    _, argv = decode_case(case)
    return len(argv) >= 2


def project(r):
    return outcome_class(r)


# ---------------------------------------------------------------- stream errctx: the error value behind "can be rendered"
SUGGESTION_KINDS = {"SuggestedValue", "SuggestedArg", "SuggestedSubcommand", "SuggestedCommand", "Suggested"}
UNKNOWN_TOKEN = {"UnknownArgument", "InvalidSubcommand", "UnknownArgument|InvalidSubcommand"}


def split_errctx(r):
    base, _, extra = (r or "").partition(" ;; ")
    return base, extra


def canon_alt(kindclass, alt):
    """one `msg=.. ctx=.. rich=..` group -> canonical text.  Outside the comparison: the suggestion kinds (they depend on
    strsim::jaro, which the parser model does not compute); the variant of PriorArg's value (None / String / Strings by
    the number of conflicting arguments, which the model's error does not carry); and, for the two kind classes in which
    one kind is built by several constructors the model cannot tell apart (ArgumentConflict: argument_conflict /
    subcommand_conflict; the unknown-token triage), whether the subject is stored as InvalidArg or InvalidSubcommand."""
    f = dict(x.split("=", 1) for x in alt.split(" ") if "=" in x)
    items = []
    for it in [x for x in f.get("ctx", "").split(",") if x]:
        k, _, sh = it.partition(":")
        if k in SUGGESTION_KINDS:
            continue
        if k == "PriorArg":
            sh = "*"
        if kindclass in ("unknown-token", "ArgumentConflict") and k in ("InvalidArg", "InvalidSubcommand"):
            k = "Subject"
        items.append(k + ":" + sh)
    return "msg=%s ctx=%s rich=%s" % (f.get("msg"), ",".join(items), f.get("rich"))


def project_errctx(r):
    base, extra = split_errctx(r)
    cls = outcome_class(base)
    if not extra:
        return cls
    kind = parse_result(base).get("ekind", "?")
    kindclass = "unknown-token" if kind in UNKNOWN_TOKEN else kind
    alts = sorted({canon_alt(kindclass, a) for a in extra.split(" / ")})
    if len(alts) != 1:
        return "%s %s AMBIGUOUS %s" % (cls, kindclass, " / ".join(alts))
    return "%s %s %s" % (cls, kindclass, alts[0])


def oracle_errctx(case, impl):
    base, extra = split_errctx(impl)
    r = oracle(case, base)
    if r:
        return r
    if "msg=unreadable" in extra:
        return "unexpected harness result: %s" % extra[:200]
    return None


def nontrivial_errctx(case, impl):
    return bool(impl) and " ;; " in impl


def boundary_cases(rng, n, prof_kw=None):
    """commands x argv made only of boundary tokens"""
    prof = gen_cmd.Profile(**(prof_kw or {}))
    out = []
    while len(out) < n:
        c = gen_cmd.gen_cmd(rng, prof)
        names = []

        def collect(cc):
            for a in cc["args"]:
                if a.get("long"):
                    names.append(b"--" + a["long"])
                    names.append(b"--" + a["long"][:2])
                    names.append(b"--" + a["long"] + b"=")
                if a.get("short"):
                    names.append(b"-" + a["short"].encode())
                    names.append(b"-" + a["short"].encode() + b"=")
                if a.get("term") is not None:
                    names.append(a["term"])
            for s in cc["subs"]:
                names.append(s["name"])
                names.append(s["name"][:1])
                for al, _ in s.get("aliases", []):
                    names.append(al)
                    names.append(al[:max(1, len(al) - 1)])
                if s.get("short_flag"):
                    names.append(b"-" + s["short_flag"].encode())
                    names.append(b"-" + s["short_flag"].encode() + b"qz")
                if s.get("long_flag"):
                    names.append(b"--" + s["long_flag"])
                collect(s)
        collect(c)
        # directed: `<path of subcommand names> help <name | alias | prefix of either> [more]` -- the help subcommand resolves
        # its operand through the same lookups as dispatch (inference, aliases) and must never panic (seed2/C01-2)
        def help_lines(cc, path):
            for s in cc["subs"]:
                spell = [s["name"], s["name"][:max(1, len(s["name"]) - 1)], s["name"][:1]]
                for al, _ in s.get("aliases", []):
                    spell += [al, al[:max(1, len(al) - 1)], al[:1]]
                for sp in spell:
                    yield path + [b"help", sp]
                    yield path + [b"help", sp, rng.choice(gen_cmd.BOUNDARY)]
                yield from help_lines(s, path + [s["name"]])
        hl = list(help_lines(c, []))
        rng.shuffle(hl)
        for toks in hl[:6]:
            out.append(gen_cmd.case_sx(c, toks if "no_binary_name" in c["settings"] else [b"prog"] + toks))
        for _ in range(4):
            k = rng.choice([0, 1, 1, 2, 2, 3, 4, 6])
            toks = [rng.choice(gen_cmd.BOUNDARY + names) if names else rng.choice(gen_cmd.BOUNDARY) for _ in range(k)]
            argv = toks if "no_binary_name" in c["settings"] else [rng.choice([b"prog", b"", b"\xff", b"a/b"])] + toks
            if rng.random() < 0.05:
                argv = []
            out.append(gen_cmd.case_sx(c, argv))
    return out[:n]


# ---------------------------------------------------------------- stream parse-flagsub-class (round 4)
def _has_short_flag(s):
    return bool(s.get("short_flag") or s.get("short_flag_aliases"))


def in_flag_sub_class(c):
    """python mirror (conservative: a subset) of the boolean class `flag_sub_class` of C01_no_panic_flag_subs: every
    subcommand that has a short flag has no child with a short flag, and none of its positionals allows hyphen values
    or negative numbers.  (The generator never sets the command-level AllowHyphenValues / AllowNegativeNumbers.)"""
    if {"allow_hyphen_values", "allow_negative_numbers"} & set(c.get("settings", [])):
        return False      # command-level (deprecated) settings reach the positionals of every level below: stay conservative
    for s in c["subs"]:
        if _has_short_flag(s):
            if any(_has_short_flag(t) for t in s["subs"]):
                return False
            if any(not gen_cmd.is_opt(a) and ({"hyphen", "negnum"} & set(a["flags"])) for a in s["args"]):
                return False
        if not in_flag_sub_class(s):
            return False
    return True


def uses_short_flag_sub(c):
    return any(_has_short_flag(s) or uses_short_flag_sub(s) for s in c["subs"])


def flagsub_cases(rng, n):
    """definitions of the class that HAVE short flag-subcommands x argv aimed at the resume logic: a path of subcommand names
    to a level with a short flag-subcommand, then one cluster `-<flags of that level>*<S><letters>` (letters: shorts of the
    child and of the parent, the subcommand letter again, `=`, a digit, an unknown letter, a non-UTF-8 byte), then 0-2 more
    tokens (another cluster, names of the child, boundary tokens); plus the generic rendered/mutated lines."""
    prof = gen_cmd.Profile(flag_subs=0.7, hyphen=0.15, depth=3, settings=0.15, infer=0.2, require_equals=0.2, ignore_errors=0.15,
                           invalid=0.0)
    out = []
    guard = 0
    while len(out) < n and guard < 200 * n + 1000:
        guard += 1
        c = gen_cmd.gen_cmd(rng, prof)
        if not (in_flag_sub_class(c) and uses_short_flag_sub(c)):
            continue
        sites = []          # (names on the way, parent, child)

        def walk(cc, path):
            for s in cc["subs"]:
                if s.get("short_flag"):
                    sites.append((path, cc, s))
                walk(s, path + [s["name"]])
        walk(c, [])
        for _ in range(6):
            path, par, ch = rng.choice(sites)
            pflags = [a["short"] for a in par["args"] if a.get("short")]
            cshorts = [a["short"] for a in ch["args"] if a.get("short")]
            before = "".join(rng.choice(pflags) for _ in range(rng.choice([0, 0, 0, 1, 1, 2]))) if pflags else ""
            pool = cshorts * 3 + pflags + [ch["short_flag"], "=", "1", "y", "h", "V"]
            after = b"".join((rng.choice(pool).encode() if rng.random() < 0.93 else rng.choice([b"\xff", b"\xc3\xa9", b"\xc3"]))
                             for _ in range(rng.choice([0, 1, 1, 1, 2, 2, 3, 4])))
            cluster = b"-" + before.encode() + ch["short_flag"].encode() + after
            tail = []
            for _ in range(rng.choice([0, 0, 1, 1, 2, 3])):
                r = rng.random()
                if r < 0.3 and cshorts:
                    tail.append(b"-" + "".join(rng.choice(cshorts + [ch["short_flag"]]) for _ in range(rng.choice([1, 1, 2, 3]))).encode())
                elif r < 0.45:
                    tail.append(cluster)
                elif r < 0.6 and ch["subs"]:
                    tail.append(rng.choice(ch["subs"])["name"])
                elif r < 0.8:
                    tail.append(rng.choice(gen_cmd.VALUES))
                else:
                    tail.append(rng.choice(gen_cmd.BOUNDARY))
            toks = list(path) + [cluster] + tail
            if rng.random() < 0.25:
                toks = gen_cmd.mutate(rng, toks)
            out.append(gen_cmd.case_sx(c, toks if "no_binary_name" in c["settings"] else [b"prog"] + toks))
        for _ in range(2):
            out.append(gen_cmd.case_sx(c, gen_cmd.gen_argv(rng, c, p_mutate=0.5, safe_p=0.4)))
    return out[:n]


def nontrivial_flagsub(case, impl):
    """the line contains a cluster with a short flag-subcommand letter followed by something (keep_state is exercised)"""
    if not nontrivial(case, impl):
        return False
    cmd, argv = decode_case(case)
    letters = set()

    def walk(cc):
        for s in cc["subs"]:
            if s.get("short_flag"):
                letters.add(s["short_flag"].encode() if isinstance(s["short_flag"], str) else s["short_flag"])
            walk(s)
    walk(cmd)
    for t in argv[1:]:
        if len(t) >= 3 and t[:1] == b"-" and t[1:2] != b"-" and any(l in t[1:-1] for l in letters):
            return True
    return False


# ---------------------------------------------------------------- stream parse-single-clusters (round 5)
def multi_cluster(t):
    """python mirror of FsLine.multi_cluster: `-` + one character + at least one more byte"""
    if len(t) < 2 or t[:1] != b"-" or t[:2] == b"--":
        return False
    r = t[1:]
    for n in (1, 2, 3, 4):
        try:
            if len(r[:n].decode("utf-8")) == 1 and len(r[:n]) == n:
                return len(r) > n
        except UnicodeDecodeError:
            continue
    return False


def split_cluster(t):
    """`-abc` -> `-a -b -c`; a tail that is not UTF-8 stays one token (`-\xff..` is not a cluster of characters)"""
    out = []
    r = t[1:]
    while r:
        for n in (1, 2, 3, 4):
            try:
                if len(r[:n].decode("utf-8")) == 1 and len(r[:n]) == n:
                    out.append(b"-" + r[:n])
                    r = r[n:]
                    break
            except UnicodeDecodeError:
                continue
        else:
            out.append(b"-" + r)
            break
    return out


def single_cluster_cases(rng, n):
    """definitions WITH short flag-subcommands -- mostly outside flag_sub_class: nested ones, hyphen / negative-number
    positionals in re-entered levels -- x lines of the class of C01_no_panic_single_clusters (no token is a short cluster of
    more than one character): a walk down the tree that selects every level by its own token (`-S`, a name, a long flag),
    with single-letter flags of that level, values and boundary tokens in between, and generic rendered / mutated lines in
    which every multi-character cluster is split into single letters."""
    prof = gen_cmd.Profile(flag_subs=0.8, hyphen=0.35, depth=3, settings=0.2, infer=0.2, require_equals=0.2, ignore_errors=0.15,
                           invalid=0.0)
    out = []
    guard = 0
    while len(out) < n and guard < 200 * n + 1000:
        guard += 1
        c = gen_cmd.gen_cmd(rng, prof)
        if not uses_short_flag_sub(c):
            continue
        if in_flag_sub_class(c) and rng.random() < 0.7:
            continue
        lines = []
        for _ in range(5):
            toks = []
            cc = c
            while True:
                shorts = [a["short"] for a in cc["args"] if a.get("short")]
                for _ in range(rng.choice([0, 0, 1, 1, 2])):
                    r = rng.random()
                    if r < 0.6 and shorts:
                        toks.append(b"-" + rng.choice(shorts).encode())
                    elif r < 0.8:
                        toks.append(rng.choice(gen_cmd.VALUES))
                    else:
                        toks.append(rng.choice(gen_cmd.BOUNDARY))
                if not cc["subs"] or rng.random() < 0.2:
                    break
                withflag = [s for s in cc["subs"] if s.get("short_flag")]
                s_ = rng.choice(withflag) if withflag and rng.random() < 0.8 else rng.choice(cc["subs"])
                if s_.get("short_flag") and rng.random() < 0.85:
                    toks.append(b"-" + s_["short_flag"].encode())
                elif s_.get("long_flag") and rng.random() < 0.5:
                    toks.append(b"--" + s_["long_flag"])
                else:
                    toks.append(s_["name"])
                cc = s_
            lines.append(toks)
        for _ in range(3):
            a = gen_cmd.gen_argv(rng, c, p_mutate=0.5, safe_p=0.4)
            lines.append(a if "no_binary_name" in c["settings"] else a[1:])
        for toks in lines:
            flat = []
            for t in toks:
                flat += split_cluster(t) if multi_cluster(t) else [t]
            assert not any(multi_cluster(t) for t in flat)
            out.append(gen_cmd.case_sx(c, flat if "no_binary_name" in c["settings"] else [b"prog"] + flat))
    return out[:n]


def nontrivial_single(case, impl):
    """the definition is outside (the python mirror of) flag_sub_class and the line selects a level by a short
    flag-subcommand letter"""
    if not nontrivial(case, impl):
        return False
    cmd, argv = decode_case(case)
    if in_flag_sub_class(cmd):
        return False
    letters = set()

    def walk(cc):
        for s in cc["subs"]:
            if s.get("short_flag"):
                letters.add(b"-" + (s["short_flag"].encode() if isinstance(s["short_flag"], str) else s["short_flag"]))
            walk(s)
    walk(cmd)
    return any(t in letters for t in argv[1:])


# ---------------------------------------------------------------- stream parse-no-resume (round 5)
def tree_letters(c):
    """every short flag and short-flag alias of every subcommand of the tree (the set L of C01_no_panic_no_resume)"""
    out = set()
    for s_ in c["subs"]:
        if s_.get("short_flag"):
            out.add(s_["short_flag"])
        for n_, _ in s_.get("short_flag_aliases", []):
            out.add(n_)
        out |= tree_letters(s_)
    return out


def cluster_chars(t):
    """characters of the cluster `-...` as byte strings, up to the first byte sequence that is not UTF-8 (kept as one item)"""
    r = t[1:]
    out = []
    while r:
        for n in (1, 2, 3, 4):
            try:
                if len(r[:n].decode("utf-8")) == 1 and len(r[:n]) == n:
                    out.append(r[:n])
                    r = r[n:]
                    break
            except UnicodeDecodeError:
                continue
        else:
            out.append(r)
            break
    return out


def is_cluster(t):
    return len(t) >= 2 and t[:1] == b"-" and t[:2] != b"--"


def resumes(t, letters):
    """python mirror of `tok_ok L t = false`: a character of L with something behind it in the cluster"""
    if not is_cluster(t):
        return False
    ch = cluster_chars(t)
    return any(x in letters for x in ch[:-1])


def split_after_letters(t, letters):
    """`-aSxy` -> `-aS -xy`: cut the cluster behind every letter of L"""
    out, cur = [], b""
    for x in cluster_chars(t):
        cur += x
        if x in letters:
            out.append(b"-" + cur)
            cur = b""
    if cur:
        out.append(b"-" + cur)
    return out


def no_resume_cases(rng, n):
    """definitions with short flag-subcommands, mostly outside flag_sub_class, x lines of the class of C01_no_panic_no_resume:
    multi-character clusters, attached values, `=` forms are all kept; a cluster is cut only behind a short flag-subcommand
    letter of the tree (`-aSxy` -> `-aS -xy`), so such a letter always ends its cluster."""
    prof = gen_cmd.Profile(flag_subs=0.8, hyphen=0.35, depth=3, settings=0.2, infer=0.2, require_equals=0.2, ignore_errors=0.15,
                           invalid=0.0)
    out = []
    guard = 0
    while len(out) < n and guard < 200 * n + 1000:
        guard += 1
        c = gen_cmd.gen_cmd(rng, prof)
        if not uses_short_flag_sub(c):
            continue
        if in_flag_sub_class(c) and rng.random() < 0.7:
            continue
        letters = {x.encode() for x in tree_letters(c)}
        lines = []
        for _ in range(5):
            toks = []
            cc = c
            while True:
                shorts = [a["short"] for a in cc["args"] if a.get("short")]
                for _ in range(rng.choice([0, 1, 1, 2])):
                    r = rng.random()
                    if r < 0.55 and shorts:
                        k = rng.choice([1, 2, 2, 3])
                        cl = "".join(rng.choice(shorts) for _ in range(k)).encode()
                        if rng.random() < 0.3:
                            cl += rng.choice([b"=v", b"val", b"1", b"=", b"\xff"])
                        toks.append(b"-" + cl)
                    elif r < 0.8:
                        toks.append(rng.choice(gen_cmd.VALUES))
                    else:
                        toks.append(rng.choice(gen_cmd.BOUNDARY))
                if not cc["subs"] or rng.random() < 0.2:
                    break
                withflag = [s_ for s_ in cc["subs"] if s_.get("short_flag")]
                s_ = rng.choice(withflag) if withflag and rng.random() < 0.8 else rng.choice(cc["subs"])
                if s_.get("short_flag") and rng.random() < 0.85:
                    pre = "".join(rng.choice(shorts) for _ in range(rng.choice([0, 0, 1, 2]))) if shorts else ""
                    toks.append(b"-" + pre.encode() + s_["short_flag"].encode())      # the letter ENDS its cluster
                elif s_.get("long_flag") and rng.random() < 0.5:
                    toks.append(b"--" + s_["long_flag"])
                else:
                    toks.append(s_["name"])
                cc = s_
            lines.append(toks)
        for _ in range(3):
            a = gen_cmd.gen_argv(rng, c, p_mutate=0.5, safe_p=0.4)
            lines.append(a if "no_binary_name" in c["settings"] else a[1:])
        for toks in lines:
            flat = []
            for t in toks:
                flat += split_after_letters(t, letters) if resumes(t, letters) else [t]
            assert not any(resumes(t, letters) for t in flat)
            out.append(gen_cmd.case_sx(c, flat if "no_binary_name" in c["settings"] else [b"prog"] + flat))
    return out[:n]


def nontrivial_no_resume(case, impl):
    """outside the mirror of flag_sub_class, a level selected by a short flag-subcommand letter, and a multi-character cluster"""
    if not nontrivial_single(case, impl) and not nontrivial(case, impl):
        return False
    cmd, argv = decode_case(case)
    if in_flag_sub_class(cmd):
        return False
    letters = {x.encode() for x in tree_letters(cmd)}
    sel = any(is_cluster(t) and cluster_chars(t)[-1:] and cluster_chars(t)[-1] in letters for t in argv[1:])
    return sel and any(multi_cluster(t) for t in argv[1:])


def describe(cases, tag):
    feats = collections.Counter()
    lens = collections.Counter()
    for c in cases[:3000]:
        cmd, argv = decode_case(c)
        lens[min(len(argv), 8)] += 1

        def walk(cc, d):
            feats["depth>=%d" % d] += 1
            for s in cc["settings"]:
                feats["set:" + s] += 1
            for a in cc["args"]:
                for f in a["flags"]:
                    feats["arg:" + f] += 1
                if a.get("action"):
                    feats["action:" + a["action"]] += 1
            if cc["groups"]:
                feats["groups"] += 1
            for s in cc["subs"]:
                if s.get("short_flag"):
                    feats["short_flag_sub"] += 1
                if s.get("long_flag"):
                    feats["long_flag_sub"] += 1
                walk(s, d + 1)
        walk(cmd, 1)
    return {"sampled": min(len(cases), 3000), "argv_len": dict(sorted(lens.items())), "features": dict(feats.most_common(60))}


# ---------------------------------------------------------------- panic-site coverage classes (round 5)
SITE_CLASSES = [
    ("CovAllDefs", "proved_for_every_definition",
     "a statement about the model proved for EVERY definition (valid or not) and every input makes the site dead"),
    ("CovValid", "dead_for_every_valid_definition",
     "visible panic result of the model; never the outcome for every definition the gate accepts (class unbuilt /\\ valid), every argv"),
    ("CovClassOnly", "DIFFERENTIAL_ONLY_outside_flag_sub_class",
     "visible panic result of the model; dead for class flag_sub_class, REACHABLE outside it (finding C01-flag-subcmd-skip): "
     "outside the class only the correspondence run and the direct oracle cover it"),
    ("CovReasoned", "DIFFERENTIAL_ONLY_reasoned",
     "no statement about the model: dead by reasoning local to the Rust function (string in Sites.v); covered by the direct oracle only"),
]
_SITE_RE = re.compile(r'\("([^"]+)", "([^"]+)", "([^"]+)", (\d+)\)')


def site_classification():
    """The four pinned lists of C01_sites_classified (Properties/C01.v; the proof gate has checked that they are the
    classification computed from Sites.model_site_table and that together they are exactly Gen/ParseSites.v, which the
    translator regenerated from the Rust source on this run), re-read here for the evidence, plus an independent
    cross-check against the generated list."""
    th = os.path.join(core.ROOT, "coq", "theories")
    out = {"classes": {}, "meaning": {}}
    try:
        text = open(os.path.join(th, "Properties", "C01.v")).read()
        i = text.index("Theorem C01_sites_classified :")
        stmt = text[i:text.index("Proof.", i)]
        gen_text = open(os.path.join(th, "Gen", "ParseSites.v")).read()
        render_text = gen_text[gen_text.index("Definition render_path_sites"):gen_text.index("command_fns_on_parse_path")]
        gen_text = gen_text[:gen_text.index("Definition render_path_sites")]
        k = text.index("Theorem C01_render_path_sites :")
        render_stmt = text[k:text.index("Proof.", k)]
    except (OSError, ValueError) as ex:
        return {"error": "cannot read the classification: %r" % (ex,)}
    fmt = lambda k: "%s %s %s #%s" % k  # noqa: E731
    seen = []
    for cov, label, meaning in SITE_CLASSES:
        m = re.search(r"sites_of %s =\s*\[(.*?)\]" % cov, stmt, re.S)
        keys = _SITE_RE.findall(m.group(1)) if m else []
        out["classes"][label] = [fmt(k) for k in keys]
        out["meaning"][label] = meaning
        seen += keys
    gen = _SITE_RE.findall(gen_text)
    out["source_sites"] = len(gen)
    out["unclassified_source_sites"] = [fmt(k) for k in gen if k not in seen]
    out["classified_but_not_in_source"] = [fmt(k) for k in seen if k not in gen]
    out["counts"] = {label: len(v) for label, v in out["classes"].items()}
    # the error-construction path (usage / help text): C12's models; for C01 differential only
    rgen = _SITE_RE.findall(render_text)
    rpin = _SITE_RE.findall(render_stmt)
    out["classes"]["DIFFERENTIAL_ONLY_error_construction_path_C12"] = [fmt(k) for k in rpin]
    out["meaning"]["DIFFERENTIAL_ONLY_error_construction_path_C12"] = (
        "output/usage.rs, output/help_template.rs, builder/styled_str.rs: reached while an error is constructed (usage string, help "
        "text); outside the parser model, modelled and proved dead for its own class by C12 (C12_usage_total, C12_padding_safe, "
        "C12_render_total); for C01 covered by rendering every error under catch_unwind on every case")
    out["counts"]["DIFFERENTIAL_ONLY_error_construction_path_C12"] = len(rpin)
    out["unclassified_source_sites"] += [fmt(k) for k in rgen if k not in rpin]
    out["classified_but_not_in_source"] += [fmt(k) for k in rpin if k not in rgen]
    # error/{format,mod,kind,context}.rs: modelled in Errors/RenderModel.v (Panic 175, 276), pinned by C01_error_tables_match
    try:
        et = open(os.path.join(th, "Gen", "ErrorCtx.v")).read()
        et = et[et.index("Definition gen_format_sites"):]
        fs = re.findall(r'\("([^"]+)", "([^"]+)", (\d+)\)', et)
        k2 = text.index("Theorem C01_error_tables_match")
        pinned = re.findall(r'\("([^"]+)", "([^"]+)", (\d+)%N\)', text[k2:text.index("Proof.", k2)])
        label = "proved_for_every_error_value_error_rs"
        out["classes"][label] = ["error/*.rs %s %s #%s" % k for k in pinned]
        out["meaning"][label] = ("unwrap sites of error/format.rs and error/mod.rs, visible in Errors/RenderModel.v and dead for EVERY "
                                 "error value / every constructor argument (C01_render_total, C01_conflict_ctors_total)")
        out["counts"][label] = len(pinned)
        out["unclassified_source_sites"] += ["error/*.rs %s %s #%s" % k for k in fs if k not in pinned]
        out["classified_but_not_in_source"] += ["error/*.rs %s %s #%s" % k for k in pinned if k not in fs]
    except (OSError, ValueError):
        pass
    return out


_SITE_NOTE_PREFIX = "panic sites of the parse path"


def publish_site_classes():
    """print the classification and put the differential-only lists into the evidence (assumptions + distributions)"""
    sc = site_classification()
    ASSUMPTIONS[:] = [a for a in ASSUMPTIONS if not a.startswith(_SITE_NOTE_PREFIX)]
    if "error" in sc:
        ASSUMPTIONS.append("%s: %s" % (_SITE_NOTE_PREFIX, sc["error"]))
        print("C01 panic sites: " + sc["error"])
        return sc
    c = sc["classes"]
    ASSUMPTIONS.append(
        "%s (regenerated from the source on this run: %d; pinned by C01_sites_classified): %d dead by a statement proved "
        "for every definition, %d dead for EVERY definition the gate accepts (C01_sites_dead_any_valid), and DIFFERENTIAL "
        "ONLY: (a) reachable outside class flag_sub_class, dead inside (C01_sites_dead_flag_subs): %s; (b) justified by "
        "reasoning local to the Rust function, no theorem: %s; (c) %d sites of output/usage.rs, output/help_template.rs, "
        "builder/styled_str.rs reached while an error is constructed: C12's models (C01_render_path_sites pins the list)"
        % (_SITE_NOTE_PREFIX, sc["source_sites"], len(c["proved_for_every_definition"]),
           len(c["dead_for_every_valid_definition"]), "; ".join(c["DIFFERENTIAL_ONLY_outside_flag_sub_class"]) or "none",
           "; ".join(c["DIFFERENTIAL_ONLY_reasoned"]) or "none",
           len(c["DIFFERENTIAL_ONLY_error_construction_path_C12"])))
    print("C01 panic sites: %d in the source; %s; unclassified: %s; stale: %s"
          % (sc["source_sites"], ", ".join("%s=%d" % kv for kv in sc["counts"].items()),
             sc["unclassified_source_sites"] or "none", sc["classified_but_not_in_source"] or "none"))
    return sc


def streams(tier, rng):
    big = tier == "thorough"
    n_rand = 60000 if big else 5000
    n_bound = 30000 if big else 2500
    n_ign = 20000 if big else 1500
    rand = gen_cases(rng, n_rand, {"depth": 3} if big else None)
    adversarial = gen_cases(rng, n_rand // 2, {"hyphen": 0.35, "flag_subs": 0.6, "settings": 0.25, "low_index": 0.2,
                                               "terminators": 0.3, "require_equals": 0.3, "last": 0.3, "tva": 0.25,
                                               "external": 0.25, "infer": 0.4, "groups": 0.6, "relations": 0.4, "pos_alias": 0.3, "group_nesting": 0.15},
                            p_mutate=0.6, safe_p=0.3)
    bound = boundary_cases(rng, n_bound, {"hyphen": 0.3, "flag_subs": 0.5, "settings": 0.2, "infer": 0.3})
    ign = gen_cases(rng, n_ign, {"ignore_errors": 1.0, "invalid": 0.0}, p_mutate=0.7, safe_p=0.3)
    mk = lambda name, cases: Stream(name, cases, oracle=oracle, area="parse", project=project,  # noqa: E731
                                    nontrivial=nontrivial, describe=describe(cases, name))
    # the error value: same generators, mutation-heavy so that most lines end in an error
    n_err = 30000 if big else 3000
    errc = (gen_cases(rng, n_err // 2, {"depth": 3} if big else None, p_mutate=0.8, safe_p=0.2, mode="errctx")
            + gen_cases(rng, n_err // 2, {"hyphen": 0.3, "flag_subs": 0.4, "settings": 0.25, "require_equals": 0.4,
                                          "terminators": 0.3, "groups": 0.6, "relations": 0.5, "infer": 0.4,
                                          "external": 0.2}, p_mutate=0.8, safe_p=0.2, mode="errctx"))
    errctx = Stream("errctx", errc, oracle=oracle_errctx, area="errctx", project=project_errctx,
                    nontrivial=nontrivial_errctx, describe=describe(errc, "errctx"))
    # round 4: the class of C01_no_panic_flag_subs against the real crate; a panic here is a violation even with the
    # message of the recorded finding (classify_known does not accept it on this stream)
    fsc = flagsub_cases(rng, 20000 if big else 2000)
    flagsub = Stream("parse-flagsub-class", fsc, oracle=oracle, area="parse", project=project,
                     nontrivial=nontrivial_flagsub, describe=describe(fsc, "parse-flagsub-class"))
    # round 5: the class of C01_no_panic_single_clusters (any definition, no multi-character short cluster on the line)
    # against the real crate; as on parse-flagsub-class the message of the recorded finding is NOT accepted here
    scc = single_cluster_cases(rng, 20000 if big else 2000)
    single = Stream("parse-single-clusters", scc, oracle=oracle, area="parse", project=project,
                    nontrivial=nontrivial_single, describe=describe(scc, "parse-single-clusters"))
    nrc = no_resume_cases(rng, 20000 if big else 2000)
    noresume = Stream("parse-no-resume", nrc, oracle=oracle, area="parse", project=project,
                      nontrivial=nontrivial_no_resume, describe=describe(nrc, "parse-no-resume"))
    # round 5: the coverage class of every panic-shaped source site, into the evidence (no cases: the proof gate has
    # checked the lists; a site of the regenerated table without a class fails C01_sites_match / C01_sites_classified)
    sites = Stream("panic-site-classes", [], describe=publish_site_classes())
    return [mk("parse-random", rand), mk("parse-adversarial", adversarial), mk("parse-boundary", bound),
            mk("parse-ignore-errors", ign), flagsub, single, noresume, errctx, sites]


def classify_known(stream, case, impl, failure):
    if stream in ("parse-flagsub-class", "parse-single-clusters", "parse-no-resume"):
        return None       # definitions resp. lines of the classes of C01_no_panic_flag_subs / C01_no_panic_single_clusters /
                          # C01_no_panic_no_resume: the recorded finding cannot occur there
    if impl and impl.startswith("PANIC") and KNOWN_SKIP_MSG in impl:
        # round 5: the family is enclosed by theorems (C01_entry_point_summary): the assertion needs a definition outside
        # flag_sub_class AND a cluster in which a short flag-subcommand letter of the definition is followed by more.  The
        # message alone is no longer enough: anywhere else the same panic is reported as a violation.
        try:
            cmd, argv = decode_case(case)
            letters = {x.encode() for x in tree_letters(cmd)}
            toks = argv if "no_binary_name" in cmd["settings"] else argv[1:]
            if in_flag_sub_class(cmd) or not any(resumes(t, letters) for t in toks):
                return None
        except Exception:
            return None
        return "C01-flag-subcmd-skip"
    return None
