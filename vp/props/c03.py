"""C03: a successful parse satisfies every declared relation between arguments.

The oracle below is written from the property text and from the public documentation of
Arg::{conflicts_with*, exclusive, requires*, required*, overrides_with*, global, group},
ArgGroup::{multiple, required, requires*, conflicts_with*} and
Command::{subcommand_negates_reqs, ignore_errors}; it does not mirror validator.rs and does not
use the Coq model.  It is applied to the implementation's `ok` results only.

Three-valued evaluation: the values of `global` arguments are copied between the levels of a
subcommand chain after validation, so in a result with more than one level a global id that is
reported explicit may have been supplied at another level.  Presence of such an id (and every value
test on it) is UNKNOWN; a violation is raised only when its condition is definitely true.
"""
import collections
import re

from .. import gen_cmd, parse_streams
from ..core import hexs
from ..parse_streams import decode_case, levels, parse_result, walk_chain
from ..runner import Stream

ID = "C03"
AREAS = ["parse"]
RULE = ("relgraph: relation-dense commands (3-7 mostly simple flags/one-value options over the value pool {v,w,1}, "
        "defaults, environment values, ignore_case, 0-2 positionals incl. required+last, 0-3 groups "
        "(multiple/required/conflicts/requires), every relation kind with high probability: conflicts to args and "
        "groups, overrides, requires, requires_if, required, exclusive, required_if_eq_any/_all, "
        "required_unless_present_any/_all (also both), requires-chains of length 3-4 whose middle links conflict with "
        "another argument, sometimes a subcommand level with subcommand_negates_reqs / args_conflicts_with_subcommands "
        "and a global argument) x argv that is repaired towards satisfying the relations (half) or a random subset "
        "(half), random spellings, override pairs in both orders; shared: the shared parser generator with "
        "relations=0.5, groups=0.6; adversarial: relgraph commands with mutated argv and boundary tokens; clauses3 "
        "(directed, round 3): two disjoint groups one of which (multiple or not) conflicts with the other GROUP, an argument "
        "carrying required_if_eq(_all) AND required_unless_present(_all) together, an Append option with 0-3 occurrences "
        "that is the condition of required_if_eq / carries requires_if, lines with members of both groups / repeated "
        "occurrences whose first value matches and last does not.  "
        "Non-trivial: the parse succeeded without ignore_errors and at some level a relation is live (a present "
        "argument declares or is named by a relation, an absent argument has a conditional rule whose trigger is "
        "present, a static requirement exists, or a group has a present member).  Distinct = distinct case text.")
TRUSTED = [
    "Coq 8.16.1 kernel (coqc); theorems C03_* are 'Closed under the global context'",
    "extraction: ExtrOcamlBasic only; OCaml driver ocaml/parse_driver.ml + ocaml/common_parse/{spec,show}.ml",
    "correspondence: vp/props/c03.py generators, harness/src/modes/parse.rs (builds the real clap::Command from the case, "
    "prints ArgMatches::ids/value_source/raw occurrences), comparison of the projection "
    "(outcome class, ArgumentConflict/MissingRequiredArgument kind, explicit id list per level, subcommand chain)",
    "python oracle vp/props/c03.py (independent of the model): relation semantics as documented, three-valued for "
    "global arguments in multi-level results",
]
ASSUMPTIONS = [
    "presence = ArgMatches::value_source is CommandLine or EnvVariable; DefaultValue never counts",
    "results obtained with Command::ignore_errors on the walked chain are out of scope",
    "in results with more than one level the presence of a global argument reported explicit is not attributed to a "
    "level (values are propagated across levels after validation): rules depending on it are not checked",
    "exemptions are read generously: a required argument/group is excused by any present exclusive argument and by "
    "any present argument or group related to it (or to a group containing it) by a conflict or override declaration "
    "in either direction",
    "value tests (requires_if, required_if_eq*) are 'some explicit raw value equals'; ASCII-case-insensitive when "
    "the tested argument has ignore_case; tests on a group id are never decided",
]
TECHNIQUE = ("Coq proof about the executable model of Validator::validate and of the parser around it: soundness of "
             "the validator for a declarative specification (any relation graph), lifted by induction over the "
             "subcommand recursion to EVERY level of the reported chain (frame lemmas for the token loop and the "
             "post-loop phases, C02's key-uniqueness invariant), one theorem per clause of the property text, the "
             "converse (completeness of the validator) for EVERY relation graph through the exact requirement set, a "
             "dedicated traversal of the parser level (react / resolve_pending / token loop / env and default phases) that "
             "carries the coherence of group entries -- a predicate not closed under entry removal -- outside the two "
             "recorded finding families, given as boolean families of definitions, "
             "+ extracted-model/implementation correspondence + direct python oracle on every successful parse")
LEVEL_TEXT = ("85 pinned machine-checked theorems (Coq 8.16, all closed under the global context, no standard-library axiom).  "
              "C03_parse_sound_tree / C03_parse_top_sound_tree: for every valid definition of the class plain (no short "
              "flag-subcommands) + no_ignore (no node sets ignore_errors; the class is proved to be inherited by every "
              "command the parser builds) and every argv, a successful parse reports -- up to the copy of global "
              "values, which keeps the chain of names -- a chain whose matcher satisfied the declarative Relations at "
              "EVERY level against that level's own built definition, ending at a level without subcommand or at an "
              "external subcommand (only where allowed); C03_level_sound_tree is the same for any level/depth.  "
              "Clause by clause, for all relation graphs (C03_clause_*): conflicts_with, overrides imply conflicts, "
              "group conflicts through members and from the group's entry, non-multiple group single, exclusive alone, "
              "required statically / through requires and requires_if / through chains of requires (transitive closure "
              "by induction) / required groups and group requires, required_if_eq(_all), "
              "required_unless_present(_any/_all/both), each with exactly the exemptions the code grants (witnesses: "
              "conflict, exclusive and subcommand exemptions are granted, conditional rules have no conflict "
              "exemption); C03_defaults_inert: Relations is a function of the explicit entries only.  Converse: "
              "C03_conflicts_complete / C03_no_false_conflict (a matcher satisfying the conflict clauses is never "
              "answered ArgumentConflict by the validator, any graph) and C03_validate_iff_static (class static_only: "
              "validate = Ok <-> Relations); C03_required_set_exact (after the repair of Command::unroll_arg_requires, which "
              "no longer judges a conditional rule behind a requires chain against the root's values): the requirement "
              "set validate works from equals the specification's Required set, both inclusions, any graph.  "
              "Round 3: C03_validate_iff -- for EVERY relation graph (requires/requires_if chains, required groups, group "
              "requires, all conditional rule families) and every well-formed matcher validate = Ok <-> Relations, the two "
              "non-relation checks (help-on-empty-argv, subcommand-required) set aside (C03_validate_complete, "
              "C03_missing_required_complete, C03_no_false_missing, C03_validate_iff_members for RelationsM on coherent matchers; C03_validate_iff_invariant discharges the side conditions "
              "on every state of the parser).  C03_parse_sound_members / C03_level_members / C03_level_coherent: outside the "
              "two finding families (boolean group_safe on the built definition) every successful level ends with coherent "
              "group entries (entry explicit <-> a member explicit) and satisfies RelationsM, the member-based reading of the "
              "property; C03_parse_sound_along / C03_parse_top_sound_along / C03_level_chain_along: the chain theorems with "
              "hypotheses only ALONG the reported chain (strict_chain_b: a level that recorded a subcommand does not ignore "
              "errors; safe_chain_b: every level of the chain is group_safe) -- a sibling subcommand that was not reached "
              "may set ignore_errors or lie in a family -- with members_chain (RelationsM at every level).  Explicit clauses: "
              "a group's conflict with another GROUP reaches the members of both, multiple(true) included "
              "(C03_clause_group_conflicts_group_members/_entry, C03_direct_conflicts_multiple_group); required_if_eq* and "
              "required_unless_present* on one argument are a union (C03_clause_required_if_unless_union, "
              "_if_despite_unless, _unless_despite_if, C03_conditional_union_exact: the validator's boolean IS that union); "
              "Equals reads every stored occurrence (C03_clause_required_if_eq_any_occurrence, "
              "C03_clause_requires_if_any_occurrence).  "
              "The model is tied to clap_builder by running the extracted model and the "
              "real crate on the same generated cases on every check, and an independent python oracle re-checks every "
              "successful parse of the implementation against the documented relation semantics.")
LEVEL_NOTE = ("Trusted: Coq kernel, extraction, OCaml driver, Rust harness, generators, python oracle.  Recorded findings: "
              "an overrides list naming a group removes the group's matcher entry but not its members "
              "(C03-override-names-group = boolean family f1_family of definitions); a group entry stays present after "
              "its last member was overridden (C03-stale-group-after-override = family f2_family); theorems "
              "C03_group_coherence_refuted_f1/_f2, C03_members_refuted_f1, C03_families_witnesses (each witness lies in "
              "exactly its family and is produced by one call of remove_overrides).  Outside the families "
              "(group_safe) coherence is now an invariant of the whole level (round 3, ParseProofs/RelationsLoop.v: "
              "C03_loop_carries is the generic traversal, C03_occurrence_coherent the step).  NOT proved (differential + "
              "oracle): definitions with short flag-subcommands (outside plain), results obtained while a level ON the "
              "reported chain ignores errors, the two non-relation checks of validate (help-on-empty-argv, "
              "subcommand-required) and the ArgumentConflict raised by react / args_conflicts_with_subcommands outside "
              "validate (C10), the effect of the copy of global values on reported presence (C09).")

EXPLICIT = ("cmdline", "env")
KNOWN_F1 = "C03-override-names-group"
KNOWN_F2 = "C03-stale-group-after-override"


# ------------------------------------------------------------------ Kleene logic (True / False / None = unknown)
def k_not(x):
    return None if x is None else (not x)


def k_and(*xs):
    unk = False
    for x in xs:
        if x is False:
            return False
        if x is None:
            unk = True
    return None if unk else True


def k_or(*xs):
    unk = False
    for x in xs:
        if x is True:
            return True
        if x is None:
            unk = True
    return None if unk else False


def k_any(it):
    return k_or(*list(it))


def k_all(it):
    return k_and(*list(it))


def ascii_lower(b):
    return bytes(c + 32 if 65 <= c <= 90 else c for c in b)


def sid(i):
    try:
        return i.decode("ascii")
    except Exception:
        return hexs(i)


def sids(l):
    return "[" + ",".join(sid(i) for i in l) + "]"


# ------------------------------------------------------------------ one level: definitions + reported explicit set
class Level:
    """The command definition of one level (own arguments, global arguments inherited from the
    ancestors, groups incl. those declared through Arg::group) and the entries reported for it."""

    def __init__(self, cmd, inherited, ents, has_sub, multi, depth=0, assume=None):
        self.cmd = cmd
        self.depth = depth
        self.has_sub = has_sub
        self.multi = multi
        self.assume = assume or {}
        self.no_excuse = ()     # self-test knob only: rule tags (or "group") evaluated without exemptions
        self.args = {}
        self.global_ids = set()
        for a in inherited:
            self.args[a["id"]] = a
            self.global_ids.add(a["id"])
        for a in cmd["args"]:
            self.args[a["id"]] = a
            if "global" in a["flags"]:
                self.global_ids.add(a["id"])
            else:
                self.global_ids.discard(a["id"])
        self.groups = {}
        for g in cmd["groups"]:
            if g["id"] in self.groups:
                continue
            self.groups[g["id"]] = {"id": g["id"], "args": list(g.get("args", [])), "requires": list(g.get("requires", [])),
                                    "conflicts": list(g.get("conflicts", [])), "multiple": bool(g.get("multiple")),
                                    "required": bool(g.get("required"))}
        for a in self.args.values():
            for gid in a.get("groups", []) or []:
                g = self.groups.setdefault(gid, {"id": gid, "args": [], "requires": [], "conflicts": [],
                                                 "multiple": False, "required": False})
                if a["id"] not in g["args"]:
                    g["args"].append(a["id"])
        self.explicit = {}
        self.entry_ids = set()
        for e in ents:
            self.entry_ids.add(e["id"])
            if e["src"] in EXPLICIT:
                self.explicit[e["id"]] = e
        self.groups_of = collections.defaultdict(list)
        for g in self.groups.values():
            for m in g["args"]:
                self.groups_of[m].append(g["id"])
        self.exclusive_ids = [i for i, a in self.args.items() if "exclusive" in a["flags"]]

    # presence ---------------------------------------------------------------------------------
    def P(self, i, excl=None):
        """Kleene presence of an argument or group id; `excl`: a member/argument that does not count
        (an argument never conflicts with itself; a group named by one of its own members means the
        other members)."""
        a = self.args.get(i)
        if a is not None:
            if i == excl:
                return False
            if i in self.explicit:
                return None if (self.multi and i in self.global_ids) else True
            return False
        g = self.groups.get(i)
        if g is not None:
            if i in self.assume:
                return self.assume[i]
            return k_any(self.P(m, excl) for m in g["args"] if m in self.args)
        return False

    def values(self, i):
        try:
            return [v for occ in self.explicit[i]["occ"] for v in occ]
        except Exception:
            return None

    def Eq(self, i, val):
        """Kleene: argument i is explicitly present and one of its raw values equals val"""
        if i in self.groups and i not in self.args:
            return False if self.P(i) is False else None
        p = self.P(i)
        if p is not True:
            return p
        vals = self.values(i)
        if vals is None:
            return None
        if val in vals:
            return True
        if "icase" in self.args[i]["flags"]:
            lv = ascii_lower(val)
            for v in vals:
                if ascii_lower(v) == lv:
                    if all(c < 128 for c in v + val):
                        return True
                    return None
                if any(c >= 128 for c in v + val):
                    return None     # non-ASCII case folding: not decided here
        return False

    # relations --------------------------------------------------------------------------------
    def related_present(self, targets):
        """Kleene: something present is tied to one of `targets` (argument or group ids) by a
        conflict / override declaration in either direction, a non-multiple group, or is exclusive."""
        out = [self.P(e) for e in self.exclusive_ids]
        T = set(targets)
        for t in targets:
            a = self.args.get(t)
            if a is not None:
                for y in (a.get("conflicts") or []) + (a.get("overrides") or []):
                    out.append(self.P(y))
            g = self.groups.get(t)
            if g is not None:
                for y in g["conflicts"]:
                    out.append(self.P(y))
                if not g["multiple"]:
                    out.append(k_any(self.P(m) for m in g["args"]))
        for o in self.args.values():
            if any(y in T for y in (o.get("conflicts") or []) + (o.get("overrides") or [])):
                out.append(self.P(o["id"]))
        for h in self.groups.values():
            if any(y in T for y in h["conflicts"]):
                out.append(self.P(h["id"]) if h["id"] not in self.args else k_any(self.P(m) for m in h["args"]))
        return k_or(*out)

    def check(self):
        """-> (fails, live, weak): fails = [(tag, message, involved present ids, missing ids)],
        live/weak = Counters per rule tag (instances whose antecedent held / weakened by UNKNOWN)."""
        fails = []
        live = collections.Counter()
        weak = collections.Counter()
        P = self.P
        where = "level %d (%s)" % (self.depth, sid(self.cmd["name"]))

        def rec(tag, v, msg, involved, missing=()):
            if v is True:
                fails.append((tag, "%s at %s: %s" % (tag, where, msg), list(involved), list(missing)))
            elif v is None:
                weak[tag] += 1

        # R1a conflicts declared on arguments
        for a in self.args.values():
            pa = P(a["id"])
            if pa is False:
                continue
            for x in a.get("conflicts") or []:
                if x == a["id"]:
                    continue
                if pa is True:
                    live["conflict"] += 1
                rec("conflict", k_and(pa, P(x, a["id"])),
                    "%s is present and declares conflicts_with %s, which is present (explicit ids %s)"
                    % (sid(a["id"]), sid(x), sids(sorted(self.explicit))), [a["id"], x])
        # R1a conflicts declared on groups
        for g in self.groups.values():
            for x in g["conflicts"]:
                if x == g["id"]:
                    continue
                for m in g["args"]:
                    if m == x or m not in self.args:
                        continue
                    pm = P(m)
                    if pm is False:
                        continue
                    if pm is True:
                        live["group-conflict"] += 1
                    rec("group-conflict", k_and(pm, P(x, m)),
                        "member %s of group %s is present and the group declares conflicts_with %s, which is present"
                        % (sid(m), sid(g["id"]), sid(x)), [m, x])
        # R1b non-multiple groups
        for g in self.groups.values():
            if g["multiple"]:
                continue
            mem = list(dict.fromkeys(m for m in g["args"] if m in self.args))
            yes = [m for m in mem if P(m) is True]
            unk = [m for m in mem if P(m) is None]
            if yes:
                live["group-multiple"] += 1
            if len(yes) >= 2:
                rec("group-multiple", True, "group %s is not multiple but members %s are present" % (sid(g["id"]), sids(yes)), yes)
            elif len(yes) + len(unk) >= 2:
                weak["group-multiple"] += 1
        # R1c overrides imply conflicts
        for a in self.args.values():
            pa = P(a["id"])
            if pa is False:
                continue
            for b in a.get("overrides") or []:
                if b == a["id"] or b not in self.args:
                    continue
                if pa is True:
                    live["override-conflict"] += 1
                rec("override-conflict", k_and(pa, P(b)),
                    "%s declares overrides_with %s (which implies a conflict) and both are present"
                    % (sid(a["id"]), sid(b)), [a["id"], b])
        # R2 exclusive
        for e in self.exclusive_ids:
            pe = P(e)
            if pe is False:
                continue
            if pe is True:
                live["exclusive"] += 1
            others = [o for o in self.args if o != e and P(o) is not False]
            rec("exclusive", k_and(pe, k_any(P(o) for o in others)),
                "exclusive argument %s is present together with %s" % (sid(e), sids(others)), [e] + others)
        # R3 requirements
        # documented exemption: a subcommand negates the requirements of its parent.  With
        # args_conflicts_with_subcommands the subcommand conflicts with every argument of the level
        # ("conflicting rules take precedence over being required"), so that is an exemption as well.
        if self.has_sub and ("subcommand_negates_reqs" in self.cmd["settings"]
                             or "args_conflicts_with_subcommands" in self.cmd["settings"]):
            return fails, live, weak
        req = collections.OrderedDict()     # id -> [(Kleene "is required", (tag, text, involved ids))]

        def add(i, v, why):
            if v is False:
                return
            req.setdefault(i, []).append((v, why))

        for a in self.args.values():
            if "required" in a["flags"]:
                add(a["id"], True, ("required", "is declared required", []))
        for g in self.groups.values():
            if g["required"]:
                add(g["id"], True, ("required-group", "is a required group", []))
        chain = {}      # ids required through requires-edges from something present (for the transitive step)

        def addc(i, v, why):
            add(i, v, why)
            if v is False:
                return
            old = chain.get(i, False)
            new = k_or(old, v)
            if new != old:
                chain[i] = new
                return True
            return False

        for a in self.args.values():
            pa = P(a["id"])
            if pa is False:
                continue
            for x in a.get("requires") or []:
                addc(x, pa, ("requires", "is required by present argument %s (requires)" % sid(a["id"]), [a["id"]]))
            for val, x in a.get("requires_if") or []:
                addc(x, k_and(pa, self.Eq(a["id"], val)),
                     ("requires_if", "is required by argument %s having value %r (requires_if)" % (sid(a["id"]), val), [a["id"]]))
        for g in self.groups.values():
            pg = P(g["id"])      # member-based (honours the counterfactual assumption of classify_known)
            if pg is False:
                continue
            for x in g["requires"]:
                add(x, pg, ("group-requires", "is required by group %s, a member of which is present" % sid(g["id"]),
                             [m for m in g["args"] if P(m) is not False]))
        # transitive step: an argument required through a chain passes on its unconditional `requires`
        work = list(chain)
        while work:
            i = work.pop()
            a = self.args.get(i)
            if a is None:
                continue
            for y in a.get("requires") or []:
                if addc(y, chain[i], ("requires-transitive",
                                      "is required by %s (requires), itself required through a chain of requires from a present argument"
                                      % sid(i), [i])):
                    work.append(y)
        # conditional requirements of absent arguments
        for a in self.args.values():
            i = a["id"]
            if a.get("r_if"):
                v = k_any(self.Eq(o, val) for o, val in a["r_if"])
                add(i, v, ("r_if", "is required because one of %s holds (required_if_eq_any)"
                           % [(sid(o), val) for o, val in a["r_if"]], [o for o, _ in a["r_if"]]))
            if a.get("r_if_all"):
                v = k_all(self.Eq(o, val) for o, val in a["r_if_all"])
                add(i, v, ("r_if_all", "is required because all of %s hold (required_if_eq_all)"
                           % [(sid(o), val) for o, val in a["r_if_all"]], [o for o, _ in a["r_if_all"]]))
            ru, rua = a.get("r_unless") or [], a.get("r_unless_all") or []
            if ru or rua:
                parts = []
                if ru:
                    parts.append(k_not(k_any(P(o) for o in ru)))
                if rua:
                    parts.append(k_not(k_all(P(o) for o in rua)))
                tag = "r_unless" if not rua else ("r_unless_all" if not ru else "r_unless+all")
                add(i, k_and(*parts), (tag, "is required unless any of %s / all of %s are present" % (sids(ru), sids(rua)), []))
        for i in sorted(req):
            if i in self.args:
                absent = k_not(P(i))
                targets = [i] + self.groups_of.get(i, [])
                what = "argument %s" % sid(i)
                missing = [i]
                gkey = None
            elif i in self.groups:
                mem = [m for m in self.groups[i]["args"] if m in self.args]
                absent = k_not(P(i))
                targets = [i] + mem + [h for m in mem for h in self.groups_of.get(m, [])]
                what = "group %s (members %s)" % (sid(i), sids(mem))
                missing = mem
                gkey = "group"
            else:
                continue
            excused = None
            done = set()
            for v, (tag, why, involved) in req[i]:
                if tag in done:
                    continue
                if v is True and absent is not None:
                    live[tag] += 1
                    done.add(tag)
                if absent is False:
                    continue
                if tag in self.no_excuse or gkey in self.no_excuse:
                    ex = False
                else:
                    if excused is None:
                        excused = (self.related_present(targets),)
                    ex = excused[0]
                cond = k_and(v, absent, k_not(ex))
                rec(tag, cond, "%s %s but is not present, and nothing present excuses it (explicit ids %s)"
                    % (what, why, sids(sorted(self.explicit))), involved, missing)
                if cond is True:
                    break
        return fails, live, weak

    # families of the recorded findings (observable on the definition + output of this level) -----
    def f1_groups(self):
        """groups named by some overrides list"""
        return {y for a in self.args.values() for y in (a.get("overrides") or []) if y in self.groups and y not in self.args}

    def stale_groups(self):
        """group entries reported explicit although no member is reported explicit"""
        out = set()
        for gid, g in self.groups.items():
            # members reported non-explicit are definitely absent (also global ones: the propagation of
            # global values reports the maximum source over the chain)
            if gid in self.explicit and gid not in self.args and not any(m in self.explicit for m in g["args"]):
                out.add(gid)
        return out


# ------------------------------------------------------------------ whole result
def build_levels(cmd, lv, assume_fn=None):
    names = [n for _, n in lv if n is not None]
    chain = list(walk_chain(cmd, names))
    if any("ignore_errors" in st for _, st in chain):
        return None
    # a reported subcommand is an *external* one (not a level of the definition) when its name is not
    # declared (walk_chain stops), and also when the parent allows external subcommands and the
    # level carries the external-arguments entry (empty id) or no entry at all: a declared name is
    # taken as external when subcommands are not looked up (args_conflicts_with_subcommands after an
    # argument, after `--`)
    for d in range(1, len(chain)):
        parent = chain[d - 1][0]
        if parent.get("ext") or "allow_external_subcommands" in parent["settings"]:
            ents = lv[d][0]
            if not ents or any(e["id"] == b"" for e in ents):
                chain = chain[:d]
                break
    multi = len(lv) > 1
    # ids that are global somewhere on the chain: their values are copied to every level
    unknown_ids = {a["id"] for c, _ in chain for a in c["args"] if "global" in a["flags"]} if multi else set()
    out = []
    inherited = []
    for d, (c, _st) in enumerate(chain):
        ents, sub = lv[d]
        L = Level(c, inherited, ents, sub is not None, multi, d)
        L.global_ids |= unknown_ids
        if assume_fn:
            L.assume = assume_fn(L)
        out.append(L)
        own = {a["id"] for a in c["args"]}
        inherited = [a for a in inherited if a["id"] not in own] + [a for a in c["args"] if "global" in a["flags"]]
    return out


_memo = {"key": None, "val": None}


def evaluate(case, impl):
    """None (out of scope) or dict(fails=[(depth, tag, msg)], live=Counter, weak=Counter, levels=[Level])"""
    key = (case, impl)
    if _memo["key"] == key:
        return _memo["val"]
    val = None
    p = parse_result(impl)
    if p["kind"] == "ok":
        cmd, _argv = decode_case(case)
        Ls = build_levels(cmd, levels(p["m"]))
        if Ls is not None:
            val = {"fails": [], "live": collections.Counter(), "weak": collections.Counter(), "levels": Ls}
            for L in Ls:
                f, lv, wk = L.check()
                val["fails"] += [(L.depth, t, m) for t, m, _, _ in f]
                val["live"].update(lv)
                val["weak"].update(wk)
    _memo["key"], _memo["val"] = key, val
    return val


def outcome_word(impl):
    p = parse_result(impl)
    if p["kind"] == "err":
        return "err " + p["ekind"]
    return p["kind"]


def make_oracle(desc):
    rt = desc["runtime"]

    def oracle(case, impl):
        rt["outcomes"][outcome_word(impl)] += 1
        ev = evaluate(case, impl)
        if ev is None:
            if impl and impl.startswith("ok "):
                rt["outcomes"]["ok (ignore_errors: out of scope)"] += 1
            return None
        rt["ok_checked"] += 1
        if ev["live"]:
            rt["ok_with_live_relation"] += 1
        for t, n in ev["live"].items():
            rt["rule_live_cases"][t] += 1
            rt["rule_live_instances"][t] += n
        for t, n in ev["weak"].items():
            rt["rule_weakened_by_unknown"][t] += n
        if len(ev["levels"]) > 1:
            rt["ok_multi_level"] += 1
        if ev["fails"]:
            rt["oracle_failures"] += 1
            return "; ".join(m for _, _, m in ev["fails"][:4])
        return None
    return oracle


def nontrivial(case, impl):
    ev = evaluate(case, impl)
    return bool(ev and ev["live"])


def classify_known(stream, case, impl, failure):
    """The id of a recorded family only if the failing case is in it: every failing level either has a
    group named in an overrides list and the failures of that level disappear when those groups are
    taken to be absent as ids (F1: the group's matcher entry was removed, its members were not), or
    has a stale explicit group entry and the failures disappear when those groups are taken to be
    present (F2)."""
    if not failure or failure == "diff" or failure.startswith("oracle-exception"):
        return None
    ev = evaluate(case, impl)
    if not ev or not ev["fails"]:
        return None
    fam = None
    for d in sorted({d for d, _, _ in ev["fails"]}):
        L = ev["levels"][d]
        got = None
        f1 = L.f1_groups()
        if f1:
            L2 = Level(L.cmd, [a for i, a in L.args.items() if i not in {x["id"] for x in L.cmd["args"]}],
                       list(L.explicit.values()), L.has_sub, L.multi, L.depth, assume={g: False for g in f1})
            L2.global_ids |= L.global_ids
            if not L2.check()[0]:
                got = KNOWN_F1
        if got is None:
            st = L.stale_groups()
            if st:
                L2 = Level(L.cmd, [a for i, a in L.args.items() if i not in {x["id"] for x in L.cmd["args"]}],
                           list(L.explicit.values()), L.has_sub, L.multi, L.depth, assume={g: True for g in st})
                L2.global_ids |= L.global_ids
                if not L2.check()[0]:
                    got = KNOWN_F2
        if got is None:
            return None
        fam = fam or got
    return fam


# ------------------------------------------------------------------ projection (model vs implementation)
TRACKED = ("ArgumentConflict", "MissingRequiredArgument")


def project(r):
    p = parse_result(r)
    k = p["kind"]
    if k == "ok":
        lv = levels(p["m"])
        # Entries copied across levels by the propagation of global values are identical at every level
        # (or print as `?` where the implementation cannot report them): an entry is left out, on both
        # sides, when another level has the same id with the same content or with `?`.  Same-named
        # distinct args of different levels (different content) are compared normally.
        def content(e):
            return (e["src"], tuple(e["idx"]), tuple(tuple(g) for g in e["occ"]))
        per_id = collections.defaultdict(list)
        for li, (ents, _) in enumerate(lv):
            for e in ents:
                per_id[e["id"]].append((li, e["src"], content(e)))
        def copied(li, e):
            if e["src"] == "?":
                return True
            for lj, src, cont in per_id[e["id"]]:
                if lj != li and (src == "?" or cont == content(e)):
                    return True
            return False
        out = []
        for li, (ents, sub) in enumerate(lv):
            # a sorted LIST (duplicates kept): the implementation's FlatMap cannot hold a key twice, so a
            # duplicate key in the model's list encoding would show up as a difference
            ids = sorted(hexs(e["id"]) for e in ents if e["src"] in EXPLICIT and not copied(li, e))
            out.append("[%s]%s" % (" ".join(ids), "" if sub is None else " > " + hexs(sub)))
        return "ok " + " ".join(out)
    if k == "err":
        alts = p["ekind"].split("|")
        if len(alts) == 1 and alts[0] in TRACKED:
            return "err " + alts[0]
        return "err"
    return k


# ------------------------------------------------------------------ relgraph generator
POOL = [b"v", b"w", b"1"]
R_LONGS = [b"aa", b"bb", b"cc", b"dd", b"ee", b"ff", b"gg"]
R_SHORTS = "abcdefg"
S_LONGS = [b"xa", b"xb", b"xc"]
S_SHORTS = "xyz"
chance = gen_cmd.chance
pick = gen_cmd.pick


def _mk_opt(rng, aid, long_, short, envname):
    a = {"id": aid, "long": long_, "short": short if chance(rng, 0.8) else None, "flags": set()}
    if chance(rng, 0.6):
        a["action"] = "settrue"
    else:
        a["action"] = "set"
        if chance(rng, 0.25):
            a["default"] = [pick(rng, POOL + [b"d"])]
        if chance(rng, 0.15):
            a["flags"].add("icase")
    if chance(rng, 0.12):
        if a["action"] == "set":
            val = None if chance(rng, 0.15) else pick(rng, POOL)
        else:
            val = pick(rng, [b"true", b"true", b"true", b"false", None])
        a["env"] = (envname, val)
    return a


def _relations(rng, own, arg_targets, groups, stats, allow_required=True):
    """decorate the non-global arguments `own` with relations over arg_targets (ids) and groups"""
    def others(a, with_groups=True, k=1, clean=False):
        pool = [t for t in arg_targets if t != a["id"]]
        gpool = [g["id"] for g in groups if a["id"] not in g["args"]]      # not its own group (degenerate)
        if with_groups and gpool and chance(rng, 0.3):
            pool = gpool
        if clean and chance(rng, 0.8):
            # mostly avoid contradictory declarations (required-if something it conflicts with / overrides)
            bad = set((a.get("conflicts") or []) + (a.get("overrides") or []))
            for g in groups:
                if g["id"] in bad:
                    bad |= set(g["args"])
            pool = [t for t in pool if t not in bad] or pool
        if not pool:
            return []
        return list(dict.fromkeys(pick(rng, pool) for _ in range(k)))

    for a in own:
        if "global" in a["flags"]:
            continue
        pos = not (a.get("long") or a.get("short"))
        if chance(rng, 0.3):
            t = others(a, k=pick(rng, [1, 1, 2]))
            if t:
                a["conflicts"] = t
        if chance(rng, 0.2) and not pos:
            t = others(a, with_groups=False)
            if groups and chance(rng, 0.04):
                t = [pick(rng, groups)["id"]]
                stats["rel"]["overrides->group"] += 1
            if t:
                a["overrides"] = t
        if chance(rng, 0.3):
            t = others(a, k=pick(rng, [1, 1, 2]))
            if t:
                a["requires"] = t
        if chance(rng, 0.2) and a.get("action") != "settrue":
            t = others(a)
            if t:
                a["requires_if"] = [(pick(rng, POOL), t[0])]
                if chance(rng, 0.2):
                    t2 = others(a)
                    if t2:
                        a["requires_if"].append((pick(rng, POOL), t2[0]))
        if "required" in a["flags"]:
            continue
        r = rng.random()

        def pairs(k):
            return [(t, pick(rng, POOL)) for _ in range(k) for t in others(a, with_groups=False, clean=True)]

        if r < 0.12:
            a["r_if"] = pairs(pick(rng, [1, 1, 2]))
        elif r < 0.22:
            a["r_if_all"] = pairs(pick(rng, [1, 2, 2, 3]))
        elif r < 0.34:
            a["r_unless"] = others(a, k=pick(rng, [1, 1, 2]), clean=True)
        elif r < 0.44:
            a["r_unless_all"] = others(a, k=pick(rng, [1, 2, 2, 3]), clean=True)
        elif r < 0.48:
            a["r_unless"] = others(a, k=pick(rng, [1, 2]), clean=True)
            a["r_unless_all"] = others(a, k=pick(rng, [2, 3]), clean=True)
        elif r < 0.60 and allow_required and not pos:
            a["flags"].add("required")
        if chance(rng, 0.06) and not pos:
            a["flags"].add("exclusive")


def _groups(rng, prefix, arg_ids, n):
    out = []
    for k in range(n):
        mem = [i for i in arg_ids if chance(rng, 0.4)]
        if not mem:
            mem = [pick(rng, arg_ids)]
        g = {"id": ("%s%d" % (prefix, k)).encode(), "args": mem[:4]}
        if chance(rng, 0.5):
            g["multiple"] = True
        if chance(rng, 0.25):
            g["required"] = True
        out.append(g)
    for g in out:
        tg = [i for i in arg_ids if i not in g["args"]]
        og = [h["id"] for h in out if h is not g and not (set(h["args"]) & set(g["args"]))]
        if chance(rng, 0.3) and (tg or og):      # never against an own member (degenerate: the member conflicts with itself)
            g["conflicts"] = [pick(rng, og) if og and (not tg or chance(rng, 0.3)) else pick(rng, tg)]
        if chance(rng, 0.3) and (tg or og):
            g["requires"] = [pick(rng, og) if og and (not tg or chance(rng, 0.3)) else pick(rng, tg)]
    return out


def new_stats():
    return {"commands": 0, "cases": 0, "rel": collections.Counter(), "levels_with": collections.Counter(),
            "settings": collections.Counter(), "args_per_level": collections.Counter(),
            "groups_per_level": collections.Counter(), "argv_len": collections.Counter(),
            "argv_plan": collections.Counter()}


REL_KEYS = ("conflicts", "overrides", "requires", "requires_if", "r_if", "r_if_all", "r_unless", "r_unless_all")


def _count_cmd(c, stats):
    stats["args_per_level"][str(len(c["args"]))] += 1
    stats["groups_per_level"][str(len(c["groups"]))] += 1
    seen = set()
    for a in c["args"]:
        for k in REL_KEYS:
            if a.get(k):
                stats["rel"][k] += len(a[k])
                seen.add(k)
        if a.get("r_unless") and a.get("r_unless_all"):
            seen.add("r_unless+r_unless_all")
        for f in ("required", "exclusive", "global", "last", "icase"):
            if f in a["flags"]:
                stats["rel"]["flag:" + f] += 1
                seen.add("flag:" + f)
        if a.get("env") and a["env"][1] is not None:
            seen.add("env-value")
        if a.get("default"):
            seen.add("default")
    for g in c["groups"]:
        seen.add("group")
        for k in ("required", "multiple", "conflicts", "requires"):
            if g.get(k):
                stats["rel"]["group:" + k] += 1
                seen.add("group:" + k)
        if not g.get("multiple"):
            seen.add("group:non-multiple")
    for k in seen:
        stats["levels_with"][k] += 1
    for s in c["settings"]:
        stats["settings"][s] += 1
    for s in c["subs"]:
        _count_cmd(s, stats)


def gen_relcmd(rng, stats):
    c = {"name": b"p", "args": [], "groups": [], "subs": [], "settings": [], "aliases": []}
    n = rng.randint(3, 7)
    npos = pick(rng, [0, 0, 0, 0, 1, 1, 2])
    nopt = max(1, n - npos)
    opts = [_mk_opt(rng, b"a%d" % k, R_LONGS[k], R_SHORTS[k], b"VP_R_a%d" % k) for k in range(nopt)]
    has_sub = chance(rng, 0.3)
    glob = None
    if has_sub and chance(rng, 0.5):
        glob = pick(rng, opts)
        glob["flags"].add("global")
    pos = []
    schema = None
    if npos:
        schema = pick(rng, ["o", "r", "oo", "ro", "rr", "ol", "oL", "rL", "L"] if npos == 2 else ["o", "r", "L", "l"])
        if schema == "oo" and chance(rng, 0.4):
            schema = "or"       # needs allow_missing_positional
            c["settings"].append("allow_missing_positional")
        for k, ch in enumerate(schema):
            p = {"id": b"p%d" % k, "flags": set()}
            if ch in "rL":
                p["flags"].add("required")
            if ch in "lL":
                p["flags"].add("last")
            elif chance(rng, 0.15):
                p["default"] = [b"pd"]
            pos.append(p)
    c["args"] = opts + pos
    arg_ids = [a["id"] for a in c["args"]]
    nong = [a["id"] for a in c["args"] if "global" not in a["flags"]]
    c["groups"] = _groups(rng, "g", nong or arg_ids, pick(rng, [0, 0, 1, 1, 1, 2, 2, 3]))
    _relations(rng, c["args"], arg_ids, c["groups"], stats)
    # a requires-chain whose middle links conflict with another argument
    cand = [a for a in opts if "global" not in a["flags"]]
    if len(cand) >= 4 and chance(rng, 0.3):
        L = pick(rng, [3, 3, 4]) if len(cand) >= 5 else 3
        ch = rng.sample(cand, L)
        rest = [a for a in cand if a not in ch]
        z = pick(rng, rest)
        for i in range(L - 1):
            ch[i]["requires"] = list(dict.fromkeys((ch[i].get("requires") or []) + [ch[i + 1]["id"]]))
            ch[i]["requires"] = [x for x in ch[i]["requires"] if x != ch[i]["id"]]
        for m in ch[1:-1]:
            if chance(rng, 0.5):
                m["conflicts"] = list(dict.fromkeys((m.get("conflicts") or []) + [z["id"]]))
            else:
                z["conflicts"] = list(dict.fromkeys((z.get("conflicts") or []) + [m["id"]]))
        stats["rel"]["requires-chain"] += 1
    if has_sub:
        if chance(rng, 0.5):
            c["settings"].append("subcommand_negates_reqs")
        if chance(rng, 0.15):
            c["settings"].append("args_conflicts_with_subcommands")
        s = {"name": b"sub", "args": [], "groups": [], "subs": [], "settings": [], "aliases": []}
        k = rng.randint(1, 3)
        s["args"] = [_mk_opt(rng, b"s%d" % j, S_LONGS[j], S_SHORTS[j], b"VP_R_s%d" % j) for j in range(k)]
        s_ids = [a["id"] for a in s["args"]]
        s["groups"] = _groups(rng, "h", s_ids, pick(rng, [0, 0, 1]))
        _relations(rng, s["args"], s_ids + ([glob["id"]] if glob else []), s["groups"], stats)
        c["subs"].append(s)
    if any("last" in a["flags"] and "required" in a["flags"] for a in c["args"]) and c["subs"] \
            and "subcommand_negates_reqs" not in c["settings"]:
        c["settings"].append("subcommand_negates_reqs")
    stats["commands"] += 1
    _count_cmd(c, stats)
    return c


def _value_for(rng, a):
    if "icase" in a["flags"]:
        return pick(rng, POOL + [b"V", b"W"])
    if not (a.get("long") or a.get("short")):
        return pick(rng, POOL + [b"zz"])
    return pick(rng, POOL)


def plan_level(rng, cmd, inherited, satisfy, has_sub):
    """choose which arguments to put on the command line of one level: {id: value or None (flag)}"""
    proto = Level(cmd, inherited, [], has_sub, False)
    args = proto.args
    forced = {i: a["env"][1] for i, a in args.items() if a.get("env") and a["env"][1] is not None}
    # values that some value test of the level names for an argument (so that Equals predicates fire)
    tested = collections.defaultdict(list)
    for a in args.values():
        for val, _x in a.get("requires_if") or []:
            tested[a["id"]].append(val)
        for o, val in (a.get("r_if") or []) + (a.get("r_if_all") or []):
            tested[o].append(val)

    def value(a):
        t = tested.get(a["id"])
        if t and chance(rng, 0.6):
            v = pick(rng, t)
            return v.upper() if "icase" in a["flags"] and chance(rng, 0.3) else v
        return _value_for(rng, a)

    chosen = {}
    for i, a in args.items():
        if chance(rng, 0.4):
            chosen[i] = None if a.get("action") == "settrue" else value(a)
    if not satisfy:
        return chosen

    def ents():
        out = []
        for i, v in chosen.items():
            out.append({"id": i, "src": "cmdline", "idx": [], "occ": [[v if v is not None else b"true"]]})
        for i, v in forced.items():
            if i not in chosen:
                out.append({"id": i, "src": "env", "idx": [], "occ": [[v]]})
        return out

    for _ in range(10):
        L = Level(cmd, inherited, ents(), has_sub, False)
        fails = L.check()[0]
        if not fails:
            break
        tag, _msg, involved, missing = pick(rng, fails)
        removable = [i for i in involved if i in chosen]
        addable = [i for i in missing if i in args]
        if addable and (not removable or chance(rng, 0.65)):
            i = pick(rng, addable)
            chosen[i] = None if args[i].get("action") == "settrue" else value(args[i])
        elif removable:
            del chosen[pick(rng, removable)]
        else:
            break
    return chosen


def render_level(rng, cmd, inherited, chosen):
    args = dict((a["id"], a) for a in inherited)
    args.update((a["id"], a) for a in cmd["args"])

    def item(a, v):
        names = []
        if a.get("long"):
            names += [b"--" + a["long"]] * 2
        if a.get("short"):
            names.append(b"-" + a["short"].encode())
        name = pick(rng, names)
        if v is None:
            return [name]
        r = rng.random()
        if name.startswith(b"--"):
            return [name + b"=" + v] if r < 0.4 else [name, v]
        return [name + v] if r < 0.3 else ([name + b"=" + v] if r < 0.45 else [name, v])

    items = []
    for i, v in chosen.items():
        a = args[i]
        if a.get("long") or a.get("short"):
            items.append((i, item(a, v)))
    rng.shuffle(items)
    # override pairs: put an overridden argument before (mostly) or after its overrider
    for a in list(args.values()):
        for b in a.get("overrides") or []:
            if a["id"] in chosen and b in args and b not in chosen and b != a["id"] and chance(rng, 0.5) \
                    and (args[b].get("long") or args[b].get("short")):
                at = [k for k, (i, _) in enumerate(items) if i == a["id"]]
                if not at:
                    continue
                vb = None if args[b].get("action") == "settrue" else _value_for(rng, args[b])
                k = rng.randint(0, at[0]) if chance(rng, 0.85) else rng.randint(at[0] + 1, len(items))
                items.insert(k, (b, item(args[b], vb)))
    if items and chance(rng, 0.04):
        items.insert(rng.randrange(len(items) + 1), pick(rng, items))
    toks = []
    posl = [(a, chosen[a["id"]]) for a in cmd["args"] if not (a.get("long") or a.get("short")) and a["id"] in chosen]
    slots = [[] for _ in range(len(posl) + 1)]
    dd = None
    for k, (a, _) in enumerate(posl):
        if "last" in a["flags"]:
            dd = k
    for it in items:
        hi = len(slots) if dd is None else dd + 1
        slots[rng.randrange(hi)].append(it[1])
    for k, (a, v) in enumerate(posl):
        for it in slots[k]:
            toks += it
        if dd == k:
            toks.append(b"--")
        toks.append(v)
    for it in slots[len(posl)]:
        toks += it
    return toks


def gen_relargv(rng, c, stats, p_satisfy=0.5):
    satisfy = chance(rng, p_satisfy)
    use_sub = bool(c["subs"]) and chance(rng, 0.5)
    stats["argv_plan"]["%s%s" % ("repaired" if satisfy else "random", "+sub" if use_sub else "")] += 1
    root = plan_level(rng, c, [], satisfy, use_sub)
    glob = [a for a in c["args"] if "global" in a["flags"]]
    toks = None
    if use_sub:
        s = c["subs"][0]
        sub = plan_level(rng, s, glob, satisfy, False)
        for g in glob:   # a global argument is written at one level only
            if g["id"] in root and g["id"] in sub:
                del (root if chance(rng, 0.5) else sub)[g["id"]]
        has_last = any("last" in a["flags"] and a["id"] in root for a in c["args"])
        if has_last:
            for a in c["args"]:
                if "last" in a["flags"]:
                    root.pop(a["id"], None)
        toks = render_level(rng, c, [], root) + [b"sub"] + render_level(rng, s, glob, sub)
    else:
        toks = render_level(rng, c, [], root)
    stats["argv_len"][str(min(len(toks), 12))] += 1
    return [b"prog"] + toks


def gen_relgraph(rng, n, stats, per_cmd=4):
    out = []
    while len(out) < n:
        c = gen_relcmd(rng, stats)
        for _ in range(per_cmd):
            out.append(gen_cmd.case_sx(c, gen_relargv(rng, c, stats)))
    stats["cases"] = n
    return out[:n]


# ------------------------------------------------------------------ round 3: directed generator for three clauses
# (a) a group (multiple or not) that conflicts with another GROUP: members of both on the line;
# (b) required_if_eq* AND required_unless_present* on ONE argument (a union: either family demands it);
# (c) an Equals condition on an Append option that occurs several times (every occurrence counts, not the last).
C3_LONGS = [b"aa", b"bb", b"cc", b"dd", b"ee", b"ff", b"oo", b"qq", b"xx", b"yy"]


def gen_clauses3_cmd(rng, stats):
    c = {"name": b"p", "args": [], "groups": [], "subs": [], "settings": [], "aliases": []}
    flags = [{"id": b"f%d" % k, "long": C3_LONGS[k], "short": None, "flags": set(), "action": "settrue"} for k in range(rng.randint(4, 6))]
    o = {"id": b"o", "long": b"oo", "short": None, "flags": set(), "action": "append" if chance(rng, 0.7) else "set"}
    q = {"id": b"q", "long": b"qq", "short": None, "flags": set(), "action": pick(rng, ["append", "set"])}
    if chance(rng, 0.15):
        o["flags"].add("icase")
    x = {"id": b"x", "long": b"xx", "short": None, "flags": set(), "action": "settrue"}
    y = {"id": b"y", "long": b"yy", "short": None, "flags": set(), "action": "settrue"}
    c["args"] = flags + [o, q, x, y]
    fid = [f["id"] for f in flags]
    # (a) two or three disjoint groups over the flags, one conflicting with another group
    rng.shuffle(fid)
    cut = rng.randint(1, 2)
    g0 = {"id": b"g0", "args": fid[:cut]}
    g1 = {"id": b"g1", "args": fid[cut:cut + rng.randint(1, 2)]}
    for g in (g0, g1):
        if chance(rng, 0.6):
            g["multiple"] = True
    g0["conflicts"] = [b"g1"] + ([pick(rng, [b"x", b"y"])] if chance(rng, 0.2) else [])
    if chance(rng, 0.2):
        g1["conflicts"] = [b"g0"]
    if chance(rng, 0.2):
        g1["requires"] = [b"y"]
    c["groups"] = [g0, g1]
    rest = [i for i in fid if i not in g0["args"] and i not in g1["args"]]
    u = rest[0] if rest else b"y"
    # (b) both families on x
    r = rng.random()
    if r < 0.6:
        x["r_if"] = [(b"o", pick(rng, POOL))] + ([(b"q", pick(rng, POOL))] if chance(rng, 0.3) else [])
    else:
        x["r_if_all"] = [(b"o", pick(rng, POOL))] + ([(b"q", pick(rng, POOL))] if chance(rng, 0.5) else [])
    r = rng.random()
    if r < 0.6:
        x["r_unless"] = [u] + ([b"y"] if chance(rng, 0.3) and u != b"y" else [])
    elif r < 0.9:
        x["r_unless_all"] = list(dict.fromkeys([u, b"y"]))
    else:
        x["r_unless"] = [u]
        x["r_unless_all"] = list(dict.fromkeys([b"y", u]))
    # (c) requires_if of the Append option itself, judged on all its occurrences
    if chance(rng, 0.6):
        o["requires_if"] = [(pick(rng, POOL), b"y")]
    if chance(rng, 0.3):
        q["requires"] = [b"o"]
    stats["commands"] += 1
    _count_cmd(c, stats)
    return c, u


def gen_clauses3_argv(rng, c, u, stats):
    toks = []
    g0, g1 = c["groups"]
    byid = {a["id"]: a for a in c["args"]}

    def flag(i):
        return b"--" + byid[i]["long"]

    items = []
    plan = rng.random()
    if plan < 0.45:      # members of both groups
        items.append([flag(pick(rng, g0["args"]))])
        items.append([flag(pick(rng, g1["args"]))])
    elif plan < 0.8:
        items.append([flag(pick(rng, pick(rng, [g0, g1])["args"]))])
    for i in (u, b"y", b"x"):
        if chance(rng, 0.4) and [flag(i)] not in items:
            items.append([flag(i)])
    for oid in (b"o", b"q"):
        a = byid[oid]
        k = pick(rng, [0, 1, 1, 2, 2, 3]) if a["action"] == "append" else pick(rng, [0, 1, 1])
        for _ in range(k):
            v = pick(rng, POOL + [b"V", b"x"])
            items.append([flag(oid) + b"=" + v] if chance(rng, 0.3) else [flag(oid), v])
    rng.shuffle(items)
    for it in items:
        toks += it
    stats["argv_len"][str(min(len(toks), 12))] += 1
    return [b"prog"] + toks


def gen_clauses3(rng, n, stats, per_cmd=6):
    out = []
    while len(out) < n:
        c, u = gen_clauses3_cmd(rng, stats)
        for _ in range(per_cmd):
            out.append(gen_cmd.case_sx(c, gen_clauses3_argv(rng, c, u, stats)))
    stats["cases"] = n
    return out[:n]


R_BOUNDARY = [b"--", b"-", b"", b"--aa", b"--aa=", b"--aa=v", b"--a", b"--bb=w", b"-a", b"-ab", b"-abc", b"-bv", b"-b=v", b"-b",
              b"--cc", b"-c", b"sub", b"su", b"help", b"--help", b"-h", b"--xa", b"-x", b"-xy", b"v", b"w", b"1", b"V",
              b"--gg", b"--aa=V", b"-a=", b"--=", b"\xff", b"--aa=\xff"]


def gen_adversarial(rng, n, stats):
    out = []
    while len(out) < n:
        c = gen_relcmd(rng, stats)
        for _ in range(4):
            toks = gen_relargv(rng, c, stats, 0.85)[1:]
            r = rng.random()
            if r < 0.5:
                for _ in range(pick(rng, [1, 1, 1, 2])):
                    toks = gen_cmd.mutate(rng, toks)
            elif r < 0.9:
                for _ in range(pick(rng, [1, 1, 1, 2])):
                    toks.insert(rng.randrange(len(toks) + 1), pick(rng, R_BOUNDARY + gen_cmd.BOUNDARY[:8]))
            else:
                toks = [pick(rng, R_BOUNDARY) for _ in range(rng.randrange(0, 5))]
            out.append(gen_cmd.case_sx(c, [b"prog"] + toks))
    stats["cases"] = n
    return out[:n]


SHARED_PROFILE = dict(relations=0.5, groups=0.6, ignore_errors=0.02, invalid=0.01)


def shared_stats(cases):
    st = new_stats()
    seen = set()
    for c in cases:
        cmd, argv = decode_case(c)
        st["argv_len"][str(min(len(argv), 12))] += 1
        key = c[:c.rfind("(argv")]
        if key in seen:
            continue
        seen.add(key)
        st["commands"] += 1
        _count_cmd(cmd, st)
    st["cases"] = len(cases)
    return st


def new_runtime():
    return {"outcomes": collections.Counter(), "ok_checked": 0, "ok_with_live_relation": 0, "ok_multi_level": 0,
            "rule_live_cases": collections.Counter(), "rule_live_instances": collections.Counter(),
            "rule_weakened_by_unknown": collections.Counter(), "oracle_failures": 0}


SIZES = {"quick": (24000, 8000, 6000), "thorough": (240000, 80000, 60000)}
SIZES_C3 = {"quick": 3000, "thorough": 30000}


# ------------------------------------------------------------------ directed: relations BETWEEN global arguments
import hashlib as _hashlib

KIND_RE = re.compile(r" \(x-kind (\w+) (\w+)\)")


def mark_kind(case, kind):
    """`(x-kind KIND SUM)` inside the command spec (ignored by both builders): the outcome the documented relations demand
    for this line, by construction; the checksum covers the rest of the case, so a shrunk or edited case loses the claim"""
    h = _hashlib.sha1(case.encode()).hexdigest()[:12]
    i = case.index(") (argv")
    return case[:i] + " (x-kind %s %s)" % (kind, h) + case[i:]


def directed_globals():
    """Global arguments keep their relations inside every subcommand they are propagated into, whichever of the two was
    declared first: `--quiet` conflicts with `--verbose`, `--user` requires `--token` (seeded change seed4/C03-2 pruned the
    relation lists of the propagated copy to the ids the subcommand already knew, losing relations to later-declared
    globals).  The general oracle is three-valued about the presence of globals in multi-level results, so these lines
    carry the demanded outcome."""
    def g(i, **kw):
        a = {"id": i, "long": i, "flags": {"global"}}
        a.update(kw)
        return a
    quiet = g(b"quiet", action="settrue", conflicts=[b"verbose"])
    verbose = g(b"verbose", action="settrue")
    user = g(b"user", action="set", requires=[b"token"])
    token = g(b"token", action="set")
    out = []
    for order in ([quiet, verbose, user, token], [verbose, quiet, token, user], [user, quiet, token, verbose]):
        c = {"name": b"p", "about": b"A:p", "groups": [], "aliases": [], "settings": [], "args": list(order),
             "subs": [{"name": b"run", "about": b"A:run", "groups": [], "aliases": [], "settings": [], "args": [],
                       "subs": [{"name": b"now", "about": b"A:now", "groups": [], "aliases": [], "settings": [], "args": [],
                                 "subs": []}]}]}
        for line, kind in (([b"--quiet", b"--verbose"], "ArgumentConflict"), ([b"run", b"--quiet", b"--verbose"], "ArgumentConflict"),
                           ([b"run", b"--verbose", b"--quiet"], "ArgumentConflict"),
                           ([b"run", b"now", b"--quiet", b"--verbose"], "ArgumentConflict"),
                           ([b"--user", b"u"], "MissingRequiredArgument"), ([b"run", b"--user", b"u"], "MissingRequiredArgument"),
                           ([b"run", b"now", b"--user=u"], "MissingRequiredArgument"),
                           ([b"run", b"--user", b"u", b"--token", b"t"], "ok"), ([b"run", b"now", b"--token", b"t", b"--user", b"u"], "ok"),
                           ([b"run", b"--quiet"], "ok"), ([b"run", b"now", b"--verbose"], "ok"), ([b"run", b"now"], "ok")):
            out.append(mark_kind(gen_cmd.case_sx(c, [b"prog"] + line), kind))
    return out


def directed_oracle(case, impl):
    m = KIND_RE.search(case)
    if not m:
        return None
    plain = case[:m.start()] + case[m.end():]
    if _hashlib.sha1(plain.encode()).hexdigest()[:12] != m.group(2):
        return None
    r = parse_result(impl)
    got = "ok" if r["kind"] == "ok" else (r.get("ekind") if r["kind"] == "err" else r["kind"])
    if got != m.group(1):
        return "the declared relations between the global arguments demand %s for this line, got %s" % (m.group(1), got)
    return None


def streams(tier, rng):
    n_rel, n_sh, n_adv = SIZES.get(tier, SIZES["quick"])
    out = []
    dg = directed_globals()
    out.append(Stream("directed-globals", dg, oracle=directed_oracle, area="parse", project=project,
                      nontrivial=lambda c, r: bool(r) and r.startswith("err "), describe={"cases": len(dg)}))
    st = new_stats()
    cases = gen_relgraph(rng, n_rel, st)
    d = {"generated": st, "runtime": new_runtime()}
    out.append(Stream("relgraph", cases, oracle=make_oracle(d), area="parse", project=project, nontrivial=nontrivial, describe=d))
    cases = parse_streams.gen_cases(rng, n_sh, SHARED_PROFILE)
    d = {"generated": shared_stats(cases), "runtime": new_runtime()}
    out.append(Stream("shared", cases, oracle=make_oracle(d), area="parse", project=project, nontrivial=nontrivial, describe=d))
    st = new_stats()
    cases = gen_adversarial(rng, n_adv, st)
    d = {"generated": st, "runtime": new_runtime()}
    out.append(Stream("adversarial", cases, oracle=make_oracle(d), area="parse", project=project, nontrivial=nontrivial, describe=d))
    st = new_stats()
    cases = gen_clauses3(rng, SIZES_C3.get(tier, SIZES_C3["quick"]), st)
    d = {"generated": st, "runtime": new_runtime()}
    out.append(Stream("clauses3", cases, oracle=make_oracle(d), area="parse", project=project, nontrivial=nontrivial, describe=d))
    return out
