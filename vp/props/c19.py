"""C19: man pages always render, cover every visible item, and keep user text as text."""
import re

from ..core import hexs, unhex, sx_parse, sx_str
from ..runner import Stream

ID = "C19"
AREAS = ["man"]
RULE = ("man: random valid command trees (root with 0-6 arguments -- flags, options, positionals, with/without "
        "values, value names, defaults, env, possible values with/without help, help headings -- and 0-4 "
        "subcommands; hidden arguments / subcommands / possible values; help/version flags and the help "
        "subcommand enabled or disabled; Man builder overrides) with EVERY text slot (names, about, help, "
        "after-help, author, version, headings, value names, defaults, env, possible values, Man title/source/...) "
        "filled from an adversarial pool: leading '.', leading \"'\", '.so /etc/passwd', \"'br\", backslashes "
        "('\\\\fB', trailing '\\\\'), embedded newline followed by '.' or \"'\", empty, only spaces, dashes, double "
        "quotes, non-ASCII (incl. Unicode spaces), very long.  Each name-like string carries a unique alphanumeric "
        "marker.  Every case also carries its 'twin': the same tree with innocuous text of the same emptiness / "
        "blank-line pattern in every slot, rendered by the implementation for the oracle.  Streams: 'man' "
        "(structured), 'man-slots' (one adversarial text at a time swept over every slot of a fixed rich tree), "
        "'man-ansi' (C0 controls / ANSI escapes in the styled slots; oracle only, outside the model's class).  "
        "A case is non-trivial when at least one slot holds a text that starts with a control character, contains "
        "a backslash, or contains a newline followed by a control character; distinct = distinct case text.")
TRUSTED = [
    "Coq 8.16.1 kernel (coqc); no native_compute; theorems C19_* are 'Closed under the global context'",
    "extraction: ExtrOcamlBasic only, no Extract Constant; OCaml driver ocaml/man_driver.ml + zarith conversions",
    "correspondence: vp/props/c19.py generators, harness/src/modes/man.rs (clap_mangen::Man::new(cmd).render), "
    "byte-exact comparison of the rendered page",
    "translators/man_tables.py: regex extraction of the roff crate's escape chains / literals and of clap_mangen's "
    "and clap's literals (Gen/RoffTables.v, Gen/ManTables.v), regenerated on every run",
    "modelled not verified: str::replace, str::lines, char::is_whitespace (transcribed); anstream::strip_str, "
    "to_string_lossy, to_uppercase/to_lowercase are the identity / ASCII-only on the generated class",
    "what a roff processor treats as a request: a line whose first character is '.' or \"'\" (groff(7)); "
    "continuation lines (a control line ending in a backslash) are outside the model",
]
ASSUMPTIONS = [
    "styled slots (about, help, after-help, possible-value help) contain no C0 control other than TAB/LF/FF/CR and no "
    "DEL, so that StyledStr::to_string (anstream::strip_str) is the identity; the 'man-ansi' stream covers the rest "
    "with the direct oracle only",
    "strings are valid UTF-8 (the builder API takes &str / with the `string` feature String); env and default "
    "values are valid UTF-8, so to_string_lossy is the identity",
    "help headings / subcommand value names: non-ASCII characters used by the generator have no case mapping "
    "(the model's to_uppercase/to_lowercase are ASCII-only)",
    "the command is valid (clap's debug assertions accept it); cases the implementation rejects are counted and "
    "reported as INVALID, not judged",
]
TECHNIQUE = ("Coq proof (byte-exact model of the roff crate's rendering and of clap_mangen's document construction; "
             "induction over inlines / characters; state machine for control lines) + extracted-model/implementation "
             "correspondence on the whole page")
LEVEL_TEXT = ("Machine-checked theorems (Coq 8.16, closed under the global context) about an executable, byte-exact model "
              "of the vendored roff crate's Line::render / escaping and of clap_mangen's Man::render: for every command "
              "and every string in every text slot the control lines of the page are exactly those of the generator's "
              "own Control elements and line breaks (no line derived from a text line starts with '.' or \"'\"), the "
              "request names are from the generator's fixed set, text-only slots can influence the control lines only "
              "through the blank-line pattern of the description, every visible option / positional / subcommand "
              "contributes its name and the page is a function of the visible items only, and the unwrap/expect sites "
              "are unreachable for built commands.  The model is tied to the real crates on every check by comparing the "
              "extracted model's page byte for byte with clap_mangen's on generated command trees with adversarial text in "
              "every slot, and an independent python oracle written from the property text (twin rendering with innocuous "
              "text, markers for visible/hidden items, escape discipline) is applied to the implementation's output.")
LEVEL_NOTE = ("Trusted: Coq kernel, extraction (ExtrOcamlBasic), OCaml driver, Rust harness, generators, table extractor; "
              "anstream::strip_str / to_string_lossy / Unicode case mapping assumed to be the identity resp. ASCII-only on "
              "the generated class; roff's notion of a request line (first character '.' or \"'\").")

CC = (".", "'")

# ------------------------------------------------------------------------------------------ text pool
POOL = {
    "plain": ["xx", "alpha beta", "Some help text.", "v1"],
    "lead_dot": [".so /etc/passwd", ".TH evil 1", ".", "..", ".br"],
    "lead_apos": ["'br", "'", "'so x", "''"],
    "backslash": ["\\fBbold", "a\\", "\\n(.g", "\\&", "\\\\", "\\*(Aq", "x\\\ny", "\\"],
    "nl_cc": ["line\n.so /etc/passwd", "a\n'br", "\n.x", "a\n\n.b", "a\r\n.b", "x\n.", "1.0\n.SH PWNED", "\n'"],
    "nl": ["x\n", "\n", "a\nb", "a\n\nb", " \n \nz", "\n\n", "a\r\nb\r", "p\n\t\nq"],
    "empty": [""],
    "spaces": [" ", "   ", "\t", " . ", " '"],
    "dash": ["-", "--x", "a-b", "-\n-"],
    "quote": ["\"", "a \"b\" c", "\" .so", "a\"\n.b"],
    "nonascii": ["\u00e9", "\u65e5\u672c\u8a9e", "\u2192 x", "\u00a0", "\u00a0.x", "\u0085", "\u3000\n.y", "\u00e9\n'z", "\u2028.x"],
    "long": ["x" * 300, ".y " * 100, ("ab\n.c" * 60)],
}
CLASSES = list(POOL)
# classes allowed per slot kind
ANY = CLASSES
NO_EMPTY = [c for c in CLASSES if c != "empty"]
CASELESS_OK = CLASSES        # the non-ASCII pool entries used below have no case mapping except e-acute
MARK = "Qz%dK"               # unique alphanumeric marker, untouched by any escaping / case mapping of its digits


def text_class(s):
    """the adversarial features of a string (for the distribution and for non-triviality)"""
    f = []
    if s == "":
        f.append("empty")
    if s[:1] in CC:
        f.append("lead_cc")
    if "\\" in s:
        f.append("backslash")
    if re.search(r"\n[.']", s):
        f.append("nl_cc")
    elif "\n" in s:
        f.append("nl")
    if "-" in s:
        f.append("dash")
    if '"' in s:
        f.append("quote")
    if any(ord(c) > 127 for c in s):
        f.append("nonascii")
    if len(s) > 100:
        f.append("long")
    if s.strip() == "" and s != "":
        f.append("spaces")
    return f or ["plain"]


class Gen:
    """one command tree; keeps the marker counter and the slot/class statistics"""

    def __init__(self, rng, stats, safe_ctl=False, classes=None):
        self.rng = rng
        self.k = 0
        self.stats = stats
        self.safe_ctl = safe_ctl      # keep newlines out of control-argument slots
        self.classes = classes

    def raw(self, slot, classes=ANY, ascii_case=False):
        rng = self.rng
        cls = rng.choice(self.classes or classes)
        if cls not in classes:
            cls = rng.choice(classes)
        s = rng.choice(POOL[cls])
        if ascii_case and any(ord(c) > 127 and c.upper() + c.lower() != c + c for c in s):
            s = "\u65e5\u672c"
        return s

    def note(self, slot, s):
        for f in text_class(s):
            key = slot + ":" + f
            self.stats[key] = self.stats.get(key, 0) + 1

    def text(self, slot, classes=ANY):
        s = self.raw(slot, classes)
        self.note(slot, s)
        return s

    def marker(self):
        self.k += 1
        return MARK % self.k

    def named(self, slot, classes=ANY, ctl=False, ascii_case=False, no_lead_dash=False):
        """adversarial text with a unique marker spliced in (before, after or in the middle)"""
        s = self.raw(slot, classes, ascii_case)
        if len(s) > 40:
            s = s[:40]
        if ctl and self.safe_ctl:
            s = s.replace("\n", " ")
        m = self.marker()
        how = self.rng.randrange(3)
        if how == 0 or s == "":
            s = s + m
        elif how == 1 and not no_lead_dash:
            s = m + s
        else:
            cut = self.rng.randrange(len(s) + 1)
            s = s[:cut] + m + s[cut:]
        if no_lead_dash and s.startswith("-"):
            s = m + s
        self.note(slot, s)
        return s


SHORTS = list("abcdefgijklmnopqrstuvwxyzABCDEFGHIJKLMNOPQRSTUWXYZ0123456789") + [".", "'", "\\", "\"", "é", "日", "?", " ", "&"]


def gen_arg(g, kind, used_shorts, headings, hidden, required_ok):
    """kind: flag | option | positional ; returns the item list of `(arg ...)`"""
    rng = g.rng
    pre = "harg" if hidden else "arg"
    items = [["id", hexs(g.named(pre + ".id"))]]
    takes = kind != "flag"
    if kind != "positional":
        mode = rng.choice(["short", "long", "both", "both", "long"])
        if mode in ("short", "both"):
            cands = [c for c in SHORTS if c not in used_shorts]
            c = rng.choice(cands)
            used_shorts.add(c)
            g.note(pre + ".short", c)
            items.append(["short", hexs(c)])
        if mode in ("long", "both"):
            items.append(["long", hexs(g.named(pre + ".long", NO_EMPTY, no_lead_dash=True))])
    if kind == "flag":
        items.append(["action", rng.choice(["settrue", "settrue", "setfalse", "count"])])
    else:
        items.append(["action", rng.choice(["set", "set", "append"])])
    nvn = 0
    if rng.random() < (0.6 if takes else 0.15):
        nvn = rng.choice([1, 1, 1, 2, 3]) if kind == "option" else 1
        items.append(["value-names"] + [hexs(g.named(pre + ".value_name")) for _ in range(nvn)])
    if kind == "option" and rng.random() < 0.35:
        lo, hi = rng.choice([(1, 1), (0, 1), (1, 3), (2, 2), (0, "max"), (1, "max"), (3, 3)])
        if hi != "max" and hi < nvn:
            hi = nvn
            lo = min(lo, hi)
        items.append(["num-args", str(lo), str(hi)])
    if rng.random() < 0.7:
        items.append(["help", hexs(g.named(pre + ".help"))])
    if rng.random() < 0.35:
        items.append(["long-help", hexs(g.named(pre + ".long_help"))])
    if hidden:
        items.append(["hide"])
    if rng.random() < 0.12:
        items.append(["hide-short-help"])
    if rng.random() < 0.12:
        items.append(["hide-long-help"])
    required = required_ok and rng.random() < 0.3
    if required:
        items.append(["required"])
    pvs = []
    if takes and rng.random() < 0.4:
        with_help = rng.random() < 0.5
        for _ in range(rng.choice([1, 2, 3])):
            hid = rng.random() < 0.25
            pv = [["name", hexs(g.named("hpv.name" if hid else pre + ".pv.name"))]]
            if with_help and rng.random() < 0.8:
                pv.append(["help", hexs(g.named("hpv.help" if hid else pre + ".pv.help"))])
            if hid:
                pv.append(["hide"])
            pvs.append(pv)
        if rng.random() < 0.1:
            items.append(["hide-pvs"])
    if not required and rng.random() < (0.35 if takes else 0.1):
        if pvs:
            ds = [rng.choice(pvs)[0][1]]
        else:
            ds = [hexs(g.named(pre + ".default")) for _ in range(rng.choice([1, 1, 2]))]
        items.append(["defaults"] + ds)
        if takes and rng.random() < 0.2:
            items.append(["hide-default"])
    if rng.random() < 0.3:
        items.append(["env", hexs(g.named(pre + ".env", NO_EMPTY).replace("\0", ""))])
        if rng.random() < 0.2:
            items.append(["hide-env"])
    for pv in pvs:
        items.append(["pv"] + pv)
    if rng.random() < 0.3:
        if headings and rng.random() < 0.5:
            h = rng.choice(headings)
        else:
            h = g.named(pre + ".heading", ctl=True, ascii_case=True)
            headings.append(h)
        items.append(["heading", hexs(h)])
    return items


def gen_spec(g, rich=False):
    rng = g.rng
    items = [["name", hexs(g.named("cmd.name", ctl=True))]]

    def maybe(p, head, slot, named=False, **kw):
        if rng.random() < p:
            s = g.named(slot, **kw) if named else g.text(slot)
            items.append([head, hexs(s)])
            return True
        return False

    p = 0.8 if rich else 0.4
    maybe(0.25, "display-name", "cmd.display_name", named=True, ctl=True)
    maybe(0.25, "bin-name", "cmd.bin_name", named=True)
    has_v = maybe(p, "version", "cmd.version", named=True, ctl=True)
    has_lv = maybe(0.3, "long-version", "cmd.long_version", named=True)
    maybe(p, "author", "cmd.author", named=True)
    maybe(p, "about", "cmd.about")
    maybe(0.4, "long-about", "cmd.long_about")
    maybe(p * 0.7, "after-help", "cmd.after_help")
    maybe(0.3, "after-long-help", "cmd.after_long_help")
    maybe(0.1, "before-long-help", "cmd.before_long_help")
    if rng.random() < 0.12:
        items.append(["no-help-flag"])
    if rng.random() < 0.12:
        items.append(["no-version-flag"])
    for head, slot in [("m-title", "man.title"), ("m-section", "man.section"), ("m-date", "man.date"),
                       ("m-source", "man.source"), ("m-manual", "man.manual")]:
        maybe(0.08, head, slot, named=True, ctl=True)
    # arguments: required positionals first among positionals; at most the last positional is multiple
    used_shorts = {"h", "V"}
    headings = []
    nargs = rng.choice([0, 1, 2, 3, 4, 5, 6]) if not rich else rng.choice([4, 5, 6, 7])
    kinds = [rng.choice(["flag", "option", "option", "positional"]) for _ in range(nargs)]
    npos = kinds.count("positional")
    req_pos = rng.randrange(npos + 1) if npos else 0
    seen_pos = 0
    for kind in kinds:
        hidden = rng.random() < 0.25
        if kind == "positional":
            seen_pos += 1
            a = gen_arg(g, kind, used_shorts, headings, hidden, required_ok=False)
            if seen_pos <= req_pos and not any(it[0] == "defaults" for it in a):
                a.append(["required"])
            elif seen_pos <= req_pos:
                a = [it for it in a if it[0] not in ("defaults", "hide-default")] + [["required"]]
            if seen_pos == npos and rng.random() < 0.3:
                a.append(["num-args", rng.choice(["1", "0"]), "max"])
            if seen_pos != npos:       # only the last positional may occur / take values more than once
                a = [["action", "set"] if it[0] == "action" else it for it in a]
        else:
            a = gen_arg(g, kind, used_shorts, headings, hidden, required_ok=True)
        items.append(["arg"] + a)
    nsubs = rng.choice([0, 0, 1, 2, 3, 4]) if not rich else rng.choice([2, 3, 4])
    for _ in range(nsubs):
        hid = rng.random() < 0.3
        pre = "hsub" if hid else "sub"
        sub = [["name", hexs(g.named(pre + ".name"))]]
        if rng.random() < 0.7:
            sub.append(["about", hexs(g.named(pre + ".about"))])
        if rng.random() < 0.25:
            sub.append(["long-about", hexs(g.named(pre + ".long_about"))])
        if hid:
            sub.append(["hide"])
        items.append(["sub"] + sub)
    if nsubs:
        maybe(0.3, "sub-heading", "cmd.sub_heading", named=True, ctl=True)
        maybe(0.3, "sub-value-name", "cmd.sub_value_name", named=True, ascii_case=True)
        if rng.random() < 0.3:
            items.append(["sub-required"])
        if rng.random() < 0.2:
            items.append(["no-help-sub"])
    return ["cmd"] + items


# ------------------------------------------------------------------------------------------ cases
def make_case(spec):
    """the harness renders the spec and its twin (the same tree with innocuous text of the same emptiness and
    blank-line pattern in every slot, harness/src/modes/man.rs::twin_of)"""
    return "(man %s)" % sx_str(spec)


# ------------------------------------------------------------------------------------------ oracle
PAGE = re.compile(r"\(page (x[0-9a-f]*)\) \(det (true|false)\)(?: \(twin (x[0-9a-f]*|PANIC|INVALID)\))?")
ALLOWED_ESC = re.compile(r"\\(?:\\|e|-|&|f[BIRP]|\*\(Aq|\(aq|\(bu|\[aq\])")


def split_page(page):
    return page.split(b"\n")


def ctl_lines(page):
    return [l for l in split_page(page) if l[:1] in (b".", b"'")]


def request(l):
    return re.split(rb"[ \t]", l[1:], 1)[0]


def esc_roff(s):
    """how a name is expected to read in a text line (roff(7): backslash, dash and apostrophe escaped)"""
    return s.replace("\\", "\\\\").replace("-", "\\-").replace("'", "\\*(Aq")


def collect(spec):
    """(visible strings, hidden-only strings, required names of visible items)"""
    vis, hid, need = set(), set(), []
    items = spec[1:]

    def strings(v, acc):
        if isinstance(v, list):
            for x in v[1:]:
                strings(x, acc)
        elif isinstance(v, str) and re.fullmatch(r"x([0-9a-f]{2})*", v):
            acc.add(unhex(v).decode("utf-8"))

    for it in items:
        if it[0] == "arg":
            d = {x[0]: x for x in it[1:]}
            hidden = "hide" in d
            acc = set()
            for x in it[1:]:
                if x[0] == "pv":
                    pd = {y[0]: y for y in x[1:]}
                    sub = set()
                    strings(x, sub)
                    (hid if (hidden or "hide" in pd) else vis).update(sub)
                elif x[0] != "short":
                    strings(x, acc)
            (hid if hidden else vis).update(acc)
            if not hidden:
                if "long" in d:
                    need.append(("long option", unhex(d["long"][1]).decode()))
                elif "short" in d:
                    need.append(("option -", "\\fB\\-" + esc_roff(unhex(d["short"][1]).decode())))
                if "long" not in d and "short" not in d:
                    if "value-names" in d:
                        for vn in d["value-names"][1:]:
                            need.append(("positional", unhex(vn).decode()))
                    else:
                        need.append(("positional", unhex(d["id"][1]).decode()))
        elif it[0] == "sub":
            d = {x[0]: x for x in it[1:]}
            acc = set()
            strings(it, acc)
            if "hide" in d:
                hid.update(acc)
            else:
                vis.update(acc)
                need.append(("subcommand", unhex(d["name"][1]).decode()))
        else:
            strings(it, vis)
    return vis, hid - vis, need


def markers(s):
    return re.findall(r"Qz\d+K", s)


def oracle(case, impl):
    if impl.startswith("INVALID") or impl.startswith("BADCASE"):
        return None                       # not a valid command / not a case: outside the property
    if impl.startswith("PANIC") or impl.startswith("ABORT"):
        return "man page generation panicked: " + impl[:300]
    m = PAGE.fullmatch(impl)
    if not m:
        return "unreadable harness result: " + impl[:200]
    page = unhex(m.group(1))
    if m.group(2) != "true":
        return "two renderings of the same command differ"
    v = sx_parse(case)
    spec = v[1]
    text = page.decode("utf-8", "replace")
    vis, hid, need = collect(spec)
    # every visible option / positional / subcommand is named
    for what, s in need:
        if what.startswith("option"):
            if s not in text:
                return "visible %s name not on the page: %r" % (what, s[:80])
        else:
            for mk in markers(s):
                if mk not in text:
                    return "visible %s %r is not named on the page" % (what, s[:80])
    # hidden items contribute nothing
    low = text.lower()                  # headings are upper-cased, the subcommand value name lower-cased
    vis_marks = {mk for s in vis for mk in markers(s)}
    for s in hid:
        for mk in markers(s):
            if mk not in vis_marks and mk.lower() in low:
                return "text of a hidden item appears on the page: %r" % s[:80]
    # user text never starts a request: same control lines as the twin rendered with innocuous text
    if m.group(3) and m.group(3) not in ("PANIC", "INVALID"):
        twin = unhex(m.group(3))
        a, b = ctl_lines(page), ctl_lines(twin)
        ra, rb = [request(l) for l in a], [request(l) for l in b]
        if ra != rb:
            k = 0
            while k < min(len(ra), len(rb)) and ra[k] == rb[k]:
                k += 1
            extra = a[k] if k < len(a) else b"<missing>"
            return ("control lines differ from the rendering of the same tree with innocuous text at #%d: %r"
                    % (k, extra[:80]))
        for la, lb in zip(a, b):
            if request(la) not in (b"TH", b"SH") and la != lb:
                return "generator request %r changed with the text: %r" % (lb[:60], la[:60])
    elif m.group(3) == "PANIC":
        return "rendering the tree with innocuous text panicked"
    # user text stays text: only the generator's escapes occur in text lines
    for l in split_page(page):
        if l[:1] in (b".", b"'"):
            continue
        ls = l.decode("utf-8", "replace")
        rest = ALLOWED_ESC.sub("", ls)
        if "\\" in rest:
            return "a text line contains a roff escape that is not one of the generator's: %r" % ls[:120]
    return None


def project(r):
    m = PAGE.fullmatch(r)
    if m:
        return "(page %s) (det %s)" % (m.group(1), m.group(2))
    if r.startswith("PANIC"):
        return "PANIC"
    if r.startswith("driver-error") or r.startswith("BADCASE"):
        return "BADCASE"
    return r


def nontrivial(case, impl):
    if not impl.startswith("(page"):
        return False
    v = sx_parse(case)
    acc = set()

    def strings(x):
        if isinstance(x, list):
            for y in x[1:]:
                strings(y)
        elif re.fullmatch(r"x([0-9a-f]{2})+", x):
            acc.add(unhex(x).decode("utf-8"))
    strings(v[1])
    return any(s[:1] in CC or "\\" in s or re.search(r"\n[.']", s) for s in acc)


# ------------------------------------------------------------------------------------------ streams
def gen_structured(n, rng, stats, shape):
    cases = []
    for i in range(n):
        g = Gen(rng, stats, safe_ctl=SAFE_CTL, classes=None if i % 4 else [rng.choice(CLASSES)])
        spec = gen_spec(g, rich=(i % 5 == 0))
        nargs = sum(1 for it in spec[1:] if it[0] == "arg")
        nhid = sum(1 for it in spec[1:] if it[0] in ("arg", "sub") and any(x[0] == "hide" for x in it[1:]))
        nsub = sum(1 for it in spec[1:] if it[0] == "sub")
        for k, val in (("args", nargs), ("subs", nsub), ("hidden_items", nhid)):
            key = "%s=%d" % (k, val)
            shape[key] = shape.get(key, 0) + 1
        cases.append(make_case(spec))
    return cases


def gen_slot_sweep(rng, stats, texts):
    """a fixed rich tree; one adversarial text at a time placed into each slot in turn"""
    g = Gen(rng, {}, safe_ctl=True, classes=["plain"])
    base = gen_spec(g, rich=True)
    cases = []
    paths = []

    def walk(v, path):
        for i, x in enumerate(v):
            if isinstance(x, list):
                if x and x[0] in ("action", "num-args", "short", "defaults", "pv"):
                    continue
                if len(x) >= 2 and all(isinstance(y, str) and y.startswith("x") for y in x[1:]) and x[0] not in ("cmd",):
                    for j in range(1, len(x)):
                        paths.append(path + (i, j))
                else:
                    walk(x, path + (i,))
    walk(base, ())
    ctl_slots = {"name", "display-name", "version", "heading", "sub-heading", "m-title", "m-section", "m-date",
                 "m-source", "m-manual"}
    for path in paths:
        for t in texts:
            spec = _replace(base, path, None)
            node = base
            for p in path[:-1]:
                node = node[p]
            head = node[0]
            s = t
            if head == "long":
                if s == "" or s.startswith("-"):
                    continue
            if head in ("heading", "sub-value-name") and any(ord(c) > 127 for c in s):
                continue
            if SAFE_CTL and head in ctl_slots:
                s = s.replace("\n", " ")
            old = unhex(node[path[-1]]).decode("utf-8")
            mk = markers(old)
            s2 = s + (mk[0] if mk else "")
            stats_key = "sweep." + head
            for f in text_class(s2):
                stats[stats_key + ":" + f] = stats.get(stats_key + ":" + f, 0) + 1
            cases.append(make_case(_replace(base, path, hexs(s2))))
    return cases


def _replace(v, path, new):
    if new is None:
        return v
    if len(path) == 1:
        c = list(v)
        c[path[0]] = new
        return c
    c = list(v)
    c[path[0]] = _replace(v[path[0]], path[1:], new)
    return c


ANSI_TEXTS = ["\x1b[1mbold\x1b[0m", "\x1b[31m.so x", "a\x1b[0m\n.b", "\x07.x", "\x1b]0;t\x07'y", "\x7f.z", "\x0b.q",
              "\x1b", "a\x1b[", "\x00.so"]


def gen_ansi(rng, n):
    """styled slots with ANSI escapes / C0 controls (outside the model's class): oracle only"""
    cases = []
    for _ in range(n):
        g = Gen(rng, {}, safe_ctl=True, classes=["plain", "lead_dot", "nl_cc"])
        spec = gen_spec(g, rich=True)

        def go(v, parent=None):
            if isinstance(v, list):
                if v[0] in ("about", "long-about", "after-help", "after-long-help", "help", "long-help") and rng.random() < 0.6:
                    s = rng.choice(ANSI_TEXTS).replace("\x00", "")
                    return [v[0], hexs(s)]
                return [v[0]] + [go(x, v[0]) for x in v[1:]]
            return v
        cases.append(make_case(go(spec)))
    return cases


# When True the generators keep newlines out of control-argument slots (name, version, headings, Man
# title/source/...).  False since the repair of defect I (newlines in control arguments are flattened).
SAFE_CTL = False

SWEEP_TEXTS = [".so /etc/passwd", "'br", "x\n.so /etc/passwd", "x\n'br", "\\fBq", "a\\", "", " ", "-", "\"", "\n",
               "\n\n.x\n", "é\n.x", ".", "a\r\n.b"]


def streams(tier, rng):
    stats, shape = {}, {}
    n = 1500 if tier == "quick" else 60000
    structured = gen_structured(n, rng, stats, shape)
    sweep_stats = {}
    sweep = gen_slot_sweep(rng, sweep_stats, SWEEP_TEXTS if tier == "quick" else SWEEP_TEXTS + sum(POOL.values(), []))
    if tier != "quick":
        for _ in range(3):
            sweep += gen_slot_sweep(rng, sweep_stats, SWEEP_TEXTS)
    ansi = gen_ansi(rng, 150 if tier == "quick" else 1500)
    return [
        Stream("man", structured, oracle=oracle, area="man", project=project, nontrivial=nontrivial,
               describe={"slot x text-class": dict(sorted(stats.items())), "tree shapes": dict(sorted(shape.items()))}),
        Stream("man-slots", sweep, oracle=oracle, area="man", project=project, nontrivial=nontrivial,
               describe={"slot x text-class": dict(sorted(sweep_stats.items()))}),
        Stream("man-ansi", ansi, oracle=oracle, area=None, project=project, nontrivial=nontrivial,
               describe={"texts": [repr(t) for t in ANSI_TEXTS]}),
    ]


CTL_SLOTS = ("name", "display-name", "version", "heading", "sub-heading", "m-title", "m-section", "m-date",
             "m-source", "m-manual")


def classify_known(stream, case, impl, failure):
    return None
