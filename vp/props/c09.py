"""C09: subcommand dispatch follows argv, and global arguments agree at every level."""
import collections

from .. import gen_cmd
from ..core import hexs
from ..parse_streams import gen_cases, decode_case, parse_result, levels, GLOBAL_SETTINGS
from ..runner import Stream

ID = "C09"
AREAS = ["c09"]
RULE = ("dedicated command trees of depth <= 3 (every level: flags/options that may be global, with or without "
        "default/env; a positional; 1-3 subcommands with aliases, short/long flag-subcommand names and their aliases; "
        "external subcommands with OsString or String parser; the same short/long names reused at different levels "
        "for non-global arguments) x argv rendered from an invocation that walks a chosen chain, naming each "
        "subcommand by name / alias / --long-flag / -S / cluster (-Sq, -Syu, nested -SQ.., parent flags before the "
        "letter), supplying globals at 0..4 levels at or below their definition, option values that equal "
        "subcommand names, `--` before a positional that equals a subcommand name, external subcommands followed by "
        "arbitrary tokens (dash-looking, `--`, empty, non-UTF-8); plus 0-2 token mutations (adversarial stream) and the "
        "shared random trees of vp/gen_cmd.py (depth 3, globals 0.6, flag subcommands 0.5, aliases 0.5, external 0.3); "
        "stream `wide` (third pass): trees of depth <= 2 with 0-2 single-valued positionals and optionally a multi-valued one "
        "per level, subcommand_precedence_over_arg chosen independently per level, infer_subcommands, names and aliases with "
        "common prefixes, a global option given at 0-3 levels with different values; lines place subcommand names among the "
        "values of the multi-valued positional (swallowed / dispatched by the level's setting), select by name / alias / "
        "every proper prefix of either (unique or ambiguous), put `--` before names; an independent reference reading "
        "(wide_read) gives the expected chain, the positional values per level and the deepest explicit value of the global. "
        "The expected chain and the explicit occurrences per level are recomputed from the case line by a python "
        "scan that gives up (no verdict) outside the class where it is unambiguous.  A case is non-trivial when the "
        "reported chain has at least one subcommand or a global argument has an entry; distinct = distinct case text.")
TRUSTED = [
    "Coq 8.16.1 kernel (coqc); no native_compute; theorems C09_* are 'Closed under the global context' "
    "(ParseProofs/Chain.v and ChainWide.v import lemmas of C07 Actions/ActionsLoop, C08 Spelling and C11 Reentrancy/ReentrancyProofs; "
    "none of the axiom-dependent C11 theorems is used)",
    "extraction: ExtrOcamlBasic only, no Extract Constant; OCaml driver ocaml/c09_driver.ml + common_parse/{spec,show}.ml "
    "(prints `?` for ids a level does not define, as the harness does for entries the debug accessors refuse)",
    "correspondence: vp/props/c09.py + vp/gen_cmd.py generators, harness/src/modes/parse.rs, comparison of chain + "
    "(source, raw values) of every entry at every level (indices and error sub-kinds are outside the projection)",
    "the python scan (reference reading of an argv for the strict class) used by the direct oracle",
    "modelled not verified: Rust core (Vec, String, str::from_utf8), FlatMap order of insertion",
]
ASSUMPTIONS = [
    "no multicall, no Command::defer, built-in value parsers only; a global id is not redefined by a subcommand",
    "C09_flag_cluster_* are stated for the first short flag-subcommand letter of a cluster read with a clean resume "
    "state (flag_subcmd_at = None, skip = 0); clusters in which parent flags precede the letter and more letters "
    "follow are the recorded finding C09-flag-cluster-prefix",
    "hereditary build: C09_defs_copied_deep assumes the subcommands on the path were not built before "
    "(Built flag clear), as for a freshly constructed Command",
    "whole-argv theorems (C09_chain, C09_chain_short_flags, C09_level_*, C09_chain_globals) quantify over the classes "
    "line/gline of ParseProofs/Chain.v: option prefixes made of `--flag`, `--opt=v`, `--opt v`, `-ov`, `-o v` (exact "
    "keys, one value, no require_equals, no hyphen-value positionals for the short forms) and flag clusters `-abc`; no token or option value that the level reads as a subcommand; "
    "selecting tokens = name/alias (infer_subcommands off), `--sub` (infer_long_args off), `-S` alone, or the first "
    "letter of a cluster in a level not itself entered through a cluster; selected children canonical (first with "
    "their name, name resolves to them); levels with ignore_errors and args_conflicts_with_subcommands off; an "
    "external subcommand only in a command without positionals",
    "C09_chain_globals: that some level holds an entry for the global is a hypothesis (defaults: C06)",
    "third pass (ParseProofs/ChainWide.v): class wline (line <= gline <= wline), no premise on the selected children: per level "
    "the option items above, values of single-valued positionals, optionally the values of one multi-valued positional "
    "(pos_plain: no low-index multiples, no allow_missing_positional; the positional is not last / trailing-var-arg, no value "
    "is its terminator; values are plain words: not `--`, not a long, not a short; the first value of a positional is not a "
    "subcommand of the level; the further values of a multi-valued positional may be subcommand names unless THIS level has "
    "subcommand_precedence_over_arg); a level ends with the end of the line, with `--` + an arbitrary tail (command without "
    "external subcommands), with a selecting token (name/alias, with infer_subcommands the unique prefix of a name or alias or "
    "an exact name, `--sub`, `-S`, first letter of a cluster; behind multi-values only a name and only with precedence) or with "
    "an external subcommand; C09_levels_own_entries / C09_deepest_explicit_line: class wsplit (levels left through name / `--sub` selections)",
]
TECHNIQUE = ("Coq proof (closed form of ArgMatcher::fill_in_global_values for chains of any depth; "
             "_propagate_global_args/_build_subcommand copy global definitions to every depth, also into a user-defined `help`; "
             "the token loop of Parser::parse never touches the recorded subcommand; the arguments of a level (`--flag`, `--opt=v`, "
             "`--opt v`, `-ov`, `-o v`, `-abc`, values of single-valued positionals, the values of a multi-valued positional) are "
             "consumed item by item; closed form of possible_subcommand with infer_subcommands (unique prefix of a name or alias "
             "resolves to the one subcommand it matches, ambiguous prefix rejected); no dispatch after `--` for any state; by "
             "induction on the nesting a successful parse of `args_0 n_1 args_1 ... n_k args_k` reports exactly the canonical "
             "names selected (name, alias, inferred prefix, long flag, short flag alone, first letter of a cluster; a name behind "
             "multi-values is swallowed or dispatched by the subcommand_precedence_over_arg of that level; external subcommand last "
             "with its arguments verbatim), each level's entries = what its own tokens alone produce against its own definition; "
             "the chain composed with the globals merge, the agreement of find_subcommand/_build_subcommand/get_used_global_args "
             "derived from the validity gate; the deepest explicit occurrence of a global is reported at every level) "
             "+ extracted-model/implementation correspondence + direct python oracle")
LEVEL_TEXT = ("Machine-checked theorems (Coq 8.16, closed under the global context) about the executable model of "
              "Parser::{parse, possible_subcommand, possible_long_flag_subcommand, parse_long_arg, parse_short_arg, "
              "get_matches_with}, Command::{_propagate_global_args, _build_self, _build_subcommand, get_used_global_args, "
              "find_subcommand} and ArgMatcher::{propagate_globals, fill_in_global_values}: see evidence/C09.json for the "
              "theorem list discharged on this run.  Whole-argv statements hold for trees and lines of any depth in the "
              "inductively defined classes line <= gline <= wline (C09_chain, C09_chain_short_flags, C09_chain_wide; "
              "C09_chain_globals, C09_chain_globals_wide without any premise on the selected children): per level options in "
              "six spellings, flag clusters, positionals (single-valued filled; multi-valued swallowing subcommand names unless "
              "the level has subcommand_precedence_over_arg), selection by name / alias / unique inferred prefix / long or short "
              "flag-subcommand / first letter of a cluster, `--` with an arbitrary tail, external subcommand last; levels do not "
              "ignore errors.  C09_levels_own_entries: at every depth the entries of a level are exactly what its own tokens "
              "alone produce against its own definition; C09_deepest_explicit_line: a global given at several levels is reported "
              "everywhere with the values of the deepest level naming it.  The model is tied to clap_builder by running the "
              "extracted model and the real crate (debug build) on the same generated command trees (depth <= 3) and argument "
              "vectors on every check; the direct oracle recomputes the expected chain and the explicit occurrences from the case "
              "line and checks chain, external arguments, per-level attribution and the agreement of every global across levels "
              "on the implementation's output alone.")
LEVEL_NOTE = ("Trusted: Coq kernel, extraction, OCaml driver, Rust harness, generators, the python scan. Proved for all "
              "inputs of the classes line/gline/wline/wsplit (ParseProofs/Chain.v, ChainWide.v): reported chain = chain named on "
              "the command line (canonical names also after an inferred alias prefix; ambiguous prefix rejected; nothing "
              "dispatched after `--`), external arguments verbatim, level isolation (equation and entries, every depth), globals "
              "merged at every level with explicit beating default and the deepest explicit occurrence winning, a user-defined "
              "`help` subcommand treated like any other. Outside the classes (`-o=v`, options inside clusters, multi-value / "
              "require_equals / hyphen-value options, inferred long options and long flag-subcommands, options after the values "
              "of a multi-valued positional, low-index multiples / allow_missing_positional, last / trailing-var-arg positionals, "
              "ignore_errors, args_conflicts_with_subcommands) the whole-argv statement is covered by the correspondence and the "
              "oracle. Recorded findings: `-vSy` (parent flags before a short flag-subcommand letter with further letters) and a "
              "stale flag_subcmd_at after a continued cluster; both are outside gline/wline by construction.")


# =============================================================================== dedicated trees
FLAG_LONGS = ["verbose", "quiet", "force", "dry", "all", "color"]
OPT_LONGS = ["out", "cfg", "name", "level", "jobs", "tag"]
FLAG_SHORTS = "vqfda"
OPT_SHORTS = "ocnlj"
SUB_NAMES = ["sync", "query", "run", "add", "rm", "ls", "test", "su", "sub", "get"]
SUB_ALIASES = ["sy", "qu", "r", "plus", "del", "list", "t", "s2", "sb", "g"]
SUB_SHORTS = "SQRTUXYZ"
SUB_LONGS = ["syncf", "queryf", "runf", "addf", "rmf", "lsf"]
VALS = [b"v", b"w", b"x1", b"1", b"zz", b"v=w", b"a,b", b"sync", b"run", b"su", b"help", b"=", b"0", "é".encode()]
EXT_TOKS = [b"--", b"-x", b"--flag", b"--flag=v", b"", b"-", b"sync", b"help", b"\xff", b"-\xff", b"a b", b"v",
            b"--out", b"-S", b"-Sq", b"--", "é".encode()]


def pick(rng, seq):
    return seq[rng.randrange(len(seq))]


def chance(rng, p):
    return rng.random() < p


class TreeParams:
    def __init__(self, **kw):
        self.depth = 3
        self.p_sub = 0.85
        self.p_global = 0.45
        self.p_default = 0.4
        self.p_env = 0.15
        self.p_alias = 0.5
        self.p_short_flag = 0.5
        self.p_long_flag = 0.4
        self.p_flag_alias = 0.25
        self.p_external = 0.3
        self.p_reuse_names = 0.5     # non-global args of a child reuse a parent's short/long
        self.p_positional = 0.35
        self.__dict__.update(kw)


def gen_tree(rng, P, depth=0, path="p", taken=None):
    """taken: ids/shorts/longs of inherited globals (they are copied into this level)"""
    taken = taken or {"ids": set(), "shorts": set(), "longs": set()}
    c = {"name": path.split("/")[-1].encode(), "about": ("A:" + path).encode(), "args": [], "groups": [], "subs": [],
         "settings": [], "aliases": []}
    if chance(rng, 0.15):
        c["settings"].append("args_override_self")
    if chance(rng, 0.15):
        c["settings"].append("disable_help_subcommand")
    if depth == 0 and chance(rng, 0.15):
        c["settings"].append("infer_subcommands")     # global: exact names and aliases still win, prefixes dispatch too
    if chance(rng, 0.1):
        c["settings"].append("disable_help_flag")
    if chance(rng, 0.3):
        c["version"] = b"1.0"
    shorts = set(taken["shorts"]) | {"h", "V"}
    longs = set(taken["longs"]) | {"help", "version"}
    ids = set(taken["ids"]) | {"help", "version"}
    will_have_subs = depth < P.depth and chance(rng, P.p_sub)

    def fresh(pool, used):
        cand = [x for x in pool if x not in used]
        if not cand:
            return None
        x = pick(rng, cand)
        used.add(x)
        return x

    nflags = rng.randrange(0, 3)
    nopts = rng.randrange(0, 3)
    for k in range(nflags + nopts):
        is_flag = k < nflags
        aid = ("f%d_%d" if is_flag else "o%d_%d") % (depth, k)
        sh = fresh(FLAG_SHORTS if is_flag else OPT_SHORTS, shorts) if chance(rng, 0.8) else None
        lo = fresh(FLAG_LONGS if is_flag else OPT_LONGS, longs) if (chance(rng, 0.7) or sh is None) else None
        if sh is None and lo is None:
            continue
        a = {"id": aid.encode(), "flags": set(), "short": sh, "long": lo.encode() if lo else None}
        if is_flag:
            a["action"] = "settrue" if chance(rng, 0.6) else "count"
        else:
            a["action"] = pick(rng, ["set", "set", "append", None])
            if chance(rng, P.p_default):
                a["default"] = [pick(rng, [b"d", b"w", b"1"])]
            if chance(rng, 0.2):
                a["vp"] = "os"
        if chance(rng, P.p_env):
            takes = not is_flag
            a["env"] = (("VP9_%s_%s" % (path.replace("/", "_"), aid)).encode(),
                        None if chance(rng, 0.3) else (pick(rng, [b"e", b"w"]) if takes else
                                                       (pick(rng, [b"true", b"false"]) if a["action"] == "settrue" else b"3")))
        if will_have_subs and chance(rng, P.p_global):
            a["flags"].add("global")
        c["args"].append(a)
    if chance(rng, P.p_positional):
        c["args"].append({"id": ("p%d" % depth).encode(), "flags": set()})
    if will_have_subs:
        glob = {"ids": set(taken["ids"]), "shorts": set(taken["shorts"]), "longs": set(taken["longs"])}
        for a in c["args"]:
            if "global" in a["flags"]:
                glob["ids"].add(a["id"].decode())
                if a.get("short"):
                    glob["shorts"].add(a["short"])
                if a.get("long"):
                    glob["longs"].add(a["long"].decode())
        # with the generated `help` subcommand disabled a user subcommand may be called `help` (seeded change seed2/C09-2)
        names = set() if "disable_help_subcommand" in c["settings"] else {"help"}
        sub_shorts = set(shorts)       # a short flag-subcommand letter must not collide with an arg of this level
        sub_longs = set(longs)
        for k in range(rng.randrange(1, 4)):
            n = fresh(SUB_NAMES + ["help", "help"], names) if "help" not in names and \
                "disable_help_subcommand" in c["settings"] else fresh(SUB_NAMES, names)
            if n is None:
                break
            # non-global names of this level may be reused by the child (level isolation)
            child_taken = glob if chance(rng, P.p_reuse_names) else \
                {"ids": set(glob["ids"]), "shorts": set(shorts) - {"h", "V"}, "longs": set(longs) - {"help", "version"}}
            s = gen_tree(rng, P, depth + 1, path + "/" + n, child_taken)
            if chance(rng, P.p_alias):
                al = fresh(SUB_ALIASES, names)
                if al:
                    s["aliases"] = [(al.encode(), chance(rng, 0.5))]
            if chance(rng, P.p_short_flag):
                sf = fresh(SUB_SHORTS, sub_shorts)
                if sf:
                    s["short_flag"] = sf
                    if chance(rng, P.p_flag_alias):
                        sa = fresh(SUB_SHORTS, sub_shorts)
                        if sa:
                            s["short_flag_aliases"] = [(sa, chance(rng, 0.5))]
            if chance(rng, P.p_long_flag):
                lf = fresh(SUB_LONGS, sub_longs)
                if lf:
                    s["long_flag"] = lf.encode()
                    if chance(rng, P.p_flag_alias):
                        la = fresh(SUB_LONGS, sub_longs)
                        if la:
                            s["long_flag_aliases"] = [(la.encode(), chance(rng, 0.5))]
            # flag-subcommand aliases need no primary flag: `--sync` declared only as long_flag_alias still names the
            # subcommand (Command::long_flag_aliases_to / short_flag_aliases_to; seeded change seed3/C09-2)
            if "long_flag" not in s and chance(rng, 0.12):
                la = fresh(SUB_LONGS, sub_longs)
                if la:
                    s["long_flag_aliases"] = [(la.encode(), chance(rng, 0.5))]
            if "short_flag" not in s and chance(rng, 0.12):
                sa = fresh(SUB_SHORTS, sub_shorts)
                if sa:
                    s["short_flag_aliases"] = [(sa, chance(rng, 0.5))]
            c["subs"].append(s)
    if chance(rng, P.p_external):
        if chance(rng, 0.5):
            c["settings"].append("allow_external_subcommands")
        else:
            c["ext"] = pick(rng, ["os", "string"])
    return c


# =============================================================================== rendering an invocation
def is_flag(a):
    return a.get("action") in ("settrue", "setfalse", "count")


def is_pos(a):
    return not (a.get("short") or a.get("long"))


def render_items(rng, args, stats, explicit_p, exclude=()):
    """option/flag tokens for one level; returns (list of token groups, ids used)"""
    items = []
    used = set()
    for a in args:
        if is_pos(a) or a["id"] in exclude or not chance(rng, explicit_p):
            continue
        used.add(a["id"])
        reps = 1
        if a.get("action") in ("append", "count") and chance(rng, 0.4):
            reps = pick(rng, [2, 3])
        for _ in range(reps):
            names = []
            if a.get("long"):
                names.append(b"--" + a["long"])
            if a.get("short"):
                names.append(b"-" + a["short"].encode())
            name = pick(rng, names)
            if is_flag(a):
                items.append([name])
                continue
            v = pick(rng, VALS)
            form = rng.randrange(3)
            if form == 0:
                items.append([name, v])
            elif name.startswith(b"--"):
                items.append([name + b"=" + v])
            else:
                items.append([name + (b"=" if form == 1 else b"") + v])
            stats["option_value_is_a_subcommand_name"] += v in (b"sync", b"run", b"su", b"help")
    # cluster two single short flags now and then
    singles = [it for it in items if len(it) == 1 and len(it[0]) == 2 and it[0][:1] == b"-"]
    if len(singles) >= 2 and chance(rng, 0.4):
        for it in singles:
            items.remove(it)
        items.append([b"-" + b"".join(it[0][1:] for it in singles)])
    rng.shuffle(items)
    return items, used


def short_flag_letters(rng, avail, maxn, exclude):
    """up to maxn single-letter flags (settrue at most once); returns (letters, ids used)"""
    fl = [a for a in avail if is_flag(a) and a.get("short") and a["id"] not in exclude]
    letters, used = b"", set()
    for _ in range(rng.randrange(0, maxn + 1)):
        if not fl:
            break
        a = pick(rng, fl)
        if a["action"] == "settrue" and a["id"] in used:
            continue
        used.add(a["id"])
        letters += a["short"].encode()
    return letters, used


def render(rng, root, stats, explicit_p=0.4):
    """walk a chain; returns argv (after the program name)"""
    toks = []
    node, inherited = root, []
    depth = 0
    open_cluster = None      # a short cluster token under construction; its last letter dispatched into `node`
    while True:
        avail = list(node["args"]) + inherited
        exclude = set()
        if open_cluster is not None:
            letters, exclude = short_flag_letters(rng, avail, 2, ())
            nest = [s for s in node["subs"] if s.get("short_flag")]
            if nest and chance(rng, 0.4):
                s = pick(rng, nest)
                open_cluster += letters + s["short_flag"].encode()
                stats["named_by:cluster-nested"] += 1
                inherited = inherited + [a for a in node["args"] if "global" in a["flags"]]
                node = s
                depth += 1
                continue
            opt = [a for a in avail if not is_flag(a) and not is_pos(a) and a.get("short")]
            if opt and chance(rng, 0.25):
                a = pick(rng, opt)
                letters += a["short"].encode() + pick(rng, [b"file", b"=v", b"x1"])
                exclude = exclude | {a["id"]}
                stats["cluster_ends_in_option_with_attached_value"] += 1
            stats["cluster_letters_after:%d" % len(letters)] += 1
            toks.append(open_cluster + letters)
            open_cluster = None
        items, used = render_items(rng, avail, stats, explicit_p, exclude)
        stats["globals_supplied_below_their_definition"] += sum(1 for a in inherited if a["id"] in used | exclude)
        stats["globals_supplied_at_their_definition"] += sum(
            1 for a in node["args"] if "global" in a["flags"] and a["id"] in used | exclude)
        subs = node["subs"]
        ext_ok = bool(node.get("ext")) or "allow_external_subcommands" in node["settings"]
        r = rng.random()
        go_ext = ext_ok and ((not subs and r < 0.7) or (subs and 0.75 <= r < 0.92))
        pos = [a for a in node["args"] if is_pos(a)]
        pos_val = None
        if pos and (go_ext or chance(rng, 0.6)):
            pos_val = pick(rng, [b"file", b"x1", b"v", "é".encode()])
        level_toks = []
        bounds = [0]
        for it in items:
            level_toks += it
            bounds.append(len(level_toks))
        if pos_val is not None:
            if chance(rng, 0.2) and not go_ext:
                # `--` then a positional that looks like a subcommand: the chain must stop here
                v = pick(rng, [s["name"] for s in subs] + [pos_val]) if subs else pos_val
                toks += level_toks + [b"--", v]
                stats["dashdash_then_subcommand_name_as_value"] += v != pos_val
                break
            at = pick(rng, bounds)     # keep value tokens attached to their option
            level_toks[at:at] = [pos_val]
        toks += level_toks
        if subs and r < 0.75:
            s = pick(rng, subs)
            forms = [("name", s["name"])] * 2
            forms += [("alias", n) for n, _ in s.get("aliases", [])] * 2
            if s.get("long_flag"):
                forms += [("long_flag", b"--" + s["long_flag"])] * 2
            forms += [("long_flag_alias", b"--" + n) for n, _ in s.get("long_flag_aliases", [])]
            if s.get("short_flag"):
                forms += [("short_flag", b"-" + s["short_flag"].encode())] * 2
                forms += [("cluster", s["short_flag"].encode())] * 3
            for n, _ in s.get("short_flag_aliases", []):
                forms += [("short_flag_alias", b"-" + n.encode()), ("cluster_alias", n.encode())]
            kind, tok = pick(rng, forms)
            stats["named_by:" + kind] += 1
            if kind in ("cluster", "cluster_alias"):
                pre = b""
                if chance(rng, 0.25):
                    pre, _ = short_flag_letters(rng, avail, 1, used | exclude)
                    stats["cluster_with_parent_flags_before_the_letter"] += bool(pre)
                open_cluster = b"-" + pre + tok
            else:
                toks.append(tok)
            inherited = inherited + [a for a in node["args"] if "global" in a["flags"]]
            node = s
            depth += 1
            continue
        if go_ext:
            name = pick(rng, [b"ext", b"tool", "é".encode(), b"x1"])
            n = rng.randrange(0, 5)
            pool = EXT_TOKS if (node.get("ext") != "string") else [t for t in EXT_TOKS if _utf8(t)]
            rest = [pick(rng, pool) for _ in range(n)]
            stats["named_by:external"] += 1
            stats["external_rest_len:%d" % n] += 1
            toks += [name] + rest
        break
    stats["rendered_depth:%d" % depth] += 1
    return toks


def _utf8(b):
    try:
        b.decode("utf-8")
        return True
    except UnicodeDecodeError:
        return False


# =============================================================================== the reference scan
STRICT_SETTINGS = {"args_override_self", "disable_help_subcommand", "disable_help_flag", "disable_version_flag",
                   "propagate_version", "allow_external_subcommands", "infer_subcommands"}
STRICT_ARG_KEYS_EMPTY = ("num", "names", "delim", "term", "dmissing", "difs", "conflicts", "overrides", "requires",
                         "r_unless", "r_unless_all", "groups", "requires_if", "r_if", "r_if_all", "index", "aliases",
                         "saliases")


def strict(cmd):
    """the class in which the python scan below is the unambiguous reading of a command line"""
    if set(cmd["settings"]) - STRICT_SETTINGS or cmd.get("groups") or cmd.get("ext_items"):
        return False
    npos = 0
    for a in cmd["args"]:
        if a.get("flags", set()) - {"global", "hide"}:
            return False
        for k in STRICT_ARG_KEYS_EMPTY:
            if a.get(k):
                return False
        if a.get("action") not in (None, "set", "append", "settrue", "count"):
            return False
        if a.get("vp") not in (None, "os", "string"):
            return False
        if a.get("env") and a["env"][1] is not None:
            ev = a["env"][1]
            if a.get("action") == "settrue" and ev not in (b"true", b"false"):
                return False
            if a.get("action") == "count" and ev not in (b"0", b"1", b"3"):
                return False
            if not _utf8(ev):
                return False
        if is_pos(a):
            npos += 1
            if a.get("action") not in (None, "set") or "global" in a.get("flags", set()):
                return False
        if a["id"] in (b"help", b"version", b""):
            return False
    if npos > 1:
        return False
    return all(strict(s) for s in cmd["subs"])


class Scan:
    def __init__(self):
        self.levels = []        # per level: dict(node, inherited, occ={id: [ [values] ]}, pos=[values])
        self.chain = []         # canonical names
        self.ext = None         # (name, rest)
        self.prefix_cluster = False   # a first-level cluster with parent flags before the letter and letters after
        self.stale_cluster = False    # a fresh cluster `-X<letters>` read by a parser that still holds the
                                      # flag_subcmd_at of an earlier continued cluster
        self.how = []


def scan(cmd, argv):
    """Reference reading of `argv` (after the program name) for a strict command.  Returns a Scan, or None when
    the line is outside the class where the reading is unambiguous / the line is not valid."""
    sc = Scan()
    node, inherited = cmd, []
    override = False
    help_sub_disabled = False
    i = 0
    resume = None            # remaining letters of a cluster, to be read by this level first
    fs_at_set = False        # Parser::flag_subcmd_at of the parser reading this level is Some(..)
    infer_sub_inherited = False
    while True:
        override = override or "args_override_self" in node["settings"]
        help_sub_disabled = help_sub_disabled or "disable_help_subcommand" in node["settings"]
        shorts, longs, ids = {}, {}, set()
        for a in list(node["args"]) + inherited:
            if a["id"] in ids:
                return None
            ids.add(a["id"])
            if a.get("short"):
                if a["short"] in shorts:
                    return None
                shorts[a["short"]] = a
            if a.get("long"):
                if a["long"] in longs:
                    return None
                longs[a["long"]] = a
        names, sflags, lflags = {}, {}, {}
        for s in node["subs"]:
            for n in [s["name"]] + [n for n, _ in s.get("aliases", [])]:
                if n in names:
                    return None
                names[n] = s
            for ch in ([s["short_flag"]] if s.get("short_flag") else []) + [n for n, _ in s.get("short_flag_aliases", [])]:
                if ch in sflags or ch in shorts:
                    return None
                sflags[ch] = s
            for lf in ([s["long_flag"]] if s.get("long_flag") else []) + [n for n, _ in s.get("long_flag_aliases", [])]:
                if lf in lflags or lf in longs:
                    return None
                lflags[lf] = s
        help_sub = bool(node["subs"]) and not help_sub_disabled
        infer_sub = infer_sub_inherited or "infer_subcommands" in node["settings"]
        infer_sub_inherited = infer_sub          # a global setting: it is propagated to the children
        positional = [a for a in node["args"] if is_pos(a)]
        occ = collections.OrderedDict()
        pos_vals = []
        pending = None
        trailing = False
        nxt = None
        ext_ok = bool(node.get("ext")) or "allow_external_subcommands" in node["settings"]

        def record(a, vals):
            occ.setdefault(a["id"], []).append(vals)

        def cluster(letters, first_level_token):
            """returns ('ok'|'sub', sub, rest) or None"""
            nonlocal pending
            try:
                chars = letters.decode("utf-8")
            except UnicodeDecodeError:
                return None
            for j, ch in enumerate(chars):
                if ch in shorts:
                    a = shorts[ch]
                    if is_flag(a):
                        record(a, None)
                        continue
                    rest = chars[j + 1:].encode("utf-8")
                    if rest:
                        record(a, [rest[1:] if rest[:1] == b"=" else rest])
                    else:
                        pending = a
                    return ("ok", None, b"")
                if ch in sflags:
                    rest = chars[j + 1:].encode("utf-8")
                    if first_level_token and j > 0 and rest:
                        sc.prefix_cluster = True
                    if first_level_token and rest and fs_at_set:
                        sc.stale_cluster = True
                    return ("sub", sflags[ch], rest)
                return None
            return ("ok", None, b"")

        if resume is not None:
            r = cluster(resume, False)
            resume = None
            if r is None:
                return None
            if r[0] == "sub":
                nxt = r[1]
                resume = r[2] or None
                sc.how.append("cluster-nested")
        while nxt is None and i < len(argv):
            tok = argv[i]
            i += 1
            if pending is not None:
                if tok[:1] == b"-":
                    return None
                record(pending, [tok])
                pending = None
                continue
            if trailing:
                if len(pos_vals) < len(positional):
                    pos_vals.append(tok)
                    continue
                return None
            if tok == b"--":
                trailing = True
                continue
            if tok[:2] == b"--":
                body = tok[2:]
                name, eq, val = body.partition(b"=")
                if not _utf8(name) or not name:
                    return None
                if name in longs:
                    a = longs[name]
                    if is_flag(a):
                        if eq:
                            return None
                        record(a, None)
                    elif eq:
                        record(a, [val])
                    else:
                        pending = a
                    continue
                if name in lflags and not eq:
                    nxt = lflags[name]
                    sc.how.append("long-flag")
                    break
                return None
            if tok[:1] == b"-" and len(tok) > 1:
                r = cluster(tok[1:], True)
                if r is None:
                    return None
                if r[0] == "sub":
                    nxt = r[1]
                    resume = r[2] or None
                    sc.how.append("cluster" if resume else "short-flag")
                    break
                continue
            if tok == b"-":
                return None
            if not _utf8(tok):
                return None
            if tok in names:
                # (an exact name or alias wins under infer_subcommands too; the chain reports the CANONICAL name)
                nxt = names[tok]
                sc.how.append("name" if tok == nxt["name"] else "alias")
                break
            if infer_sub and any(n.startswith(tok) for n in list(names) + ([b"help"] if help_sub else [])):
                return None        # an inferred prefix (or an ambiguous one): outside the scan's reading
            if tok == b"help" and help_sub:
                return None
            if len(pos_vals) < len(positional):
                pos_vals.append(tok)
                continue
            if ext_ok:
                rest = argv[i:]
                i = len(argv)
                if node.get("ext") == "string" and not all(_utf8(t) for t in rest):
                    return None
                sc.ext = (tok, rest)
                sc.how.append("external")
                break
            return None
        if pending is not None:
            return None
        # expected entries of this level
        exp = {}
        for a in list(node["args"]) + inherited:
            o = occ.get(a["id"])
            if not o:
                continue
            act = a.get("action")
            if act == "settrue":
                if len(o) > 1 and not override:
                    return None
                exp[a["id"]] = [[b"true"]]
            elif act == "count":
                exp[a["id"]] = [[str(min(len(o), 255)).encode()]]
            elif act == "append":
                exp[a["id"]] = [list(v) for v in o]
            else:
                if len(o) > 1 and not override:
                    return None
                exp[a["id"]] = [list(o[-1])]
            if a.get("vp") in (None, "string") and not is_flag(a) and not all(_utf8(v) for vs in o for v in vs):
                return None
        if pos_vals:
            p = positional[0]
            if p.get("vp") in (None, "string") and not _utf8(pos_vals[0]):
                return None
            exp[p["id"]] = [[pos_vals[0]]]
        sc.levels.append({"node": node, "inherited": list(inherited), "exp": exp})
        if nxt is None:
            break
        sc.chain.append(nxt["name"])
        inherited = inherited + [a for a in node["args"] if "global" in a.get("flags", set())]
        node = nxt
        # keep_state (the cluster continues): the child parser inherits flag_subcmd_at; otherwise a new parser
        fs_at_set = resume is not None
    if resume is not None:
        return None
    return sc


# =============================================================================== oracle
def ent_map(ents):
    return collections.OrderedDict((e["id"], e) for e in ents)


def oracle_globals(cmd, lv):
    """For every global argument defined at level d of the reported chain and all levels i, j >= d of the chain:
    the entries agree (same source, same raw values).  Uses only the command definition and the result."""
    node = cmd
    nodes = [cmd]
    for k, (ents, sub) in enumerate(lv[:-1]):
        nx = [s for s in node["subs"] if s["name"] == sub]
        if not nx or any(e["id"] == b"" for e in lv[k + 1][0]):
            # external subcommand: the chain of definitions ends here.  (Id::EXTERNAL among the entries of the next level:
            # the word was taken as an EXTERNAL subcommand although a subcommand of that name exists — it could not be
            # dispatched, e.g. args_conflicts_with_subcommands after an argument; that command was never entered.)
            break
        node = nx[0]
        nodes.append(node)
    seen = set()
    for d, nd in enumerate(nodes):
        for a in nd["args"]:
            if "global" not in a.get("flags", set()) or a["id"] in seen:
                continue
            seen.add(a["id"])
            if any(a["id"] in {x["id"] for x in n2["args"]} for n2 in nodes[d + 1:]):
                continue    # redefined below: shadowing is outside the property
            views = []
            # the matches of an external subcommand (one more level than there are definitions) are created
            # from the parent command and receive the merged globals as well
            top = len(lv) if len(lv) == len(nodes) + 1 else len(nodes)
            for i in range(d, top):
                e = ent_map(lv[i][0]).get(a["id"])
                views.append(None if e is None else (e["src"], e["occ"]))
            if any(v is not None and v[0] == "?" for v in views):
                return "global %r is not accessible at a level at or below its defining command (levels %d..): %r" % (
                    a["id"], d, views)
            if len(set(repr(v) for v in views)) > 1:
                return "global %r (defined at level %d) differs between levels of the chain: %r" % (a["id"], d, views)
    return None


def well_formed_chain(cmd, lv):
    node = cmd
    for k, (ents, sub) in enumerate(lv):
        if sub is None:
            return None
        nx = [s for s in node["subs"] if s["name"] == sub]
        if nx:
            node = nx[0]
            continue
        # not a canonical subcommand name: must be an external subcommand, which ends the chain
        ext_ok = bool(node.get("ext")) or "allow_external_subcommands" in node["settings"]
        if not ext_ok:
            return "reported subcommand %r is not the canonical name of a subcommand of level %d (aliases %r)" % (
                sub, k, [s["name"] for s in node["subs"]])
        if k + 1 < len(lv) - 1:
            return "an external subcommand is followed by further levels"
        return None
    return None


def oracle(case, impl):
    p = parse_result(impl)
    if p["kind"] not in ("ok", "err", "panic"):
        return None                       # INVALID / ABORT: other properties (C01)
    try:
        cmd, argv = decode_case(case)
    except Exception:
        return None
    if p["kind"] == "panic":
        # panics belong to C01, except on a line this property has a verdict for: the chain it names is not reported
        if "no_binary_name" in cmd["settings"] or not strict(cmd):
            return None
        sc = scan(cmd, argv[1:])
        if sc is None:
            return None
        return "a valid line naming the chain %r (%s) made the parser panic: %s" % (
            [c.decode() for c in sc.chain], ",".join(sc.how), p["msg"][:160])
    if "no_binary_name" not in cmd["settings"]:
        argv = argv[1:]
    is_strict = strict(cmd)
    sc = scan(cmd, argv) if is_strict else None
    if p["kind"] == "err":
        if sc is not None and p["ekind"] not in ("DisplayHelp", "DisplayVersion"):
            return "a valid line naming the chain %r (%s) was rejected with %s" % (
                [c.decode() for c in sc.chain], ",".join(sc.how), p["ekind"])
        return None
    lv = levels(p["m"])
    f = well_formed_chain(cmd, lv)
    if f:
        return f
    f = oracle_globals(cmd, lv)
    if f:
        return f
    if sc is None:
        return None
    # ---- chain
    reported = [s for _, s in lv if s is not None]
    expected = list(sc.chain) + ([sc.ext[0]] if sc.ext else [])
    if reported != expected:
        return "reported chain %r differs from the chain named on the command line %r (%s)" % (
            reported, expected, ",".join(sc.how))
    # ---- external arguments verbatim
    if sc.ext:
        e = ent_map(lv[-1][0]).get(b"")
        got = None if e is None else [v for g in e["occ"] for v in g]
        if got != list(sc.ext[1]):
            return "external subcommand arguments not preserved verbatim: expected %r got %r" % (sc.ext[1], got)
    # ---- each level's arguments are parsed against that level's definition only
    chain_globals = {a["id"] for L in sc.levels for a in L["node"]["args"] if "global" in a.get("flags", set())}
    for k, L in enumerate(sc.levels):
        em = ent_map(lv[k][0])
        defined = {a["id"]: a for a in list(L["node"]["args"]) + L["inherited"]}
        for aid, a in defined.items():
            e = em.get(aid)
            isglobal = "global" in a.get("flags", set())
            if aid in L["exp"] and not isglobal:
                if e is None or e["src"] != "cmdline" or e["occ"] != L["exp"][aid]:
                    return "level %d: %r was given as %r but is reported as %r" % (
                        k, aid, L["exp"][aid], None if e is None else (e["src"], e["occ"]))
            elif not isglobal:
                if e is not None and e["src"] == "cmdline":
                    return "level %d: %r was not given at this level but is reported from the command line: %r" % (
                        k, aid, e["occ"])
        for aid, e in em.items():
            # ids a level does not define may only be globals of the chain (propagate_globals inserts the
            # whole vals_map at every level, also above the defining command: DESIGN 7-O)
            if aid not in defined and aid != b"" and aid not in chain_globals:
                return "level %d reports %r, which neither this level nor a global of the chain defines" % (k, aid)
    # ---- an explicit occurrence of a global always beats a default
    for d, L in enumerate(sc.levels):
        for a in L["node"]["args"]:
            if "global" not in a.get("flags", set()):
                continue
            given = [sc.levels[i]["exp"][a["id"]] for i in range(d, len(sc.levels)) if a["id"] in sc.levels[i]["exp"]]
            for i in range(d, len(sc.levels)):
                e = ent_map(lv[i][0]).get(a["id"])
                if given:
                    if e is None or e["src"] != "cmdline" or e["occ"] not in given:
                        return ("global %r was given explicitly (%r) at a level at or below its definition but level %d "
                                "reports %r" % (a["id"], given, i, None if e is None else (e["src"], e["occ"])))
                else:
                    if e is not None and e["src"] == "cmdline":
                        return "global %r was never given but level %d reports a command-line value %r" % (
                            a["id"], i, e["occ"])
                    if e is not None and a.get("default") and not a.get("env") and e["occ"] != [list(a["default"])]:
                        return "global %r: default %r expected at level %d, got %r" % (a["id"], a["default"], i, e["occ"])
    return None


def project(r):
    p = parse_result(r)
    if p["kind"] == "ok":
        out = []
        for ents, sub in levels(p["m"]):
            out.append("[" + " ".join("%s:%s:%s" % (hexs(e["id"]), e["src"],
                                                    "/".join(",".join(hexs(v) for v in g) for g in e["occ"]))
                                      for e in ents) + "]" + (hexs(sub) if sub is not None else ""))
        return "ok " + " > ".join(out)
    if p["kind"] == "err":
        return "help-or-version" if p["ekind"] in ("DisplayHelp", "DisplayVersion") else "err"
    return p["kind"]


def nontrivial(case, impl):
    p = parse_result(impl)
    if p["kind"] != "ok":
        return False
    lv = levels(p["m"])
    return len(lv) >= 2


def classify_known(stream, case, impl, failure):
    """the two recorded families are identified by the input (the scan of the case line), not by the symptom"""
    try:
        cmd, argv = decode_case(case)
        if not strict(cmd):
            return None
        sc = scan(cmd, argv[1:])
    except Exception:
        return None
    if sc is None:
        return None
    if sc.stale_cluster:
        return "C09-flag-cluster-stale-at"
    if sc.prefix_cluster:
        return "C09-flag-cluster-prefix"
    return None


# =============================================================================== the `wide` family (third pass)
# Directed trees and lines for the class of ParseProofs/ChainWide.v: positionals before a subcommand name (single-valued
# ones, then at most one multi-valued), `subcommand_precedence_over_arg` chosen independently PER LEVEL, `infer_subcommands`
# with names/aliases sharing prefixes, `--` before a subcommand name, a global option given at several levels with different
# values.  `wide_read` is an independent reference reading of such a line (written from the documentation of the two
# settings, not from the Coq model); it gives up (None) on everything it is not sure about.
W_NAMES = [b"sync", b"status", b"set", b"remove", b"run", b"rm-all", b"list"]
W_ALIASES = [b"delete", b"store", b"rerun", b"ls", b"synchro"]
W_WORDS = [b"a", b"b", b"x1", b"zz", b"file", b"v.txt"]


def wide_tree(rng, depth=0, inherited_g=False):
    c = {"name": b"p" if depth == 0 else None, "about": b"A", "args": [], "groups": [], "subs": [], "settings": [],
         "aliases": []}
    if depth == 0:
        if chance(rng, 0.7):
            c["settings"].append("infer_subcommands")         # a global setting: every level infers
        c["args"].append({"id": b"g", "flags": {"global"}, "short": "g", "long": b"cfg", "action": "set",
                          "default": [b"d"]})
    if chance(rng, 0.5):
        c["settings"].append("subcommand_precedence_over_arg")    # local: THIS level only
    c["args"].append({"id": ("f%d" % depth).encode(), "flags": set(), "short": "v", "long": None, "action": "settrue"})
    nsingle = rng.randrange(0, 3)
    for k in range(nsingle):
        c["args"].append({"id": ("s%d_%d" % (depth, k)).encode(), "flags": set()})
    if chance(rng, 0.6):
        c["args"].append({"id": ("m%d" % depth).encode(), "flags": set(), "action": "append", "num": (1, None)})
    if depth < 2 and chance(rng, 0.85 if depth == 0 else 0.5):
        names = list(W_NAMES)
        rng.shuffle(names)
        als = list(W_ALIASES)
        rng.shuffle(als)
        for n in names[:rng.randrange(1, 5)]:
            sc = wide_tree(rng, depth + 1)
            sc["name"] = n
            if als and chance(rng, 0.5):
                sc["aliases"] = [(als.pop(), chance(rng, 0.5))]
            c["subs"].append(sc)
    return c


def wide_resolve(node, infer, tok):
    """the subcommand of `node` the word `tok` selects, per the documentation: exact name or alias; with
    infer_subcommands also the unique subcommand one of whose names starts with `tok`.  Returns (sub or None, sure)."""
    if not node["subs"]:
        return None, True
    if b"help".startswith(tok) or tok.startswith(b"help"):
        return None, False                    # the generated `help` subcommand: not this family
    exact = [s for s in node["subs"] if tok == s["name"] or tok in [n for n, _ in s["aliases"]]]
    if not infer:
        return (exact[0] if exact else None), True
    cand = [s for s in node["subs"] if s["name"].startswith(tok) or any(n.startswith(tok) for n, _ in s["aliases"])]
    if len(cand) == 1:
        return cand[0], True
    if exact:
        return exact[0], True
    return None, True


def wide_family(cmd, depth=0):
    """exactly the definitions `wide_tree` produces (the shrinker removes parts of a definition: no verdict then)"""
    if cmd.get("groups") or cmd.get("ext") or cmd.get("ext_items") or cmd.get("short_flag") or cmd.get("long_flag") \
            or cmd.get("short_flag_aliases") or cmd.get("long_flag_aliases"):
        return False
    if set(cmd["settings"]) - ({"infer_subcommands", "subcommand_precedence_over_arg"} if depth == 0
                               else {"subcommand_precedence_over_arg"}):
        return False
    named = [a for a in cmd["args"] if not is_pos(a)]
    want = 2 if depth == 0 else 1
    if len(named) != want:
        return False
    for a in named:
        keys = {k for k, v in a.items() if v and k != "id"}
        if a["id"] == b"g" and depth == 0:
            if keys != {"flags", "short", "long", "action", "default"} or a["flags"] != {"global"} or a["short"] != "g" \
                    or a["long"] != b"cfg" or a["action"] != "set" or a["default"] != [b"d"]:
                return False
        elif keys != {"short", "action"} or a["short"] != "v" or a["action"] != "settrue":
            return False
    seen_multi = False
    for a in cmd["args"]:
        if not is_pos(a):
            continue
        keys = {k for k, v in a.items() if v and k != "id"}
        if seen_multi:
            return False
        if keys == {"action", "num"} and a["action"] == "append" and tuple(a["num"]) == (1, None):
            seen_multi = True
        elif keys:
            return False
    return all(wide_family(s, depth + 1) for s in cmd["subs"])


def wide_read(cmd, argv):
    """-> dict(chain=[names], levels=[dict(node, pos={id: [values]}, g=value or None)]) or None"""
    if not wide_family(cmd):
        return None
    infer = "infer_subcommands" in cmd["settings"]
    node = cmd
    out = {"chain": [], "levels": []}
    i = 0
    while True:
        singles = [a for a in node["args"] if is_pos(a) and not a.get("num")]
        multi = [a for a in node["args"] if is_pos(a) and a.get("num")]
        prec = "subcommand_precedence_over_arg" in node["settings"]
        lvl = {"node": node, "pos": collections.OrderedDict(), "g": None, "flag": False}
        nfilled, in_multi, escaped, nxt = 0, False, False, None
        while i < len(argv):
            tok = argv[i]
            if not escaped and tok == b"--":
                escaped = True
                i += 1
                continue
            if not escaped and tok.startswith(b"-"):
                if in_multi:
                    return None               # options behind the values of a multi-valued positional: not this family
                if tok == b"-v":
                    if lvl["flag"]:
                        return None
                    lvl["flag"] = True
                    i += 1
                    continue
                if tok in (b"-g", b"--cfg"):
                    if i + 1 >= len(argv) or lvl["g"] is not None:
                        return None
                    v = argv[i + 1]
                    if v.startswith(b"-") or v == b"" or not _utf8(v) or wide_resolve(node, infer, v) != (None, True):
                        return None           # a value that could be read as a subcommand / is rejected: no verdict
                    lvl["g"] = v
                    i += 2
                    continue
                return None
            if not escaped and (not in_multi or prec):
                sub, sure = wide_resolve(node, infer, tok)
                if not sure:
                    return None
                if sub is not None:
                    nxt = sub
                    i += 1
                    break
            elif not escaped:
                # a word behind multi-values on a level without precedence: a value, whatever it is
                if b"help".startswith(tok) or tok.startswith(b"help"):
                    return None
            if not _utf8(tok) or tok == b"":
                return None
            if nfilled < len(singles):
                lvl["pos"][singles[nfilled]["id"]] = [tok]
                nfilled += 1
            elif multi:
                lvl["pos"].setdefault(multi[0]["id"], []).append(tok)
                in_multi = True
            else:
                return None                   # nowhere to put the word: rejected (which error is not this property)
            i += 1
        out["levels"].append(lvl)
        if nxt is None:
            return out
        out["chain"].append(nxt["name"])
        node = nxt


def wide_render(rng, root, stats):
    infer = "infer_subcommands" in root["settings"]
    toks, node = [], root
    while True:
        singles = [a for a in node["args"] if is_pos(a) and not a.get("num")]
        multi = [a for a in node["args"] if is_pos(a) and a.get("num")]
        prec = "subcommand_precedence_over_arg" in node["settings"]
        items = []
        if chance(rng, 0.4):
            items.append([b"-v"])
        if chance(rng, 0.55):
            items.append([pick(rng, [b"-g", b"--cfg"]), pick(rng, [b"x", b"y", b"z", b"w"])])
            stats["global_given"] += 1
        words = [[pick(rng, W_WORDS)] for _ in range(rng.randrange(0, len(singles) + 1))]
        seq = items + words
        # options and single-valued positionals interleave freely; positional order is preserved by construction
        rng.shuffle(seq)
        for it in seq:
            toks += it
        nvals = 0
        if multi and len(words) == len(singles) and chance(rng, 0.6):
            nvals = rng.randrange(1, 4)
            toks.append(pick(rng, W_WORDS))
            for _ in range(nvals - 1):
                if node["subs"] and chance(rng, 0.5):
                    toks.append(pick(rng, node["subs"])["name"])      # a subcommand NAME among the values
                    stats["name_among_multi_values:%s" % ("precedence" if prec else "swallowed")] += 1
                else:
                    toks.append(pick(rng, W_WORDS))
        r = rng.random()
        if r < 0.12:
            toks.append(b"--")
            for _ in range(rng.randrange(0, 3)):
                toks.append(pick(rng, [s["name"] for s in node["subs"]] + W_WORDS) if node["subs"] else pick(rng, W_WORDS))
            stats["ended_by:escape"] += 1
            return toks
        if not node["subs"] or r < 0.3:
            stats["ended_by:end"] += 1
            return toks
        s = pick(rng, node["subs"])
        forms = [("name", s["name"])] * 2 + [("alias", n) for n, _ in s["aliases"]]
        if infer:
            forms += [("name-prefix", s["name"][:k]) for k in range(1, len(s["name"]))]
            forms += [("alias-prefix", n[:k]) for n, _ in s["aliases"] for k in range(1, len(n))]
        kind, tok = pick(rng, forms)
        sub, sure = wide_resolve(node, infer, tok)
        stats["selected_by:%s%s%s" % (kind, "" if sub is s else ("/ambiguous" if sub is None else "/other"),
                                      ",behind-multi-values" if nvals else "")] += 1
        toks.append(tok)
        if sub is None or not sure or (nvals and not prec):
            # not dispatched (ambiguous prefix / swallowed): the rest of the line belongs to this level
            if chance(rng, 0.5):
                toks.append(pick(rng, W_WORDS))
            return toks
        node = sub


def gen_wide(rng, n, per_cmd=6):
    stats = collections.Counter()
    cases = []
    while len(cases) < n:
        c = wide_tree(rng)
        stats["tree_depth:%d" % tree_depth(c)] += 1
        for _ in range(per_cmd):
            toks = wide_render(rng, c, stats)
            if chance(rng, 0.1):
                toks = mutate(rng, toks)
                stats["mutated"] += 1
            cases.append(gen_cmd.case_sx(c, [b"prog"] + toks, mode="parse"))
            rd = wide_read(c, toks)
            stats["read:" + ("no-verdict" if rd is None else "chain-length:%d" % len(rd["chain"]))] += 1
            if rd is not None:
                given = [k for k, L in enumerate(rd["levels"]) if L["g"] is not None]
                stats["read:global given at %d level(s)" % len(given)] += 1
    return cases[:n], dict(sorted(stats.items()))


def oracle_wide(case, impl):
    f = oracle(case, impl)                # chain well formed, globals agree at every level (all streams)
    if f:
        return f
    p = parse_result(impl)
    if p["kind"] not in ("ok", "err"):
        return None
    try:
        cmd, argv = decode_case(case)
    except Exception:
        return None
    rd = wide_read(cmd, argv[1:])
    if rd is None:
        return None
    exp_chain = [n.decode() for n in rd["chain"]]
    if p["kind"] == "err":
        if p["ekind"] in ("DisplayHelp", "DisplayVersion"):
            return None
        return "wide: a valid line naming the chain %r was rejected with %s" % (exp_chain, p["ekind"])
    lv = levels(p["m"])
    got = [sub.decode("utf-8", "replace") for _, sub in lv if sub is not None]
    if got != exp_chain:
        return "wide: the line names the chain %r, reported %r" % (exp_chain, got)
    # level isolation: the positional values of each level are the words given at that level
    for k, L in enumerate(rd["levels"]):
        em = ent_map(lv[k][0])
        for a in L["node"]["args"]:
            if not is_pos(a):
                continue
            e = em.get(a["id"])
            want = L["pos"].get(a["id"])
            if want is None:
                if e is not None and e["src"] == "cmdline":
                    return "wide: level %d reports positional %r from the command line, none was given there" % (k, a["id"])
            elif e is None or e["src"] != "cmdline" or [v for g in e["occ"] for v in g] != want:
                return "wide: level %d, positional %r: given %r, reported %r" % (
                    k, a["id"], want, None if e is None else (e["src"], e["occ"]))
    # the global `g` (defined at the root): the DEEPEST level that names it decides, at every level
    given = [L["g"] for L in rd["levels"] if L["g"] is not None]
    for k in range(len(rd["levels"])):
        e = ent_map(lv[k][0]).get(b"g")
        if given:
            if e is None or e["src"] != "cmdline" or e["occ"] != [[given[-1]]]:
                return "wide: global g given %r (top to bottom): level %d must report the deepest one, reports %r" % (
                    given, k, None if e is None else (e["src"], e["occ"]))
        elif e is None or e["src"] != "default" or e["occ"] != [[b"d"]]:
            return "wide: global g never given: level %d must report the default, reports %r" % (
                k, None if e is None else (e["src"], e["occ"]))
    return None


# =============================================================================== streams
BOUNDARY = [b"--", b"-", b"", b"-x", b"-S", b"-Sq", b"-vS", b"--syncf", b"--syncf=v", b"sync", b"sy", b"s", b"help",
            b"\xff", b"--out", b"--out=", b"-o", b"-ov", b"--verbose", b"-v", b"ext", b"--", b"-SQ", b"-QS"]


def mutate(rng, toks):
    toks = list(toks)
    k = rng.randrange(6)
    if k == 0 and toks:
        del toks[rng.randrange(len(toks))]
    elif k == 1 and toks:
        i = rng.randrange(len(toks))
        toks.insert(i, toks[i])
    elif k == 2 and toks:
        toks[rng.randrange(len(toks))] = pick(rng, BOUNDARY)
    elif k == 3 and len(toks) >= 2:
        i = rng.randrange(len(toks) - 1)
        toks[i], toks[i + 1] = toks[i + 1], toks[i]
    elif k == 4:
        toks.insert(rng.randrange(len(toks) + 1), pick(rng, BOUNDARY))
    else:
        toks.append(pick(rng, BOUNDARY))
    return toks


def gen_dedicated(rng, n, P, explicit_p, p_mutate, per_cmd=5):
    stats = collections.Counter()
    cases = []
    while len(cases) < n:
        c = gen_tree(rng, P)
        stats["tree_depth:%d" % tree_depth(c)] += 1
        for lvl, k in global_placements(c).items():
            stats["globals_defined_at_level:%d" % lvl] += k
        for _ in range(per_cmd):
            toks = render(rng, c, stats, explicit_p)
            if chance(rng, p_mutate):
                toks = mutate(rng, toks)
                if chance(rng, 0.3):
                    toks = mutate(rng, toks)
                stats["mutated"] += 1
            cases.append(gen_cmd.case_sx(c, [b"prog"] + toks, mode="parse"))
            sc = scan(c, toks) if strict(c) else None
            if sc is None:
                stats["scan:no-verdict"] += 1
            else:
                stats["scan:valid-line,chain-length:%d%s" % (len(sc.chain), "+external" if sc.ext else "")] += 1
                stats["scan:known-family-prefix"] += sc.prefix_cluster
                stats["scan:known-family-stale-at"] += sc.stale_cluster
                for d, L in enumerate(sc.levels):
                    for a in L["node"]["args"]:
                        if "global" in a["flags"]:
                            lv_given = [i for i in range(d, len(sc.levels)) if a["id"] in sc.levels[i]["exp"]]
                            stats["global(defined at %d, %d levels below): given at %d level(s)" % (
                                d, len(sc.levels) - d - 1, len(lv_given))] += 1
    return cases[:n], dict(sorted(stats.items()))


def tree_depth(c):
    return 0 if not c["subs"] else 1 + max(tree_depth(s) for s in c["subs"])


def global_placements(c, d=0, out=None):
    out = collections.Counter() if out is None else out
    out[d] += sum(1 for a in c["args"] if "global" in a["flags"])
    for s in c["subs"]:
        global_placements(s, d + 1, out)
    return out


def streams(tier, rng):
    quick = tier == "quick"
    out = []
    c1, d1 = gen_dedicated(rng, 4000 if quick else 60000, TreeParams(), 0.4, 0.0)
    out.append(Stream("dispatch", c1, oracle=oracle, area="c09", project=project, nontrivial=nontrivial, describe=d1))
    c2, d2 = gen_dedicated(rng, 3000 if quick else 50000,
                           TreeParams(p_global=0.8, p_default=0.5, p_env=0.2, p_external=0.15, p_positional=0.15),
                           0.55, 0.0)
    out.append(Stream("globals", c2, oracle=oracle, area="c09", project=project, nontrivial=nontrivial, describe=d2))
    c3, d3 = gen_dedicated(rng, 3000 if quick else 50000, TreeParams(p_global=0.5), 0.4, 1.0)
    out.append(Stream("adversarial", c3, oracle=oracle, area="c09", project=project, nontrivial=nontrivial, describe=d3))
    c4 = gen_cases(rng, 3000 if quick else 40000,
                   dict(depth=3, globals=0.6, flag_subs=0.5, aliases=0.5, external=0.3, invalid=0.0, relations=0.1,
                        groups=0.1), per_cmd=4, p_mutate=0.3)
    out.append(Stream("shared-trees", c4, oracle=oracle, area="c09", project=project, nontrivial=nontrivial,
                      describe={"generator": "vp/gen_cmd.py Profile(depth=3, globals=0.6, flag_subs=0.5, aliases=0.5, "
                                             "external=0.3, invalid=0, relations=0.1, groups=0.1)"}))
    c5, d5 = gen_wide(rng, 2500 if quick else 40000)
    out.append(Stream("wide", c5, oracle=oracle_wide, area="c09", project=project, nontrivial=nontrivial, describe=d5))
    return out
