"""C05: everything after `--` is delivered verbatim as positional values.

A case is `(c05 (cmd ...) (pre x.. ...) (tail x.. ...) (alt x.. ...))`; implementation
(harness/src/modes/c05.rs) and model (ocaml/escape_driver.ml) parse
    A = pre ++ ["--"] ++ tail      B = pre ++ ["--"] ++ alt      C = pre ++ ["--"]
against the same command and print the three canonical results separated by ` ;; `.
`alt` has as many tokens as `tail`, all of them innocuous words.

The oracle below is written from the property text and looks at the implementation's output only."""
import collections

from .. import gen_cmd
from ..core import hexs, unhex, sx_parse
from ..parse_streams import cmd_of_sx, parse_result, levels, GLOBAL_SETTINGS
from ..runner import Stream

ID = "C05"
AREAS = ["escape"]
RULE = ("random command trees (vp/gen_cmd.py) post-processed so that most levels end in a multi-value positional "
        "(with/without last, trailing_var_arg, delimiter, terminator, allow_missing_positional, "
        "dont_delimit_trailing_values, hyphen values, options, flags, subcommands, flag subcommands, inference, "
        "external subcommands) x prefixes cut from rendered invocations (optionally ending in an option that still "
        "expects values, or with values of the final positional already given) x tails drawn from "
        "{--help,-h,--version,-V,-x,--<long>,--<long>=v,-<short>,subcommand names/aliases/prefixes,help,--,'',-,"
        "non-UTF-8 bytes,values with the delimiter,the terminator,words}; every case is parsed with the tail, with an "
        "innocuous tail of the same length and with no tail.  A case is non-trivial when the configuration is accepted, "
        "the tail is non-empty and contains at least one token that would be classified (flag-like, subcommand name, "
        "empty, delimiter-carrying, terminator) if it stood before the `--`; distinct = distinct case text.")
TRUSTED = [
    "Coq 8.16.1 kernel (coqc); no native_compute; theorems C05_* are 'Closed under the global context'",
    "extraction: ExtrOcamlBasic only, no Extract Constant; OCaml driver ocaml/escape_driver.ml + common_parse/{spec,show}.ml",
    "correspondence: vp/props/c05.py + vp/gen_cmd.py generators, harness/src/modes/{c05,parse}.rs (builds clap::Command "
    "from the spec, three parses per case), comparison of outcome kind, subcommand chain and raw values of every entry",
    "modelled not verified: Rust core (Vec, String, OsStr::split, str::from_utf8), strsim::jaro (InvalidSubcommand vs "
    "UnknownArgument is one class in the projection)",
]
ASSUMPTIONS = [
    "whole-parse theorems (C05_parse_top_delivered, C05_parse_top_prefix_same and their do_parse/get_matches_with "
    "forms) are stated for the boolean class esc_class: plain (no short flag-subcommands, as for C01), valid, and at "
    "every level of the built tree no ignore_errors, no argument with allow_hyphen_values, no subcommand named/prefixed "
    "`--`, no Help/Version-action argument with an env variable or default; global arguments: none for the "
    "prefix-preservation theorems (globals_free), allowed for delivery (esc_class_g: no positional shares an id with a "
    "global argument) and for the help/version theorems (esc_class0); parse_top with a bin name already set "
    "(otherwise argv[0] is stored in the definition before it is built; do_parse form has no such hypothesis)",
    "the verbatim-delivery conclusion is for two classes of levels: sink_from (after the `--` every token goes to ONE "
    "multi-valued positional without terminator -- for every value of the positional counter (a `last` positional or "
    "allow_missing_positional) or because the counter cannot move (`sticky`)) and chainc (single-valued positionals "
    "followed by a multi-valued one, e.g. `<src> <dst> [rest]...`: no last/allow_missing_positional/terminators/"
    "low-index-multiple rule, indices 1..n all declared, positionals not overriding each other); Append positionals "
    "with num_args(1), value terminators and levels whose positionals cannot absorb the whole tail are covered by "
    "C05_trailing_loop_is_absorb/C05_trailing_outcome, C05_escape_line_sim and the differential run only",
    "prefix preservation (C05_*_prefix_same): at the level that consumed the `--` for command-line entries outside "
    "`touched` (= the positional, its groups, its overrides relation); at the levels above it for all entries",
    "round 3: the prefix-preservation / no-dispatch theorems (C05_parse_top_prefix_any, C05_level_prefix_any, "
    "C05_trailing_any_base) are stated for the boolean class esc_class_h: plain, valid, no ignore_errors and no "
    "subcommand named `--` at any level -- every shape of positionals, hyphen-accepting arguments and global arguments "
    "allowed; entries of global arguments (rewritten by fill_in_global_values at every level) are not compared; when an "
    "argument with allow_hyphen_values is still being collected at the `--` (hyphen_exception, the documented exception) "
    "nothing is claimed.  Delivery with hyphen-accepting and global arguments present: class esc_class_hg (esc_class_h "
    "and no positional shares an id with a global argument): delivered_h (sink_from / chainc levels), delivered_a (sink1: "
    "the positional at index 1 is an Append positional with num_args(1), the positional counter cannot move, the "
    "positional does not override itself).  dont_delimit_trailing_values as a global setting: c_gset of the root "
    "(C05_global_ddt_every_level, for plain definitions)",
    "no multicall, no Command::defer, built-in value parsers only; OsStr = bytes (Unix)",
]
TECHNIQUE = ("Coq proof (the parse loop with trailing_values set equals a classification-free loop `absorb`; one walk over "
             "every branch of the loop body shows an iteration reads the rest of the line only through its first token, "
             "hence by induction the state at the `--` does not depend on the tail (two-tail simulation carrying the "
             "invariant 'a pending argument takes values'); composition through resolve_pending/react, add_env, "
             "add_defaults, validate, the recursion into subcommands, do_parse and parse_top; round 3: a frame invariant of "
             "the trailing-mode loop ('the occurrence being collected is a positional's') for every shape of positionals, "
             "the same walk without the no-hyphen-values hypothesis, induction over the tail for one-occurrence-per-token "
             "positionals, the propagation of global settings through the build step, fill_in_global_values as a frame) + "
             "extracted-model/implementation correspondence + metamorphic oracle on the implementation")
LEVEL_TEXT = ("Machine-checked theorems (Coq 8.16, closed under the global context) about the executable model of "
              "clap_builder's parser, up to parse_top: for every definition of the boolean class esc_class (valid, no "
              "short flag-subcommands, no ignore_errors / allow_hyphen_values / subcommand named `--` / global args), "
              "every prefix and every non-empty tail, a successful parse of `bin pre.. -- tail..` has delivered the tail: "
              "at the level that consumed the `--` (the root or the subcommand selected by the prefix) the loop ended "
              "without dispatching anything, no subcommand is recorded there, and the entry of the absorbing positional "
              "(class sink_from: `last`/allow_missing_positional multi-valued positional, or a command whose positional "
              "counter cannot move) has the tail byte-for-byte and in order as the suffix of its last value group (split "
              "only at a declared delimiter, not at all with dont_delimit_trailing_values); for levels of class chainc "
              "(single-valued positionals followed by a multi-valued one) the tail tokens are distributed in order, one to "
              "each single-valued positional from the counter on and the rest to the multi-valued one, and the tail cannot "
              "overflow into an external subcommand; an external subcommand selected "
              "by the prefix receives `--` and the tail verbatim.  Two successful parses of the same prefix with different "
              "tails (the empty one included) agree on every command-line entry of that level outside the positional's "
              "overrides/groups relation and on all entries of the levels above it.  A help/version outcome of parse_top on `bin pre.. -- tail..` is the "
              "outcome (same error) for every other tail: no tail token causes it (the invariant that a Help/Version "
              "argument is never pending is proved for all reachable states; the phases after the loop, the help "
              "subcommand and the recursion into subcommands are covered).  Underneath: once trailing_values is set the loop equals, for every "
              "command, token list and state, a loop that only compares a token with a value terminator and pushes it.  "
              "Round 3 (class esc_class_h: no restriction on positionals, allow_hyphen_values or global arguments): in "
              "trailing mode no token reaches an argument that is not a positional -- an option still collecting values "
              "when the `--` arrives is closed in the state the `--` was met in, and two successful parses of the same "
              "prefix with different tails agree on every command-line entry no positional can touch (entries of global "
              "arguments excepted) and record no subcommand at the consuming level (subcommand_precedence_over_arg "
              "included), for Append/num_args(1) positionals, terminators, low-index multiples alike; levels that declare "
              "hyphen-accepting arguments are covered, the only other outcome being the documented exception (such an "
              "argument is still being collected at the `--`), reached in a tail-independent state; an Append positional "
              "with num_args(1) receives one value group per tail token, in order (class sink1); with "
              "dont_delimit_trailing_values given as a global setting every level of every subcommand chain has it and the "
              "tail -- first token included, whatever the positional held before the `--` -- is stored unsplit at any depth.  "
              "Refuted and replayed on the implementation (model = implementation): a tail token equal to the positional's "
              "value_terminator is consumed, not delivered (C05_terminator_tail_dropped_refuted); low-index multiples "
              "(C05_low_index_tail_shape_refuted).  "
              "The model is tied to clap_builder by running the extracted model and the real crate on the same generated "
              "cases on every check; an independent python oracle (values end with the tail, no tail token selects a "
              "subcommand/help/version, same outcome and same command-line entries as with an innocuous tail) runs on the "
              "implementation's output.")
LEVEL_NOTE = ("Trusted: Coq kernel, extraction, OCaml driver, Rust harness, generators. Differential/oracle only: delivery "
              "outside sink_from / chainc / sink1 (terminators -- where it is false --, low-index multiples, positionals "
              "overriding each other, overflow into external subcommands), help/version independence for trees with "
              "hyphen-accepting arguments, the tail after the hyphen-values exception, ignore_errors, subcommands named "
              "`--`, short flag-subcommands.")

SEP = " ;; "
INNOCUOUS = [b"zz", b"w7", b"q"]


# ------------------------------------------------------------------ decoding
def decode(case):
    sx = sx_parse(case)
    cmd = cmd_of_sx(sx[1][1:])
    pre = [unhex(t) for t in sx[2][1:]]
    tail = [unhex(t) for t in sx[3][1:]]
    alt = [unhex(t) for t in sx[4][1:]]
    return cmd, pre, tail, alt


def split3(r):
    if r is None:
        return None
    p = r.split(SEP)
    if len(p) not in (3, 4):
        return None
    return p


# ------------------------------------------------------------------ spec helpers (python reading of the builder API docs)
def is_opt(a):
    return bool(a.get("short") or a.get("long"))


def positionals_in_order(level_args):
    pos = [a for a in level_args if not is_opt(a)]
    out = []
    nxt = 1
    for a in pos:
        if a.get("index") is not None:
            out.append((a["index"], a))
        else:
            out.append((nxt, a))
        nxt += 1
    out.sort(key=lambda p: p[0])
    return [a for _, a in out]


def multi_valued(a):
    num = a.get("num")
    if num is not None and (num[1] is None or num[1] > 1 or num[0] > 1):
        return True
    return a.get("action") == "append"


def takes_value(a):
    return gen_cmd.takes_value(a)


def chain_levels(cmd, names):
    """[(command dict, effective settings, args visible at that level incl. propagated globals)] or None when a
    name of the chain is not a declared subcommand (external subcommand)."""
    out = []
    inh = set()
    glob = []
    cur = cmd
    for n in [None] + list(names):
        if n is not None:
            inh |= (set(cur["settings"]) | inh) & GLOBAL_SETTINGS
            glob = glob + [a for a in cur["args"] if "global" in a["flags"]]
            nxt = [s for s in cur["subs"] if s["name"] == n]
            if not nxt:
                return None
            cur = nxt[0]
        own_ids = {a["id"] for a in cur["args"]}
        out.append((cur, set(cur["settings"]) | inh, cur["args"] + [g for g in glob if g["id"] not in own_ids]))
    return out


def absorbing(args):
    """the level has positionals able to absorb any tail: the final positional is multi-valued,
    no positional has a value terminator (a terminator token is consumed, by its documentation) and no
    positional overrides a positional or itself (then later occurrences replace earlier ones, by the
    documentation of overrides_with)"""
    pos = positionals_in_order(args)
    if not pos:
        return False
    if any(a.get("term") is not None for a in pos):
        return False
    pos_ids = {a["id"] for a in pos}
    if any(set(a.get("overrides") or []) & pos_ids for a in pos):
        return False
    return multi_valued(pos[-1])


def maybe_hyphen_pending(args, pre_toks):
    """conservative: could the `--` be taken as a value of an argument that accepts hyphen values
    (documented behaviour of allow_hyphen_values)?  True = do not judge this case."""
    for a in args:
        if "hyphen" not in a["flags"]:
            continue
        if not is_opt(a):
            if multi_valued(a) and pre_toks:
                return True
            continue
        if not takes_value(a):
            continue
        num = a.get("num") or (1, 1)
        window = pre_toks if num[1] is None else pre_toks[-num[1]:] if num[1] > 0 else []
        longs = ([a["long"]] if a.get("long") else []) + [n for n, _ in a["aliases"]]
        shorts = ([a["short"]] if a.get("short") else []) + [n for n, _ in a["saliases"]]
        for t in window:
            if t.startswith(b"--") and len(t) > 2 and b"=" not in t:
                if any(l.startswith(t[2:]) for l in longs):
                    return True
            elif t.startswith(b"-") and not t.startswith(b"--"):
                if any(s.encode() in t[1:] for s in shorts):
                    return True
    return False


def delims_of(args):
    return sorted({a["delim"].encode() for a in args if not is_opt(a) and a.get("delim")})


def pieces(vals, delims):
    out = list(vals)
    for d in delims:
        out = [p for v in out for p in v.split(d)]
    return out


def ends_with(seq, suffix):
    return len(suffix) == 0 or (len(seq) >= len(suffix) and seq[-len(suffix):] == suffix)


def override_related(args):
    """ids of non-positional args in an overrides relation with a positional (the presence of the
    positional legitimately changes them)"""
    pos_ids = {a["id"] for a in args if not is_opt(a)}
    out = set()
    for a in args:
        ov = set(a.get("overrides") or [])
        if a["id"] in pos_ids:
            out |= ov
        elif ov & pos_ids:
            out.add(a["id"])
    return out


def cmdline_entries(ents, args, skip=()):
    """{id: occurrences} of the non-positional arguments given on the command line"""
    opt_ids = {a["id"] for a in args if is_opt(a)}
    return {e["id"]: e["occ"] for e in ents if e["id"] in opt_ids and e["src"] == "cmdline" and e["id"] not in skip}


COND_KEYS = ("r_if", "r_if_all", "requires_if", "difs")


REL_KEYS = ("conflicts", "requires", "overrides", "r_unless", "r_unless_all", "groups") + COND_KEYS


def fresh_room(ra, rc, lv, args, tail):
    """the other absolute case: the line without the tail is accepted, every earlier positional is filled (or the final one
    is last(true)), the final positional has not started, takes any string, is undelimited, stands in no relation with any
    argument, and the tail fits its range as one occurrence -- or as one occurrence per token when it is Append with
    num_args(1) (seeded change seed4/C05-2 stopped flushing such a positional between values: WrongNumberOfValues)"""
    pos = positionals_in_order(args)
    last = pos[-1]
    if last.get("vp") not in (None, "os", "string") or last.get("delim"):
        return None
    if any(a.get(k) for a in args for k in REL_KEYS) or any(a["flags"] & {"exclusive", "required"} for a in args if a is last):
        return None
    if any("exclusive" in a["flags"] for a in args) or lv[-1][0].get("groups"):
        return None          # (a group at the level relates its members: a non-multiple group is a conflict)
    if last.get("vp") != "os":
        try:
            for t in tail:
                t.decode("utf-8")
        except UnicodeDecodeError:
            return None
    lc = levels(rc["m"])
    if len(lc) != len(lv):
        return None
    ents = {x["id"]: x for x in lc[-1][0]}
    e = ents.get(last["id"])
    if e is not None and e["src"] == "cmdline":
        return None
    if "last" not in last["flags"]:
        for a in pos[:-1]:
            x = ents.get(a["id"])
            if x is None or x["src"] != "cmdline":
                return None
    lo, hi = last.get("num") or (1, 1)
    if last.get("action") == "append" and (lo, hi) == (1, 1):
        pass
    elif len(tail) < lo or (hi is not None and len(tail) > hi):
        return None
    STATS["judged:fresh-room"] += 1
    return "the final positional %s has not started, stands in no relation and has room for the tail, yet the line is " \
           "rejected with %s (without the tail: accepted)" % (last["id"].decode(), ra["ekind"])


def room_left(ra, rc, lv, args, pre, tail, parts):
    """the absolute half of 'able to absorb them': the line without the tail is accepted, its last token is a value of the
    final multi-valued positional (so that occurrence is still collecting when `--` is read), that positional takes any string,
    is undelimited, not named by a value-conditional rule, and has room for the whole tail -- then nothing can reject the
    tail: it only adds values to an argument that is present anyway (seeded change seed3/C05-3 flushed the occurrence at `--`)"""
    if rc["kind"] != "ok" or not tail or not pre:
        return None
    fr = fresh_room(ra, rc, lv, args, tail)
    if fr:
        return fr
    last = positionals_in_order(args)[-1]
    if last.get("vp") not in (None, "os", "string") or last.get("delim") or any(a.get(k) for a in args for k in COND_KEYS):
        return None
    if last.get("vp") != "os":
        try:
            for t in tail:
                t.decode("utf-8")     # the String parser rejects what is not UTF-8: a rule about the VALUE, not its look
        except UnicodeDecodeError:
            return None
    lc = levels(rc["m"])
    if len(lc) != len(lv):
        return None
    e = {x["id"]: x for x in lc[-1][0]}.get(last["id"])
    if e is None or e["src"] != "cmdline" or not e["occ"] or not e["occ"][-1] or not e["idx"]:
        return None
    top = max([i for ents, _ in lc for x in ents if x["src"] == "cmdline" for i in x["idx"]] or [0])
    if e["idx"][-1] != top or e["occ"][-1][-1] != pre[-1]:
        return None
    hi = (last.get("num") or (1, 1))[1]
    if hi is not None and len(e["occ"][-1]) + len(tail) > hi:
        return None
    STATS["judged:room-left"] += 1
    return "the final positional %s was collecting values when `--` was read and has room for the tail, yet the line is " \
           "rejected with %s (without the tail: accepted)" % (last["id"].decode(), ra["ekind"])


CLASSIFYING_KINDS = ("DisplayHelp", "DisplayVersion", "UnknownArgument", "InvalidSubcommand", "NoEquals")
STATS = collections.Counter()


def oracle(case, impl):
    parts = split3(impl)
    if parts is None:
        STATS["judged:no(invalid/odd)"] += 1
        return None
    ra, rb, rc = [parse_result(p) for p in parts[:3]]
    rd = parse_result(parts[3]) if len(parts) > 3 else None      # the prefix alone, no escape at all
    STATS["A:" + (ra["kind"] if ra["kind"] != "err" else ra["ekind"])] += 1
    if any(r["kind"] not in ("ok", "err") for r in (ra, rb, rc) + ((rd,) if rd else ())):
        STATS["judged:no(panic/abort)"] += 1
        return None                               # panics belong to C01
    cmd, pre, tail, alt = decode(case)
    if len(alt) != len(tail) or (not pre and "no_binary_name" not in cmd["settings"]):
        STATS["judged:no(malformed case)"] += 1
        return None                               # only the shrinker produces these
    if "ignore_errors" in cmd["settings"]:
        STATS["judged:no(ignore_errors)"] += 1
        return None                               # partial matches by design; model=impl still compared
    # the level that parses the `--`: the end of the subcommand chain selected by the prefix
    # (read off the run without tail, else the run with the innocuous tail -- never off the run under test)
    chain = None
    for r in (rc, rb):
        if r["kind"] == "ok":
            chain = [n for _, n in levels(r["m"]) if n is not None]
            break
    if chain is None:
        # no accepted run to read the chain from: only a command without any subcommand (declared or
        # external), or an empty prefix, has a known chain
        no_prefix = len(pre) == (0 if "no_binary_name" in cmd["settings"] else 1)     # `--` is the first token
        if not no_prefix and (cmd["subs"] or cmd.get("ext") or "allow_external_subcommands" in cmd["settings"]):
            STATS["judged:no(no ok run)"] += 1
            return None
        chain = []
    lv = chain_levels(cmd, chain)
    if lv is not None:
        # a declared name can also be reached as an *external* subcommand (its matches hold the
        # values under the empty id)
        for r in (ra, rb, rc):
            if r["kind"] == "ok" and any(e["id"] == b"" for ents, _ in levels(r["m"]) for e in ents):
                lv = None
    if lv is None:
        STATS["judged:no(external subcommand)"] += 1
        return None
    level_cmd, settings, args = lv[-1]
    if not absorbing(args):
        STATS["judged:no(not absorbing)"] += 1
        return None
    pre_toks = pre if "no_binary_name" in cmd["settings"] else pre[1:]
    if maybe_hyphen_pending(args, pre_toks):
        STATS["judged:no(hyphen value may take --)"] += 1
        return None
    STATS["judged:yes"] += 1

    def chain_of(r):
        return [n for _, n in levels(r["m"]) if n is not None]

    # none of the tail tokens is a help/version request ...
    if ra["kind"] == "err" and ra["ekind"] in ("DisplayHelp", "DisplayVersion"):
        if not (rc["kind"] == "err" and rc["ekind"] == ra["ekind"]):
            return "a token after `--` was taken as a help/version request: with tail %s, without tail %s" % (
                parts[0][:80], parts[2][:80])
    # ... or a flag/option/subcommand.  An error raised while the prefix is read shows up identically
    # without the tail; any other flag/option/subcommand-class error means a tail token was classified
    # (the positionals of this level absorb every token, so there is no overflow)
    if ra["kind"] == "err" and ra["ekind"] in ("UnknownArgument", "InvalidSubcommand", "NoEquals") \
            and not (rc["kind"] == "err" and rc["ekind"] == ra["ekind"]):
        return "tail rejected with %s (without the tail: %s): a token after `--` was classified" % (
            ra["ekind"], parts[2][:60])
    # the same, relative to an innocuous tail of the same length
    if rb["kind"] == "ok" and ra["kind"] == "err" and ra["ekind"] in CLASSIFYING_KINDS:
        return "tail rejected with %s although the same line with innocuous words after `--` is accepted" % ra["ekind"]
    if ra["kind"] != "ok":
        return room_left(ra, rc, lv, args, pre, tail, parts)
    if chain_of(ra) != chain:
        return "subcommand chain depends on the tail: %r vs %r" % (chain_of(ra), chain)
    for r in (rb, rc):
        if r["kind"] == "ok" and chain_of(r) != chain_of(ra):
            return "a token after `--` selected a subcommand: chain %r, without/with innocuous tail %r" % (
                chain_of(ra), chain_of(r))
    la = levels(ra["m"])
    if len(la) != len(lv):
        return None
    ents = la[-1][0]
    by_id = {e["id"]: e for e in ents}
    vals = []
    for a in positionals_in_order(args):
        e = by_id.get(a["id"])
        if e is not None and e["src"] == "cmdline":
            vals += [v for g in e["occ"] for v in g]
    ds = delims_of(args)
    if ds and "dont_delimit_trailing_values" not in settings:
        got, want = pieces(vals, ds), pieces(tail, ds)
    else:
        got, want = vals, tail
    if not ends_with(got, want):
        return "positional values %r do not end with the tail %r (delimiters %r, dont_delimit_trailing_values %s)" % (
            got, want, ds, "dont_delimit_trailing_values" in settings)
    # a `last(true)` positional is where the parser JUMPS to at `--` (anchors: pos_counter block, contains_last): the whole
    # tail belongs to it, whatever the declaration order of the positionals and whichever of them are still unfilled
    # (seeded change seed4/C05-1 keyed the jump on the positional declared last; the tokens then filled earlier positionals)
    lasts = [a for a in positionals_in_order(args) if "last" in a["flags"]]
    if len(lasts) == 1 and not lasts[0].get("delim"):
        e = by_id.get(lasts[0]["id"])
        lv_ = [v for g in e["occ"] for v in g] if e is not None and e["src"] == "cmdline" else []
        if tail and lv_ != tail:
            return "the last(true) positional %s holds %r, the tail is %r" % (lasts[0]["id"].decode(), lv_, tail)
    # flags and options given before the `--` keep their values
    if rb["kind"] == "ok":
        lb = levels(rb["m"])
        for (ea, _), (eb, _), (_, _, largs) in zip(la, lb, lv):
            if cmdline_entries(ea, largs) != cmdline_entries(eb, largs):
                return "options given before `--` differ between the tail and an innocuous tail: %r vs %r" % (
                    cmdline_entries(ea, largs), cmdline_entries(eb, largs))
    for rx, what in ((rc, "with and without the tail"), (rd, "with the tail and on the prefix alone (no `--`)")):
        if rx is None or rx["kind"] != "ok":
            continue
        lc = levels(rx["m"])
        if [n for _, n in lc if n is not None] != chain:
            continue
        skip = set()        # (global arguments are propagated between levels: one skip set for the chain)
        for _, _, largs in lv:
            skip |= override_related(largs)
        for (ea, _), (ec, _), (_, _, largs) in zip(la, lc, lv):
            if cmdline_entries(ea, largs, skip) != cmdline_entries(ec, largs, skip):
                return "options given before `--` differ %s: %r vs %r" % (
                    what, cmdline_entries(ea, largs, skip), cmdline_entries(ec, largs, skip))
    return None


def classified_shape(t, names):
    if t == b"--":
        return "dashdash"
    if t == b"":
        return "empty"
    if t == b"-":
        return "dash"
    try:
        t.decode("utf-8")
    except UnicodeDecodeError:
        return "non-utf8"
    if t in (b"--help", b"-h"):
        return "help-flag"
    if t in (b"--version", b"-V"):
        return "version-flag"
    if t.startswith(b"--"):
        return "long=value" if b"=" in t else "long"
    if t.startswith(b"-"):
        return "short"
    if t == b"help":
        return "help-subcommand"
    if t in names:
        return "subcommand-name"
    if any(n.startswith(t) for n in names):
        return "subcommand-prefix"
    if t == b"END":
        return "terminator"
    if b"," in t:
        return "delimiter-value"
    return "word"


def sub_names(c):
    out = []
    for s in c["subs"]:
        out.append(s["name"])
        out += [n for n, _ in s.get("aliases", [])]
    return out


def nontrivial(case, impl):
    if impl is None or impl.startswith("INVALID"):
        return False
    cmd, pre, tail, alt = decode(case)
    names = set()

    def walk(c):
        names.update(sub_names(c))
        for s in c["subs"]:
            walk(s)
    walk(cmd)
    return any(classified_shape(t, names) != "word" for t in tail)


# ------------------------------------------------------------------ projections
def _norm_err(p):
    k = p.split(" ")
    kinds = set(k[1].split("|"))
    if kinds & {"UnknownArgument", "InvalidSubcommand"}:
        k[1] = "unknown-token"
    return " ".join(k[:4])


def _proj_one(r, pos_only):
    if r.startswith("ok "):
        out = []
        for ents, sub in levels(sx_parse(r[3:])):
            es = []
            for e in ents:
                if pos_only and not e["id"].startswith(b"p"):
                    continue
                es.append((e["id"], e["src"], tuple(e["idx"]), tuple(tuple(g) for g in e["occ"])))
            out.append((sub, tuple(es)))
        return "ok %r" % (out,)
    if r.startswith("err "):
        return _norm_err(r)
    if r.startswith("PANIC"):
        return "PANIC"
    return r


def project_full(r):
    p = split3(r)
    if p is None:
        return (r or "")[:40]
    return SEP.join(_proj_one(x, False) for x in p)


def project_pos(r):
    p = split3(r)
    if p is None:
        return (r or "")[:40]
    return SEP.join(_proj_one(x, True) for x in p)


# ------------------------------------------------------------------ generators
FIXED_TAIL = [b"--help", b"-h", b"--version", b"-V", b"-x", b"--opt=v", b"--", b"", b"-", b"\xff", b"--\xff", b"a,b",
              b"a,,b", b",", b"help", b"END", b"-1", b"--=", b"-=", b"w", b"v"]


def force_trailing_multi(rng, c, depth=0):
    """post-process a generated command: most levels get a final multi-value positional"""
    pos = [a for a in c["args"] if not is_opt(a)]
    low_index = any(a.get("num") for a in pos[:-1])
    if not low_index and rng.random() < 0.85:
        if not pos:
            a = {"id": b"p0", "flags": set()}
            c["args"].append(a)
            pos = [a]
        a = pos[-1]
        if not multi_valued(a) or rng.random() < 0.3:
            a["num"] = rng.choice([(0, None), (1, None), (1, None), (1, None), (2, None)])
            if a["num"][0] == 2:
                a["num"] = (1, None)
            if rng.random() < 0.25:
                # bounded ranges (action Set by default) and minimums above one: the occurrence before `--` and the tail are
                # ONE occurrence (seeded change seed3/C05-3)
                a["num"] = rng.choice([(1, 6), (1, 4), (2, None), (2, 8), (3, None)])
        if a.get("term") is not None and rng.random() < 0.6:
            a.pop("term")
        if a.get("vp") and rng.random() < 0.7:
            a.pop("vp")
        if rng.random() < 0.25 and "tva" not in a["flags"] and len(pos) >= 1 and "required" not in a["flags"]:
            a["flags"].add("last")
        if rng.random() < 0.3:
            a["delim"] = ","
    for s in c["subs"]:
        force_trailing_multi(rng, s, depth + 1)


def level_of_prefix(cmd, toks):
    """approximate command level reached by the prefix tokens (for drawing names)"""
    cur = cmd
    for t in toks:
        for s in cur["subs"]:
            if t == s["name"] or any(t == n for n, _ in s.get("aliases", [])) \
                    or (s.get("long_flag") and t == b"--" + s["long_flag"]) \
                    or (s.get("short_flag") and t == b"-" + s["short_flag"].encode()):
                cur = s
                break
    return cur


def tail_pool(cmd, level):
    pool = list(FIXED_TAIL)
    for c in (cmd, level):
        for s in c["subs"]:
            pool.append(s["name"])
            pool.append(s["name"][:1])
            pool.append(s["name"][:2])
            pool += [n for n, _ in s.get("aliases", [])]
            if s.get("long_flag"):
                pool.append(b"--" + s["long_flag"])
            if s.get("short_flag"):
                pool.append(b"-" + s["short_flag"].encode())
        for a in c["args"]:
            if a.get("long"):
                pool += [b"--" + a["long"], b"--" + a["long"] + b"=v", b"--" + a["long"][:2]]
            if a.get("short"):
                pool += [b"-" + a["short"].encode(), b"-" + a["short"].encode() + b"v"]
            if a.get("term") is not None:
                pool.append(a["term"])
    return pool


def gen_c05_cases(rng, n, prof_kw, per_cmd=6, p_pending=0.12, p_mutate=0.05, safe_p=0.9):
    prof = gen_cmd.Profile(**prof_kw)
    out = []
    guard = 0
    while len(out) < n and guard < 20 * n + 1000:
        guard += 1
        c = gen_cmd.gen_cmd(rng, prof)
        force_trailing_multi(rng, c)
        nb = "no_binary_name" in c["settings"]
        for _ in range(per_cmd):
            argv = gen_cmd.gen_argv(rng, c, p_mutate=p_mutate, safe_p=safe_p)
            natural = []
            if b"--" in argv[(0 if nb else 1):]:
                i = argv.index(b"--", 0 if nb else 1)
                argv, natural = argv[:i], argv[i + 1:]
            pre = argv
            r = rng.random()
            if r < 0.2:
                pre = pre[:(0 if nb else 1)]                       # empty prefix
            level = level_of_prefix(c, pre[(0 if nb else 1):])
            if rng.random() < p_pending:
                opts = [a for a in level["args"] if is_opt(a) and takes_value(a)]
                if opts:
                    a = rng.choice(opts)
                    name = (b"--" + a["long"]) if a.get("long") and rng.random() < 0.6 or not a.get("short") \
                        else (b"-" + a["short"].encode())
                    pre = pre + [name] + [b"v"] * rng.choice([0, 0, 1, 2])
            pool = tail_pool(c, level)
            k = rng.choice([0, 1, 1, 1, 2, 2, 3, 3, 4, 6])
            tail = [rng.choice(pool) for _ in range(k)]
            if natural and rng.random() < 0.4:
                tail = natural[:rng.choice([1, 2, 3])] + tail
            word = rng.choice(INNOCUOUS)
            if any(a.get("vp") and not isinstance(a["vp"], str) for a in level["args"] if not is_opt(a)):
                word = b"1"
            alt = [word] * len(tail)
            out.append(case_sx(c, pre, tail, alt))
    return out[:n]


def case_sx(c, pre, tail, alt):
    f = lambda l: "".join(" " + hexs(t) for t in l)   # noqa: E731
    return "(c05 %s (pre%s) (tail%s) (alt%s))" % (gen_cmd.cmd_sx(c), f(pre), f(tail), f(alt))


def sweep_cases(rng, n_cmds, prof_kw):
    """boundary-directed: for a few commands, every fixed tail shape alone, after a word, and before a word,
    with and without values of the positional before the `--`"""
    prof = gen_cmd.Profile(**prof_kw)
    out = []
    for _ in range(n_cmds):
        c = gen_cmd.gen_cmd(rng, prof)
        force_trailing_multi(rng, c)
        nb = "no_binary_name" in c["settings"]
        base = [] if nb else [b"prog"]
        pool = tail_pool(c, c)
        for pre in (base, base + [b"v"]):
            for t in pool:
                for tail in ([t], [b"w", t], [t, b"w"], [t, t]):
                    out.append(case_sx(c, pre, tail, [b"zz"] * len(tail)))
    return out


def directed_cases():
    """an option that may be given without a value, waiting for one when `--` is read: with and without the tail it holds its
    default_missing_value, split at ITS delimiter -- also under dont_delimit_trailing_values, which speaks of the values behind
    the `--` only (seeded change seed3/C05-2 let the escape marker of the pending occurrence reach the substituted defaults)"""
    out = []
    for settings in ([], ["dont_delimit_trailing_values"]):
        for num in ((0, 1), (0, None), (0, 2)):
            for act in ("set", "append"):
                for rest_delim in (None, ","):
                    rest = {"id": b"rest", "num": (1, None), "flags": set()}
                    if rest_delim:
                        rest["delim"] = rest_delim
                    c = {"name": b"p", "about": b"A:p", "groups": [], "aliases": [], "subs": [], "settings": list(settings),
                         "args": [{"id": b"v", "short": "v", "action": "settrue", "flags": set()},
                                  {"id": b"feat", "short": "F", "long": b"features", "action": act, "num": num, "delim": ",",
                                   "dmissing": [b"std,alloc"], "flags": set()}, rest]}
                    for pre in ([b"prog", b"--features"], [b"prog", b"-v", b"-F"], [b"prog", b"--features", b"a,b"],
                                [b"prog", b"--features=a,b"], [b"prog", b"-vF"]):
                        for tail in ([b"--help", b"-x"], [b"x,y"], [b"w"], [b"x,y", b"z,w", b"--features"]):
                            out.append(case_sx(c, pre, tail, [b"zz"] * len(tail)))
    return out


def describe(cases):
    shapes = collections.Counter()
    feats = collections.Counter()
    cross = collections.Counter()
    lens = collections.Counter()
    sample = cases[:4000]
    for cs in sample:
        cmd, pre, tail, alt = decode(cs)
        lens[min(len(tail), 7)] += 1
        names = set()

        def walk(c):
            names.update(sub_names(c))
            for s in c["subs"]:
                walk(s)
        walk(cmd)
        level = level_of_prefix(cmd, pre)
        fs = set()
        pos = positionals_in_order(level["args"])
        if pos:
            a = pos[-1]
            fs.add("final-positional-multi" if multi_valued(a) else "final-positional-single")
            for f in ("last", "tva", "hyphen", "required"):
                if f in a["flags"]:
                    fs.add("final:" + f)
            if a.get("delim"):
                fs.add("final:delimiter")
            if a.get("term") is not None:
                fs.add("final:terminator")
            if a.get("action") == "append":
                fs.add("final:append")
            if len(pos) > 1:
                fs.add("several-positionals")
        else:
            fs.add("no-positional")
        for s in ("allow_missing_positional", "dont_delimit_trailing_values", "infer_subcommands", "infer_long_args",
                  "allow_external_subcommands", "subcommand_precedence_over_arg", "args_conflicts_with_subcommands",
                  "ignore_errors", "disable_help_flag", "disable_help_subcommand"):
            if s in cmd["settings"] or s in level["settings"]:
                fs.add("set:" + s)
        if level["subs"]:
            fs.add("has-subcommands")
        if any(is_opt(a) and "hyphen" in a["flags"] for a in level["args"]):
            fs.add("hyphen-option")
        if any(is_opt(a) for a in level["args"]):
            fs.add("has-options")
        if level is not cmd:
            fs.add("inside-subcommand")
        if len(pre) > 1:
            fs.add("non-empty-prefix")
        for f in fs:
            feats[f] += 1
        for t in tail:
            sh = classified_shape(t, names)
            shapes[sh] += 1
            for f in fs:
                cross[sh + " x " + f] += 1
    return {"sampled": len(sample), "tail_len": dict(sorted(lens.items())), "tail_token_shapes": dict(shapes.most_common()),
            "level_features": dict(feats.most_common()),
            "shape_x_feature_pairs_covered": len(cross), "shape_x_feature_min": min(cross.values()) if cross else 0,
            "shape_x_feature": dict(sorted(cross.items())), "oracle_stats": STATS}


MAIN = dict(globals=0, last=0.25, tva=0.15, hyphen=0.12, terminators=0.08, delims=0.35, settings=0.18, infer=0.3,
            flag_subs=0.35, external=0.08, ignore_errors=0.0, invalid=0.0, low_index=0.04, max_pos=2, relations=0.05,
            groups=0.1, require_equals=0.05)
ADVERSARIAL = dict(globals=0, last=0.4, tva=0.3, hyphen=0.35, terminators=0.3, delims=0.6, settings=0.3, infer=0.5,
                   flag_subs=0.6, external=0.25, ignore_errors=0.05, invalid=0.02, low_index=0.15, relations=0.4,
                   groups=0.5, require_equals=0.25)
GLOBALS = dict(globals=0.5, last=0.25, tva=0.1, delims=0.3, infer=0.2, invalid=0.0, ignore_errors=0.0)


def streams(tier, rng):
    big = tier == "thorough"
    STATS.clear()
    main = directed_cases() + gen_c05_cases(rng, 60000 if big else 6000, MAIN)
    adv = gen_c05_cases(rng, 40000 if big else 4000, ADVERSARIAL, p_pending=0.3, p_mutate=0.4, safe_p=0.6)
    sweep = sweep_cases(rng, 60 if big else 8, MAIN)
    glob = gen_c05_cases(rng, 15000 if big else 1500, GLOBALS)

    def mk(name, cases, proj):
        return Stream(name, cases, oracle=oracle, area="escape", project=proj, nontrivial=nontrivial,
                      describe=describe(cases))
    return [mk("escape-main", main, project_full), mk("escape-adversarial", adv, project_full),
            mk("escape-sweep", sweep, project_full), mk("escape-globals", glob, project_pos)]


def classify_known(stream, case, impl, failure):
    return None
