"""C15: derived parsers are exactly their command plus field extraction, and round-trip."""
import re
from ..core import hexs, unhex, sx_parse, sx_str
from ..runner import Stream
from .. import derive_corpus as DC
from ..derive_corpus import Field, Flatten, Sub, VEnum

DC.write_rust()          # the generated Rust corpus always matches the matrix this module uses

ID = "C15"
AREAS = ["derive"]
RULE = ("A derive input is a point of the corpus matrix (shape x kind x element type, attribute structs, flatten "
        "depth <= 2, subcommand enums, value enums); per type: the command dump (parse and update flavour), argv "
        "rendered from random values by the canonical printer and mutated (dropped/duplicated/foreign tokens, bad and "
        "boundary values, split forms, delimiter forms, alias/case variants), values of the type (boundary scalars, "
        "empty/None/nested forms) for the round trip, and sequences of 1-3 update argvs on a random start value. "
        "distinct = distinct case text; non-trivial = the parse succeeds / the value is printable / an update is applied.")
TRUSTED = [
    "Coq 8.16.1 kernel (coqc); no native_compute; theorems C15_* are 'Closed under the global context'",
    "extraction: ExtrOcamlBasic only, no Extract Constant; OCaml driver ocaml/derive_driver.ml (spec reader, printers)",
    "correspondence: vp/derive_corpus.py renders one matrix as Rust types (compiled by the real clap_derive) and as the "
    "model's derive input; harness/src/modes/derive.rs (incl. the hand-written canonical printer helpers); "
    "string comparison of canonical results",
    "the parser model Parse/*.v underneath derived_parse (tied to clap_builder by the parse-area checks and by every dparse/dround/dupdate case here)",
    "syn/quote/rustc macro expansion and attribute parsing (item.rs push_attrs, heck casing): only the expansion's behaviour on the corpus is compared",
    "EnumValueParser is modelled by the parser model's PossibleValuesParser over the kept variants' possible values (equal language: "
    "C15_enum_parse_ref_language; kind of the rejection of a non-UTF-8 string differs, canonicalised in the dparse projection); "
    "not modelled: ArgMatches::valid_args bookkeeping",
]
ASSUMPTIONS = [
    "clap_derive feature unstable-v5 (Vec<Vec<T>> support) is on for the corpus; clap_builder is built without it",
    "C15_value_enum_names / C15_roundtrip take distinctness hypotheses (names under the comparison in use; arg ids)",
    "the canonical printer is defined on representable values only (no Some(vec![]) without num_args(0..), no Some(vec![]) of "
    "Option<Vec<Vec<T>>>, no skipped enum variant, an optional flatten is Some only when one of its own args is given)",
]

I64_MIN, I64_MAX = -2**63, 2**63 - 1
STR_POOL = ["", "a", "hello", "x y", "ünï", "--weird", "-", "-5", "a=b", "=", "q'q", "日本", "UPPER", "tab\there"]
STR_SAFE = ["a", "hello", "x y", "ünï", "a=b", "q'q", "UPPER", "z9"]


# ------------------------------------------------------------------ structure helpers
def spec_of(s):
    return s.spec()


def sub_body(enum, i):
    return enum.body(i)


def positionals(nodes):
    out = []
    for n in nodes:
        if isinstance(n, Field):
            if n.kind == "pos":
                out.append(n)
        elif isinstance(n, Flatten):
            out += positionals(n.struct.nodes)
    return out


# ------------------------------------------------------------------ values (as S-expression trees of strings)
def gen_scalar(T, rng, safe=False, delim=None):
    if T == "bool":
        return rng.choice(["true", "false"])
    if T == "u8":
        return str(rng.choice([0, 1, 2, 127, 128, 254, 255, rng.randrange(256)]))
    if T == "i64":
        return str(rng.choice([0, 1, -1, 42, -42, I64_MIN, I64_MAX, I64_MIN + 1, I64_MAX - 1,
                               rng.randrange(-10**6, 10**6), rng.randrange(I64_MIN, I64_MAX)]))
    if T == "str":
        pool = STR_SAFE if safe else STR_POOL
        for _ in range(20):
            s = rng.choice(pool)
            if delim is None or delim not in s:
                return hexs(s)
        return hexs("a")
    if isinstance(T, VEnum):
        ok = [i for i, v in enumerate(T.variants) if not v[1]]
        return "v%d" % rng.choice(ok)
    raise ValueError(T)


def gen_field(f, rng):
    safe = False
    sc = lambda s=False: gen_scalar(f.T, rng, safe=s, delim=f.delim)
    small = lambda: rng.choice([0, 1, 1, 2, 3])
    sh = f.shape
    if sh == "bool":
        return rng.choice(["true", "false"])
    if sh == "counter":
        return str(rng.choice([0, 0, 1, 2, 3, 5, 255]))
    if sh == "plain":
        return sc()
    if sh == "opt":
        return ["some", sc()] if f.required else rng.choice(["none", ["some", sc()]])
    if sh == "optopt":
        return rng.choice(["none", ["some", "none"], ["some", ["some", sc()]]])
    if sh == "vec":
        return ["vec"] + [sc() for _ in range(max(small(), 1 if f.required else 0))]
    if sh == "optvec":
        r = rng.random()
        if r < 0.25:
            return "none"
        k = small()
        if k == 0 and not (f.num and f.num[0] == 0 and f.kind != "pos"):
            k = 1
        return ["some", ["vec"] + [sc() for _ in range(k)]]
    if sh in ("vecvec", "optvecvec"):
        lo, hi = f.num if f.num else (1, 1)
        hi = lo + 2 if hi is None else hi
        def group():
            k = rng.randint(max(lo, 0), hi)
            return ["vec"] + [sc(k != 1) for _ in range(k)]
        if sh == "vecvec":
            return ["vec"] + [group() for _ in range(small())]
        if rng.random() < 0.3:
            return "none"
        return ["some", ["vec"] + [group() for _ in range(rng.choice([1, 1, 2, 3]))]]
    raise ValueError(sh)


def field_mentioned(f, v):
    """does the canonical printer emit anything for this field value"""
    sh = f.shape
    if sh == "bool":
        return v == "true"
    if sh == "counter":
        return v != "0"
    if sh == "plain":
        return True
    if sh in ("opt", "optopt", "optvec", "optvecvec"):
        if v == "none":
            return False
        if sh == "optvec":
            return True
        return True
    if sh in ("vec", "vecvec"):
        return len(v) > 1
    return True


def struct_explicit(nodes, vals):
    return any(isinstance(n, Field) and field_mentioned(n, v) for n, v in zip(nodes, vals))


def gen_nodes(nodes, rng):
    vals = []
    for n in nodes:
        if isinstance(n, Field):
            vals.append(gen_field(n, rng))
        elif isinstance(n, Flatten):
            inner = ["s"] + gen_nodes(n.struct.nodes, rng)
            if n.opt:
                if rng.random() < 0.35:
                    vals.append("none")
                else:
                    for _ in range(10):
                        if struct_explicit(n.struct.nodes, inner[1:]) or any(isinstance(x, Flatten) for x in n.struct.nodes):
                            break
                        inner = ["s"] + gen_nodes(n.struct.nodes, rng)
                    vals.append(["some", inner] if (struct_explicit(n.struct.nodes, inner[1:])
                                                    or any(isinstance(x, Flatten) for x in n.struct.nodes)) else "none")
            else:
                vals.append(inner)
        else:
            if n.opt and rng.random() < 0.3:
                vals.append("none")
            else:
                i = rng.randrange(len(n.enum.variants))
                e = ["e", str(i)] + gen_nodes(n.enum.body(i), rng)
                vals.append(["some", e] if n.opt else e)
    # positional consistency: a later positional can only be present when the earlier optional ones are
    fix_positionals(nodes, vals)
    return vals


def fix_positionals(nodes, vals):
    blocked = False
    for n, i in [(n, i) for i, n in enumerate(nodes) if isinstance(n, Field) and n.kind == "pos"]:
        if blocked:
            if n.shape == "opt" or n.shape == "optvec":
                vals[i] = "none"
            elif n.shape == "vec":
                vals[i] = ["vec"]
        else:
            if (n.shape in ("opt", "optvec") and vals[i] == "none") or (n.shape == "vec" and len(vals[i]) == 1):
                blocked = True


def gen_value(s, rng):
    return ["s"] + gen_nodes(s.nodes, rng)


# ------------------------------------------------------------------ python rendering of the canonical argv
def scalar_text(T, v):
    if T == "str":
        return unhex(v).decode("utf-8")
    if isinstance(T, VEnum):
        return T.vname(int(v[1:]))
    return v


def flag_of(f):
    return "--" + f.long if f.kind == "long" else "-" + f.short


def occ(f, vals, opts, pos):
    if f.kind == "pos":
        pos.extend(vals)
    elif len(vals) == 0:
        opts.append(flag_of(f))
    elif len(vals) == 1:
        opts.append(flag_of(f) + "=" + vals[0])
    else:
        opts.append(flag_of(f))
        opts.extend(vals)


def print_field(f, v, opts, pos):
    tx = lambda x: scalar_text(f.T, x)
    sh = f.shape
    if sh == "bool":
        if v == "true":
            occ(f, [], opts, pos)
    elif sh == "counter":
        for _ in range(int(v)):
            occ(f, [], opts, pos)
    elif sh == "plain":
        occ(f, [tx(v)], opts, pos)
    elif sh == "opt":
        if v != "none":
            occ(f, [tx(v[1])], opts, pos)
    elif sh == "optopt":
        if v != "none":
            occ(f, [] if v[1] == "none" else [tx(v[1][1])], opts, pos)
    elif sh in ("vec", "optvec"):
        if v == "none":
            return
        l = v[1:] if sh == "vec" else v[1][1:]
        if sh == "optvec" and not l:
            occ(f, [], opts, pos)
        elif f.kind == "pos":
            if l:
                occ(f, [tx(x) for x in l], opts, pos)
        else:
            for x in l:
                occ(f, [tx(x)], opts, pos)
    elif sh in ("vecvec", "optvecvec"):
        if v == "none":
            return
        groups = v[1:] if sh == "vecvec" else v[1][1:]
        for g in groups:
            occ(f, [tx(x) for x in g[1:]], opts, pos)


def print_nodes(nodes, vals):
    opts, pos, sub = [], [], []
    for n, v in zip(nodes, vals):
        if isinstance(n, Field):
            print_field(n, v, opts, pos)
        elif isinstance(n, Flatten):
            inner = None if v == "none" else (v[1] if n.opt else v)
            if inner is not None:
                o, p, s = print_nodes(n.struct.nodes, inner[1:])
                opts += o
                pos += p
                sub += s
        else:
            e = None if v == "none" else (v[1] if n.opt else v)
            if e is not None:
                i = int(e[1])
                o, p, s = print_nodes(n.enum.body(i), e[2:])
                sub += [n.enum.cname(i)] + join(o, p, s)
    return opts, pos, sub


def join(opts, pos, sub):
    return opts + (["--"] + pos if pos else []) + sub


def print_value(s, v):
    return join(*print_nodes(s.nodes, v[1:]))


def argv_sx(argv):
    return "(" + " ".join(hexs(a) for a in argv) + ")"


# ------------------------------------------------------------------ decoding results
def parts(res):
    """'(a ..) (b ..)' -> dict head -> list"""
    try:
        return {p[0]: p for p in sx_parse("(" + res + ")") if isinstance(p, list) and p}
    except Exception:
        return {}


# ------------------------------------------------------------------ streams
def case_line(mode, s, *rest):
    return "(%s %s %s %s)" % (mode, s.name, s.spec(), " ".join(rest))


def gen_dcmd(tier, rng):
    out = []
    for s in DC.TOPS:
        out.append(case_line("dcmd", s, "normal"))
        out.append(case_line("dcmd", s, "update"))
    return out


def dcmd_oracle(case, impl):
    """What the property's first sentence needs of the command itself: per field an argument with the field's id, and
    the action / value count / requiredness the type shape calls for (src/_derive documentation table)."""
    v = sx_parse(case)
    s = DC.BY_NAME[v[1]]
    upd = v[3] == "update"
    try:
        dump = sx_parse(impl)
    except Exception:
        return "command dump unreadable: %s" % impl[:200]
    return check_cmd_level(s.nodes, dump, upd, s.name)


EXPECT_ACTION = {"bool": "settrue", "counter": "count", "plain": "set", "opt": "set", "optopt": "set",
                 "vec": "append", "optvec": "append", "vecvec": "append", "optvecvec": "append"}


def flat_fields(nodes):
    out = []
    for n in nodes:
        if isinstance(n, Field):
            out.append(n)
        elif isinstance(n, Flatten):
            out += flat_fields(n.struct.nodes)
    return out


def check_cmd_level(nodes, dump, upd, where):
    args = {a[1]: a for a in dump if isinstance(a, list) and a[0] == "arg"}
    subs = {a[1]: a[2] for a in dump if isinstance(a, list) and a[0] == "sub"}
    for f in flat_fields(nodes):
        a = args.get(hexs(f.name))
        if a is None:
            return "%s: no argument with id %s" % (where, f.name)
        action, num, req, short, long_ = a[2], a[3], a[4], a[5], a[6]
        if action != EXPECT_ACTION[f.shape]:
            return "%s.%s: action %s for shape %s" % (where, f.name, action, f.shape)
        exp_req = f.shape == "plain" and f.default is None
        if f.required is not None:
            exp_req = f.required
        if not upd and (req == "required") != exp_req:
            return "%s.%s: required=%s for shape %s" % (where, f.name, req, f.shape)
        if f.num is None:
            exp_num = {"bool": ("0", "0"), "counter": ("0", "0"), "optopt": ("0", "1")}.get(f.shape, ("1", "1"))
            if f.kind == "pos" and f.shape in ("vec", "optvec"):
                exp_num = ("1", "inf")
            if (num[1], num[2]) != exp_num:
                return "%s.%s: num_args %s for shape %s" % (where, f.name, num, f.shape)
        if f.kind == "long" and long_ != hexs(f.long):
            return "%s.%s: long name %s" % (where, f.name, long_)
        if f.kind == "short" and short != str(ord(f.short)):
            return "%s.%s: short %s" % (where, f.name, short)
        if f.kind == "pos" and (short != "-" or long_ != "-"):
            return "%s.%s: positional has a flag" % (where, f.name)
    for n in nodes:
        if isinstance(n, Sub):
            for i in range(len(n.enum.variants)):
                sd = subs.get(hexs(n.enum.cname(i)))
                if sd is None:
                    return "%s: no subcommand %s" % (where, n.enum.cname(i))
                r = check_cmd_level(n.enum.body(i), sd, upd, where + "/" + n.enum.cname(i))
                if r:
                    return r
    return None


# ---- dparse
def mutate(argv, s, rng):
    a = list(argv)
    r = rng.random()
    fields = flat_fields(s.nodes)
    if r < 0.12 and a:
        del a[rng.randrange(len(a))]
    elif r < 0.22 and a:
        i = rng.randrange(len(a))
        a.insert(i, a[i])
    elif r < 0.32:
        a.insert(rng.randrange(len(a) + 1), rng.choice(["--unknown", "-Q", "--", "stray", "--help", "-h", ""]))
    elif r < 0.50 and a:
        i = rng.randrange(len(a))
        if "=" in a[i] and a[i].startswith("-"):
            head = a[i].split("=", 1)[0]
            a[i] = head + "=" + rng.choice(["abc", "256", "-1", "255", "0", "9223372036854775808", "-9223372036854775809",
                                            "", "+5", " 7", "BETA-GAMMA", "d", "dd", "navy", "GRN", "hidden", "3",
                                            "1,2", "a:b", "true", "TRUE"])
    elif r < 0.62 and a:
        i = rng.randrange(len(a))
        if "=" in a[i] and a[i].startswith("-"):
            head, val = a[i].split("=", 1)
            a[i:i + 1] = [head, val]
    elif r < 0.70 and a:
        i = rng.randrange(len(a))
        if "=" in a[i] and a[i].startswith("-"):
            a[i] = a[i].split("=", 1)[0]
    elif r < 0.78 and len(a) >= 2:
        i, j = rng.randrange(len(a)), rng.randrange(len(a))
        a[i], a[j] = a[j], a[i]
    elif r < 0.88 and fields:
        f = rng.choice(fields)
        if f.kind != "pos":
            a.insert(rng.randrange(len(a) + 1), flag_of(f) + rng.choice(["", "=1", "=x", "=alpha", "=1,2"]))
        else:
            a.append(rng.choice(["9", "extra", "-3", "300"]))
    else:
        a.append(rng.choice(["unit", "tup", "named", "add-item", "deep", "leaf", "nope"]))
    return a


def gen_dparse(tier, rng):
    per = 12 if tier == "quick" else 300
    out, stats = [], {"canonical": 0, "mutated": 0, "empty": 0}
    for s in DC.TOPS:
        out.append(case_line("dparse", s, "()"))
        stats["empty"] += 1
        for _ in range(per):
            v = gen_value(s, rng)
            a = print_value(s, v)
            if rng.random() < 0.35:
                stats["canonical"] += 1
            else:
                for _ in range(rng.choice([1, 1, 2, 3])):
                    a = mutate(a, s, rng)
                stats["mutated"] += 1
            out.append(case_line("dparse", s, argv_sx(a)))
    return out, stats


# ------------------------------------------------------------------ stream `dnested` (implementation only)
NESTED_LINES = [([], None), (["status"], "Status"), (["remote", "add", "origin"], "Remote(Add("),
                (["remote", "add", "origin", "--url", "u"], "Remote(Add("), (["remote", "add", "--url=u", "x"], "Remote(Add("),
                (["remote", "remove", "origin"], "Remote(Remove"), (["remote"], "ERR"), (["remote", "add"], "ERR"),
                (["bogus"], "ERR"), (["remote", "bogus"], "ERR"), (["status", "extra"], "ERR"), (["version"], "Version")]


def gen_dnested(tier, rng):
    """Hand-written derive types (harness derive.rs, mod nested) with a subcommand enum nested in a subcommand enum through a
    `#[command(subcommand)]` variant, consumed through `has_subcommand`: as an `Option<Sub>` field (`cli`) and flattened into
    another enum (`tool`).  Outside the derive model's corpus language, so implementation only: the derived parser and its
    own generated command must agree on acceptance, and the value must name the variant chain the matches report (seeded
    change seed4/C15-1 made has_subcommand delegate for nested-subcommand variants as it does for flattened ones)."""
    out = []
    for which in ("cli", "tool"):
        for line, _ in NESTED_LINES:
            for pre in ([], ["--verbose"]) if which == "cli" else ([],):
                out.append("(dnested %s (%s))" % (which, " ".join(hexs(t) for t in [which] + pre + line)))
                if which == "cli" and line:
                    out.append("(dnested %s (%s))" % (which, " ".join(hexs(t) for t in [which] + line[:1] + pre + line[1:])))
    return out


def dnested_oracle(case, impl):
    m = re.match(r"\(derived (ok|err|panic)(?: (\S+))?\) \(command (ok|err)(?: (\S+))?\)\Z", impl or "")
    if not m:
        return "unexpected result %r" % (impl or "")[:200]
    dk, dv, ck, cv = m.groups()
    if dk == "panic":
        return "the derived parser panicked"
    if dk != ck:
        return "derived parser: %s %s, its own generated command: %s %s" % (dk, dv, ck, cv)
    if dk == "err":
        return None if dv == cv else "derived parser reports %s, the generated command %s" % (dv, cv)
    dbg, chain = unhex(dv).decode(), unhex(cv or "x").decode().split("/") if cv and cv != "x" else []
    want = {(): None, ("status",): "Status", ("remote", "add"): "Remote(Add(", ("remote", "remove"): "Remote(Remove",
            ("version",): "Version"}.get(tuple(chain), "?")
    if want == "?":
        return "unexpected subcommand chain %r" % (chain,)
    if want is None:
        return None if ("cmd: None" in dbg or "(" not in dbg.split("cmd:")[-1][:6]) else "no subcommand on the line, value %s" % dbg
    if want not in dbg:
        return "the matches report the subcommand chain %s but the extracted value is %s" % ("/".join(chain), dbg)
    return None


def gen_dparse_attrs(tier, rng):
    """Implementation-only: types whose fields carry attributes outside the derive model's language (conditional and
    typed defaults, default_missing_value, relations, value_parser ranges).  The first sentence of the property does not
    depend on the attribute set: whatever `#[arg(..)]` says, the derived parser and its generated command must agree."""
    per = 40 if tier == "quick" else 600
    out = []
    for s in DC.XTOPS:
        out.append(case_line("dparse", s, "()"))
        fields = flat_fields(s.nodes)
        for _ in range(per):
            r = rng.random()
            if r < 0.5:
                # a random subset of the fields, each in one spelling, random order
                a = []
                for f in fields:
                    if rng.random() < 0.5:
                        continue
                    v = gen_field(f, rng)
                    opts, pos = [], []
                    print_field(f, v, opts, pos)
                    a.append((opts, pos))
                rng.shuffle(a)
                argv = [t for o, _ in a for t in o] + [t for _, q in a for t in q]
            else:
                argv = print_value(s, gen_value(s, rng))
            for _ in range(rng.choice([0, 0, 1, 2])):
                argv = mutate(argv, s, rng)
            out.append(case_line("dparse", s, argv_sx(argv)))
    return out


def dparse_oracle(case, impl):
    """parsing succeeds exactly when the command's parse succeeds, and then from_arg_matches gives the same value"""
    p = parts(impl)
    if "try" not in p or "cmd" not in p:
        return None                    # panics and aborts belong to C01
    if DC.BY_NAME[sx_parse(case)[1]].boundary:
        return None
    t, c, f = p["try"], p["cmd"], p.get("fam", ["fam", "skipped"])
    try_ok, cmd_ok = t[1] == "ok", c[1] == "ok"
    if try_ok != cmd_ok:
        return "try_parse_from %s but the command's own parse %s" % (sx_str(t[1:]), sx_str(c[1:]))
    if cmd_ok:
        if f[1] != "ok":
            return "the command parsed but from_arg_matches failed: %s" % sx_str(f[1:])
        if f[2] != t[2]:
            return "try_parse_from and command+from_arg_matches give different values"
    return None


def dparse_nontrivial(case, impl):
    return impl.startswith("(try ok")


def dparse_project(r):
    """Ok(value) / Err kind.  Since round 5 the generated argument of a value-enum field carries the real
    EnumValueParser in the model too (VPPossible over the kept variants), so the KIND of a failed parse is compared as
    well; the one documented divergence is canonicalised: a non-UTF-8 string is InvalidValue for EnumValueParser and
    InvalidUtf8 for the PossibleValuesParser standing for it (theorem C15_enum_parse_ref_language)."""
    p = parts(r)
    if "try" not in p:
        return r
    t, c, f = p["try"], p["cmd"], p.get("fam", ["fam", "skipped"])
    if c[1] == "ok":
        return r
    if t[1] == "err" and c[1] == "err":
        canon = lambda k: "InvalidValue" if k == "InvalidUtf8" else k
        return "(try err %s) (cmd err %s)" % (canon(t[2]) if len(t) > 2 else "?", canon(c[2]) if len(c) > 2 else "?")
    return r


# ---- dround
def gen_dround(tier, rng):
    per = 10 if tier == "quick" else 250
    out = []
    for s in DC.TOPS:
        for _ in range(per):
            out.append(case_line("dround", s, sx_str(gen_value(s, rng))))
    # values without an argv: both sides must say so
    for name, val in [("MPlainLongEna", "(s v3)"), ("MOptLongEna", "(s (some v3))"), ("MVecLongEna", "(s (vec v0 v3))"),
                      ("MOptvecvecLongU8", "(s (some (vec)))")]:
        out.append(case_line("dround", DC.BY_NAME[name], val))
    return out


def find_opt_flatten(nodes, vals):
    """yield (flatten node, value) for optional flattens reachable in the value"""
    for n, v in zip(nodes, vals):
        if isinstance(n, Flatten):
            if n.opt:
                yield n, v
                if v != "none":
                    yield from find_opt_flatten(n.struct.nodes, v[1][1:])
            else:
                yield from find_opt_flatten(n.struct.nodes, v[1:])
        elif isinstance(n, Sub):
            e = None if v == "none" else (v[1] if n.opt else v)
            if e is not None:
                yield from find_opt_flatten(n.enum.body(int(e[1])), e[2:])


def ambiguous_enum_value(nodes, vals):
    """an ignore_case field holds a variant whose printed name also names another variant under case folding
    (the enum's names are not distinct under the comparison in use: no round trip is claimed)"""
    import re
    for n, v in zip(nodes, vals):
        if isinstance(n, Field):
            if isinstance(n.T, VEnum) and n.icase:
                for tok in re.findall(r"\bv(\d+)\b", sx_str(v)):
                    i = int(tok)
                    nm = n.T.vname(i).casefold()
                    if any(j != i and not n.T.variants[j][1] and any(x.casefold() == nm for x in n.T.names(j))
                           for j in range(len(n.T.variants))):
                        return True
        elif isinstance(n, Flatten):
            inner = None if v == "none" else (v[1] if n.opt else v)
            if inner is not None and ambiguous_enum_value(n.struct.nodes, inner[1:]):
                return True
        else:
            e = None if v == "none" else (v[1] if n.opt else v)
            if e is not None and ambiguous_enum_value(n.enum.body(int(e[1])), e[2:]):
                return True
    return False


def dround_oracle(case, impl):
    cv = sx_parse(case)
    if impl == "unprintable" or DC.BY_NAME[cv[1]].boundary:
        return None
    if ambiguous_enum_value(DC.BY_NAME[cv[1]].nodes, cv[3][1:]):
        return None
    p = parts(impl)
    if "same" not in p:
        return None
    if p["same"][1] != "true":
        return "print -> parse does not return the value: back=%s" % sx_str(p["back"][1:])[:300]
    return None


def dround_project(r):
    return r.replace(" (tie ok)", "").replace(" (tie none)", "").replace(" (tie noparse)", "")


def dround_nontrivial(case, impl):
    return impl != "unprintable"


# ---- dupdate
def subset_argv(a, names, rng):
    """a random subset of the leading option tokens; a `--` tail is kept whole or dropped; a subcommand tail keeps
    its name and is subset recursively (so an update can name only some fields of the current variant)"""
    k = 0
    while k < len(a) and a[k].startswith("-") and a[k] != "--":
        k += 1
    head, tail = a[:k], a[k:]
    out = [t for t in head if rng.random() < 0.45]
    if tail and rng.random() < 0.6:
        if tail[0] in names:
            out += [tail[0]] + subset_argv(tail[1:], names, rng)
        else:
            out += tail
    return out


SUB_NAMES = {e.cname(i) for e in DC.SUBENUMS for i in range(len(e.variants))}


def has_sub(s):
    return any(isinstance(n, Sub) for n in s.nodes)


def same_variant(s, v0, v1, rng):
    """copy the subcommand variant (not its fields) of v0 into v1 where possible: updates of the current variant"""
    for k, n in enumerate(s.nodes):
        if isinstance(n, Sub):
            e0 = None if v0[1 + k] == "none" else (v0[1 + k][1] if n.opt else v0[1 + k])
            if e0 is not None:
                i = int(e0[1])
                e = ["e", str(i)] + gen_nodes(n.enum.body(i), rng)
                v1[1 + k] = ["some", e] if n.opt else e
    return v1


def gen_dupdate(tier, rng):
    per = 8 if tier == "quick" else 200
    out = []
    for s in DC.TOPS:
        for _ in range(per * (4 if has_sub(s) else 1)):
            v0 = gen_value(s, rng)
            argvs = []
            for _ in range(rng.choice([1, 1, 2, 3])):
                v1 = gen_value(s, rng)
                if has_sub(s) and rng.random() < 0.5:
                    v1 = same_variant(s, v0, v1, rng)
                a = print_value(s, v1)
                if rng.random() < 0.85:
                    a = subset_argv(a, SUB_NAMES, rng)
                argvs.append(a)
            out.append(case_line("dupdate", s, sx_str(v0), *[argv_sx(a) for a in argvs]))
    # directed: an optional flatten that is ALREADY Some, updated from lines naming a strict subset of its members
    # (gen_updater's Some arm: update in place -- the unnamed members keep their values, the flatten stays Some)
    for s in DC.TOPS:
        idx = [k for k, n in enumerate(s.nodes) if isinstance(n, Flatten) and n.opt]
        if not idx:
            continue
        for _ in range(per * 3):
            v0 = None
            for _try in range(40):
                c = gen_value(s, rng)
                if all(c[1 + k] != "none" for k in idx):
                    v0 = c
                    break
            if v0 is None:
                break
            argvs = []
            for _ in range(rng.choice([1, 2])):
                a = print_value(s, gen_value(s, rng))
                argvs.append([t for t in a if rng.random() < 0.4])
            out.append(case_line("dupdate", s, sx_str(v0), *[argv_sx(a) for a in argvs]))
    return out


def named(f, toks):
    if f.kind == "long":
        fl = "--" + f.long
        return any(t == fl or t.startswith(fl + "=") for t in toks)
    if f.kind == "short":
        return any(len(t) >= 2 and t[0] == "-" and t[1] != "-" and f.short in t.split("=", 1)[0] for t in toks)
    return any((not t.startswith("-")) or t == "--" for t in toks)


def default_of(f):
    """the value an unmentioned field parses to, for fields that have one (implied or explicit default)"""
    if f.shape == "bool":
        return "false"
    if f.shape == "counter":
        return "0"
    if f.shape == "plain" and f.default is not None:
        if f.T == "str":
            return hexs(f.default)
        if isinstance(f.T, VEnum):
            for i in range(len(f.T.variants)):
                if not f.T.variants[i][1] and f.default in f.T.names(i):
                    return "v%d" % i
        return f.default
    return None


def absent_value(nodes):
    """what from_arg_matches builds when none of the struct's arguments is given (None if it cannot)"""
    out = []
    for n in nodes:
        if isinstance(n, Field):
            d = default_of(n)
            if d is not None:
                out.append(d)
            elif n.shape in ("opt", "optopt", "optvec", "optvecvec"):
                out.append("none")
            elif n.shape in ("vec", "vecvec"):
                out.append(["vec"])
            else:
                return None
        elif isinstance(n, Flatten):
            if n.opt:
                out.append("none")
            else:
                a = absent_value(n.struct.nodes)
                if a is None:
                    return None
                out.append(a)
        else:
            if n.opt:
                out.append("none")
            else:
                return None
    return ["s"] + out


def frame_violations(nodes, before, after, toks, path, out):
    """fields not named on the command line must be unchanged; appends (path, family) per violation"""
    sub_node = next((n for n in nodes if isinstance(n, Sub)), None)
    level = toks
    rest = None
    if sub_node is not None:
        names = [sub_node.enum.cname(i) for i in range(len(sub_node.enum.variants))]
        for k, t in enumerate(toks):
            if t in names:
                level, rest = toks[:k], (names.index(t), toks[k + 1:])
                break
    for n, b, a in zip(nodes, before, after):
        here = path + "." + n.name
        if isinstance(n, Field):
            if not named(n, level) and a != b:
                fam = "default-reset" if (default_of(n) is not None and a == default_of(n)) else "other"
                out.append((here, fam))
            # ... and a string field named exactly once as `--long=VALUE` holds VALUE afterwards, at every depth of flattening
            # (seeded change seed4/C15-2: the update never reached a struct flattened into a flattened struct)
            if n.kind == "long" and n.T == "str" and n.shape in ("plain", "opt") and not n.raw and not n.delim:
                hits = [t for t in level if t == "--" + n.long or t.startswith("--" + n.long + "=")]
                if len(hits) == 1 and "=" in hits[0] and "--" not in level and not any(ord(ch) > 126 for ch in hits[0]):
                    want = hexs(hits[0].split("=", 1)[1])
                    if (a if n.shape == "plain" else (a[1] if isinstance(a, list) and a[0] == "some" else None)) != want:
                        out.append((here, "named-not-updated"))
        elif isinstance(n, Flatten):
            if not n.opt:
                frame_violations(n.struct.nodes, b[1:], a[1:], level, here, out)
            elif b == "none":
                if not any(named(f, level) for f in flat_fields(n.struct.nodes)) and a != "none":
                    fam = "optflatten-materialised" if a == ["some", absent_value(n.struct.nodes)] else "other"
                    out.append((here, fam))
            elif a == "none":
                out.append((here, "other"))
            else:
                frame_violations(n.struct.nodes, b[1][1:], a[1][1:], level, here, out)
        else:
            eb = None if b == "none" else (b[1] if n.opt else b)
            ea = None if a == "none" else (a[1] if n.opt else a)
            if rest is None:
                if a != b:
                    out.append((here, "other"))
            elif eb is not None and ea is not None and int(eb[1]) == rest[0]:
                if ea[1] != eb[1]:
                    out.append((here, "other"))
                else:
                    frame_violations(n.enum.body(rest[0]), eb[2:], ea[2:], rest[1], here + "/" + eb[1], out)


def dupdate_check(case, impl):
    v = sx_parse(case)
    s = DC.BY_NAME[v[1]]
    cur = v[3]
    argvs = [[unhex(t).decode("utf-8", "replace") for t in a] for a in v[4:]]
    try:
        results = sx_parse("(" + impl + ")")
    except Exception:
        return []
    viol = []
    for a, r in zip(argvs, results):
        if not isinstance(r, list) or r[0] != "ok":
            break
        frame_violations(s.nodes, cur[1:], r[1][1:], a, s.name, viol)
        cur = r[1]
    return viol


def dupdate_oracle(case, impl):
    viol = dupdate_check(case, impl)
    if viol:
        return "update changed fields not named on the command line / left a named field as it was: " + ", ".join("%s[%s]" % x for x in viol[:6])
    return None


def dupdate_nontrivial(case, impl):
    return impl.startswith("(ok")


# ---- venum
def gen_venum(tier, rng):
    out = []
    extra = ["", "nope", "ALPHA", "Beta-Gamma", "beta_gamma", "DARKBLUE", "darkblue", "Navy", "iii", "III", "hidden",
             "skipped", "Ab", "aB", "AB", "ab", "cd", "CD", "Cd", "one_two", "ONE_TWO", "é", "É", "straße", "STRASSE"]
    for e in DC.VENUMS:
        cands = set(extra)
        for i in range(len(e.variants)):
            for nm in e.names(i):
                cands.update([nm, nm.upper(), nm.lower(), nm.capitalize(), nm + "x", nm[:-1]])
        for c in sorted(cands):
            for ic in ("false", "true"):
                out.append("(venum %s %s %s %s)" % (e.name, e.spec(), hexs(c), ic))
    return out


def venum_oracle(case, impl):
    """every name and alias of a variant maps back to it (both comparison modes); nothing maps to a skipped variant;
    an input that maps somewhere is one of that variant's names under the comparison in use"""
    v = sx_parse(case)
    e = next(x for x in DC.VENUMS if x.name == v[1])
    s = unhex(v[3]).decode("utf-8")
    icase = v[4] == "true"
    p = parts(impl)
    if "r" not in p or "table" not in p:
        return None
    r = None if p["r"][1] == "none" else int(p["r"][1][1])
    table = {int(row[0]): [unhex(x).decode("utf-8") for x in row[1:]] for row in p["table"][1]}
    # the table printed from value_variants()/to_possible_value() is the declared one
    for i, (ident, skip, _e, _a) in enumerate(e.variants):
        if skip:
            if i in table:
                return "skipped variant %s is listed by value_variants()" % ident
        elif table.get(i) != e.names(i):
            return "variant %s has names %s, declared %s" % (ident, table.get(i), e.names(i))
    eq = (lambda a, b: a.casefold() == b.casefold() if a.isascii() and b.isascii() else a == b) if icase else (lambda a, b: a == b)
    owners = [i for i in sorted(table) if any(eq(nm, s) for nm in table[i])]
    if r is not None and e.variants[r][1]:
        return "input maps to the skipped variant %s" % e.variants[r][0]
    if len(owners) == 1 and r != owners[0]:
        return "%r is a name of variant %d only, but from_str gives %s" % (s, owners[0], r)
    if not owners and r is not None and s.isascii():
        return "%r is no variant's name, but from_str gives %d" % (s, r)
    if len(owners) > 1 and r not in owners:
        return "%r maps outside the variants that carry it" % s
    return None


def venum_nontrivial(case, impl):
    return "(r (some" in impl


# ------------------------------------------------------------------
def streams(tier, rng):
    dparse_cases, dparse_stats = gen_dparse(tier, rng)
    return [
        Stream("dcmd", gen_dcmd(tier, rng), oracle=dcmd_oracle, area="derive"),
        Stream("venum", gen_venum(tier, rng), oracle=venum_oracle, area="derive", nontrivial=venum_nontrivial),
        Stream("dparse", dparse_cases, oracle=dparse_oracle, area="derive", project=dparse_project,
               nontrivial=dparse_nontrivial, describe=dparse_stats),
        Stream("dparse-attrs", gen_dparse_attrs(tier, rng), oracle=dparse_oracle, area=None, nontrivial=dparse_nontrivial),
        Stream("dnested", gen_dnested(tier, rng), oracle=dnested_oracle, area=None, nontrivial=lambda c, r: "(derived ok" in (r or "")),
        Stream("dround", gen_dround(tier, rng), oracle=dround_oracle, area="derive", project=dround_project,
               nontrivial=dround_nontrivial),
        Stream("dupdate", gen_dupdate(tier, rng), oracle=dupdate_oracle, area="derive", nontrivial=dupdate_nontrivial),
    ]


def classify_known(stream, case, impl, failure):
    try:
        v = sx_parse(case)
        s = DC.BY_NAME.get(v[1])
    except Exception:
        return None
    if stream == "dupdate" and s is not None and failure != "diff":
        fams = {f for _p, f in dupdate_check(case, impl)}
        if fams and fams <= {"default-reset"}:
            return "C15-update-default-reset"
        if fams and fams <= {"default-reset", "optflatten-materialised"}:
            return "C15-update-optflatten-materialised"
        return None
    if stream == "dround" and s is not None and failure != "diff":
        val = v[3]
        p = parts(impl)
        back = p.get("back")
        opts = list(find_opt_flatten(s.nodes, val[1:]))
        # (a) an optional flatten holding a required argument is None: the printed line misses the required argument
        if back and back[1] == "err" and back[2] == "MissingRequiredArgument" and any(
                fv == "none" and any(f.shape == "plain" and f.default is None and f.required is not False
                                     for f in flat_fields(n.struct.nodes)) for n, fv in opts):
            return "C15-optflatten-required"
        # (b) an optional flatten of a struct that itself flattens: its group has no members, it always parses to None
        if back and back[1] == "ok" and any(fv != "none" and any(isinstance(x, Flatten) for x in n.struct.nodes)
                                            for n, fv in opts):
            return "C15-optflatten-nested-group"
    return None


TECHNIQUE = ("Coq proof about an executable model of the derive macros' generated code (command construction, field "
             "extraction, update, value-enum lookup, canonical printer) + extracted-model/implementation correspondence "
             "on a generated corpus of derive inputs compiled by the real clap_derive")
LEVEL_TEXT = ("Machine-checked theorems (Coq 8.16, closed under the global context), for every derive input of the "
              "modelled language (field lists with flatten nesting and subcommand enums, by mutual induction): field "
              "extraction succeeds on every matches that meets the generated command's own guarantees; each field equals "
              "what the matches hold per type shape; update leaves every field whose id is absent from the matches "
              "untouched, for every sequence of updates; every name and alias of a value-enum variant maps back to it and "
              "nothing maps to a skipped variant; extracting from the matches of the canonical print of a value returns "
              "the value.  Round 2 (composition with the parser model): the derived parser returns a value exactly when "
              "the generated command's parse succeeds and extraction succeeds (and fails exactly when one of them does); "
              "gen_augment's Kind::Arg arm in closed form for every field; for every struct of option fields (--long / -s, "
              "shapes bool, counter, T, Option, Option<Option>, Vec, Option<Vec>, any attribute combination without "
              "value_delimiter) that passes clap's debug assertions the built command lies in C02's class conv, every "
              "field name resolves to the field's argument, the canonical print of a value IS the rendering of a "
              "well-formed invocation whose occurrences are the printed groups, and whenever the command accepts that "
              "line, extraction from the matches of the real parse (parse_top, through C02_unparse, C02 conservation, "
              "C07's fold and C06's default phase) returns the value; extraction can fail after a successful command parse "
              "exactly when the command does not declare the requiredness (witness: required = false on a plain field); and "
              "for every well-formed invocation of the update command of a struct of argument fields, a field whose argument "
              "has no default and no occurrence ON THE LINE keeps its value under try_update_from; the command-line phase accepts "
              "the printed line when every printed group passes the built argument's own count check and value parser.  Round 3: the phases after the token loop accept that state -- the defaults phase succeeds (any command whose defaults pass their value parser), the validator is complete for commands without relations (any command of class norel, through C03's static completeness), hence parse(print v) = Ok v as an EQUALITY (derived_parse d (bin :: print d v) = PValue v) for structs of option fields whose required fields are printed; and for ALL argv: a walk of get_matches_with parametric in the state predicate, the invariant that stored value groups are non-empty (any command), hence extraction cannot fail after a successful command parse and try_parse succeeds <=> the command's parse succeeds, for every struct of argument fields (options and positionals) and flattened structs (any nesting, optional or not; generated command in closed form) in which each plain field is required or has a default (through C04's typed invariant, C03's validator soundness and C06's precedence); and for every token list, a field whose argument has no default and is named by no token (C10's occurs: key-map selection) keeps its value under try_update_from; the generated command of any struct of fields and flattened structs, positionals included, lies in C02's class conv and its key map is the derive input's (the k-th positional field in declaration order resolves from index k); and parse(print v) = Ok v as an equality for structs of positional fields (T, Option<T>, a last Vec<T>; the line `-- v1 v2 ..` through C02's trailing-values theorem) when an absent positional is followed only by absent ones.  Round 5: a derived ValueEnum field's parser in the model is the real EnumValueParser (the parser model's possible-values parser over the non-skipped variants, hidden ones included, under the argument's ignore_case; the stand-in and the separate enum check are gone from derived_parse): its language is exactly the domain of ValueEnum::from_str and of C04's parse_ref model; names and aliases of hidden variants are accepted and read as their variant (and the parser that filters hidden variants first is refuted); nothing a kept variant does not claim is accepted and nothing is read as a skipped variant; names <-> kept variants is a bijection modulo aliases; the generated argument carries that parser coherently, so C04's stored-value theorems apply to derived fields; every successful parse of the generated command stores only enum names for enum fields (all argv); and parse(print v) = Ok v for enum-typed fields of every option shape; default_action gives SetTrue exactly for a field declared bool (Option<bool> / Option<Option<bool>> are Set with the bool parser and no default), structs of such fields round-trip with no hypothesis on the value, and for ALL argv a field whose argument has no default and is named by no token comes back with its absent value (None for Option<T>, Option<bool> included; the empty vector for Vec<T>); and try_update_from on an Option<flattened struct> that is already Some updates the members in place: for all argv a member without default that no token names keeps its value and the flatten stays Some (lookup through present optional flattens), also along every sequence of updates; and for all argv an Option<flattened struct> none of whose members is named by a token parses to None.  The model is tied to clap_derive by compiling a corpus spanning the shape x kind x type x "
              "attribute matrix with the real macro and comparing command dumps, parses, round trips, update sequences "
              "and value-enum lookups against the extracted model (which runs on top of the parser model) on every check; "
              "an independent python oracle checks the property's statements on the implementation's output.")
LEVEL_NOTE = ("Partial: the macro runs inside rustc, so the tie is its expansion on the corpus; attribute parsing and casing "
              "are covered differentially only.  The round trip through the parser is proved as soundness (the command accepts "
              "the printed line => the value comes back) and, round 3, as the equality parse(print v) = Ok v for structs of option fields "
              "(class: attribute combinations of the matches-level round trip, value ranges that admit the printed group lengths, required fields printed; the scalar print/parse inversion is proved for every element type, i64 decimal included); structs mixing options and positionals, flattened structs and "
              "subcommand enums in the composed round trip, and 'extraction cannot fail after a successful parse' / the update statement below subcommand "
              "nodes (both proved for all argv for structs of argument fields and flattened structs) stay checked executably on every "
              "dround / dparse / dupdate case.  Four families where the unchanged "
              "code violates the property are recorded as known findings (update resets default-bearing fields; update "
              "materialises a None optional flatten; an optional flatten with a required member cannot be None; an optional "
              "flatten of a struct that itself flattens is always None).")
