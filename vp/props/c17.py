"""C17: descriptive text can never change the structure of a generated completion script."""
import itertools
import os
import re
import subprocess

from .. import core
from .. import shell_lex as SL
from ..core import hexs, unhex, sx_parse, sx_str
from ..runner import Stream

ID = "C17"
AREAS = ["aottext", "fish"]
RULE = ("esc: every string over the boundary alphabet {' \" \\ $ ( ) ` [ ] : LF CR TAB SP a e-acute U+2018 U+2019 "
        "U+201A U+201B #} up to a length bound (sampled at the longest length) x every escape function, plus random "
        "longer strings; script: random command trees (depth <= 3; flags, options with and without possible values, "
        "hidden values, positionals, value hints, aliases, globals) in which every descriptive-text slot (about, "
        "long_about, before/after help, arg help, long_help, possible-value help) carries its own adversarial string, "
        "x the six generators; lexport: boundary-alphabet strings x every state of every lexer machine.  A case is "
        "non-trivial when its text contains a character outside [a-z ] (esc) / when at least one slot the shell's "
        "generator emits carries such a character (script); distinct = distinct case text.")
TRUSTED = [
    "Coq 8.16.1 kernel (coqc); no native_compute; theorems C17_* are 'Closed under the global context'",
    "the shell lexer models of coq/theories/Escape/ShellLex.v (fish, zsh/bash words, zsh _arguments spec level, "
    "PowerShell, elvish, nushell): written from the shells' documentation / nu-parser 0.88.1; only bash is installed "
    "here, so they are not validated against the real shells",
    "translators/tables.py: regex extraction of the .replace(from, to) chains of every escape_* function (fails "
    "loudly when a function's shape changes)",
    "extraction: ExtrOcamlBasic only, no Extract Constant; OCaml driver ocaml/aottext_driver.ml (UTF-8 decode/encode "
    "by the extracted Base.Utf8 functions)",
    "correspondence: vp/props/c17.py generators, harness/src/modes/aottext.rs, vp/shell_lex.py (python port of the "
    "machines, compared with the extracted machines on every run)",
    "modelled not verified: str::replace of Rust core (its specification is proved of the model), StyledStr::to_string",
    "fish generator model Complete/FishModel.v + ocaml/fish_driver.ml (see C16): tied by stream fish-model, both files of "
    "the script mode compared byte for byte",
]
ASSUMPTIONS = [
    "strings are sequences of Unicode scalar values (Rust &str); scripts are read as UTF-8",
    "texts carry no ANSI styling (StyledStr built from plain strings)",
    "second-level parsers beyond the modelled ones (zsh `((...))` action eval, prompt expansion of descriptions, "
    "fish/zsh display code) are outside the model",
]

ALPHA = ["'", '"', "\\", "$", "(", ")", "`", "[", "]", ":", "\n", "\r", "\t", " ", "a", "\u00e9",
         "\u2018", "\u2019", "\u201a", "\u201b", "#"]
CLASSES = [("squote", "'"), ("dquote", '"'), ("backslash", "\\"), ("dollar", "$"), ("paren", "()"),
           ("backtick", "`"), ("bracket", "[]"), ("colon", ":"), ("newline", "\n"), ("cr", "\r"),
           ("curly", "\u2018\u2019\u201a\u201b"), ("hash", "#"), ("nonascii", "\u00e9")]

HAND = [
    'x "q" $(touch work/pwned)', "'; touch work/pwned; '", "\\", "\\'", "a\\", "\\\\'", "$HOME", "`touch work/pwned`",
    "]:[x", "a:b", "[x]", "line1\nline2", "a\n.so /etc/passwd", "a\ncomplete -c evil -a pwned", "a\r\nb",
    "\u00e9\u2019\u2018\u201a\u201b", "\u2018; calc; \u2018", "# not a comment", "''", '""', "\t", " ", "(", ")", "$(",
    "{", "}", "'", '"', "\n", "\\\n", "a'b\"c", "\\$x", "\\\"", "'\\''", "\u2019'", "'\u2019", "\u201b\u201b",
    "it's", "say \"hi\"", "path C:\\dir", "50% [default: x]", "a ] b : c [", "`", "$", "\\:", "\\]", "\n#", "\r",
    "\"; touch work/pwned; \"", "$(touch work/pwned)", "') ; touch work/pwned ; ('",
]

ESC_TEXT_KINDS = {
    # kind -> (machine, state, flattened?)
    "fish_help": [("fish", "FSQ", True)],
    "fish_double_quoted": [("fish", "FDQ", False)],
    "zsh_help": [("sh", "ZSQ", True)],
    "powershell_help": [("powershell", "PSQ", True)],
    "powershell_string": [("powershell", "PSQ", False)],
    "elvish_help": [("elvish", "ESQ", True)],
    "elvish_string": [("elvish", "ESQ", False)],
    "nushell_single_line": [("nushell", "NC", True)],
}
ESC_KINDS = ["fish_string", "fish_string_comma", "fish_help", "fish_double_quoted", "zsh_help", "zsh_value", "powershell_string",
             "powershell_help", "elvish_string", "elvish_help", "nushell_single_line"]


def cps(b):
    return [ord(ch) for ch in b.decode("utf-8")]


def flatten(l):
    return [32 if c == 10 else c for c in l]


def classes_of(text):
    return [n for n, chars in CLASSES if any(ch in text for ch in chars)]


# ----------------------------------------------------------------- esc: function level
def esc_oracle(case, impl):
    v = sx_parse(case)
    if len(v) != 3 or v[1] not in ESC_TEXT_KINDS or not v[2].startswith("x"):
        return None      # malformed case (e.g. produced by shrinking) or a name-escaping function
    kind = v[1]
    if not impl.startswith("x"):
        return "escape hook returned %s" % impl
    s = cps(unhex(v[2]))
    out = cps(unhex(impl))
    # What the property states: the text stays inside the literal/comment it was put in.  (That the
    # payload read back equals the flattened text is proved of the model; a generator that showed a
    # description differently would not violate C17, so the payload is not compared here.)
    for machine, st, flat in ESC_TEXT_KINDS[kind]:
        fin, evs, _ = SL.run(machine, st, out)
        if fin != st:
            return ("%s: after the escaped text the %s lexer is in state %s, not back in %s (the literal does not "
                    "close where the generator closes it)" % (kind, machine, fin, st))
        if not SL.is_data(evs):
            bad = [e for e in evs if e[0] not in ("L", "Q")][:3]
            return "%s: escaped text is not read as literal payload only by the %s lexer: %r" % (kind, machine, bad)
        if machine == "sh":
            # second level: the word's payload inside [description] and inside a ':'-separated field
            pay = SL.lits(evs)
            for st2 in ("ZsDescr", "ZsField"):
                f2, e2, _ = SL.run("zspec", st2, pay)
                if f2 != st2 or not all(k == "L" for k, _ in e2):
                    return "%s: at the _arguments spec level (%s) the text is not literal payload only" % (kind, st2)
    return None


def esc_nontrivial(case, impl):
    v = sx_parse(case)
    return len(v) == 3 and any(c not in b"abcdefghijklmnopqrstuvwxyz " for c in unhex(v[2]))


def gen_esc(tier, rng):
    cases = []
    full = 2 if tier == "quick" else 3
    for L in range(full + 1):
        for t in itertools.product(ALPHA, repeat=L):
            for k in ESC_KINDS:
                cases.append("(esc %s %s)" % (k, hexs("".join(t))))
    # one length further: sampled
    frac = 0.12 if tier == "quick" else 0.35
    for t in itertools.product(ALPHA, repeat=full + 1):
        if rng.random() < frac:
            k = rng.choice(ESC_KINDS)
            cases.append("(esc %s %s)" % (k, hexs("".join(t))))
    for t in HAND:
        for k in ESC_KINDS:
            cases.append("(esc %s %s)" % (k, hexs(t)))
    n = 2000 if tier == "quick" else 40000
    for _ in range(n):
        L = rng.choice([4, 5, 6, 8, 13, 21, 40])
        t = "".join(rng.choice(ALPHA) for _ in range(L))
        cases.append("(esc %s %s)" % (rng.choice(ESC_KINDS), hexs(t)))
    return cases


# ----------------------------------------------------------------- strreplace: the model of str::replace itself
def strreplace_oracle(case, impl):
    v = sx_parse(case)
    if len(v) != 4:
        return None
    p, r, s = (unhex(x).decode("utf-8") for x in v[1:])
    want = hexs(s.replace(p, r))      # python's str.replace: all non-overlapping matches, left to right
    if impl != want:
        return "str::replace differs from left-to-right non-overlapping replacement: expected %s got %s" % (want, impl)
    return None


def gen_strreplace(tier, rng):
    cases = []
    al = ["a", "b", "\u00e9"]
    pats = ["", "a", "b", "aa", "ab", "aba", "\u00e9", "a\u00e9"]
    reps = ["", "a", "ba", "aa", "x", "\u00e9\u00e9"]
    maxlen = 5 if tier == "quick" else 7
    for L in range(maxlen + 1):
        for t in itertools.product(al, repeat=L):
            for p in pats:
                if L == maxlen and rng.random() < 0.6:
                    continue
                cases.append("(strreplace %s %s %s)" % (hexs(p), hexs(rng.choice(reps)), hexs("".join(t))))
    return cases


# ----------------------------------------------------------------- lexport: python port vs extracted Coq machines
def gen_lexport(tier, rng):
    cases = []
    n = 250 if tier == "quick" else 2500
    extra = {"fish": '";;', "sh": '"&|<>;', "zspec": "", "powershell": '"\u201c\u201d\u201e,{}|;', "elvish": '"{}|;',
             "nushell": '"{}|;,'}
    for m, (step, states) in sorted(SL.MACHINES.items()):
        alpha = ALPHA + list(extra[m])
        for st in states:
            for ch in alpha:
                exp = SL.show(*SL.run(m, st, [ord(ch)])[:2])
                cases.append("(lexport %s %s %s %s)" % (m, st, hexs(ch), hexs(exp)))
            for _ in range(n):
                L = rng.choice([2, 3, 4, 6, 10, 16])
                t = "".join(rng.choice(alpha) for _ in range(L))
                exp = SL.show(*SL.run(m, st, [ord(c) for c in t])[:2])
                cases.append("(lexport %s %s %s %s)" % (m, st, hexs(t), hexs(exp)))
    return cases


# ----------------------------------------------------------------- script level
SHELLS = ["bash", "zsh", "fish", "powershell", "elvish", "nushell"]
START = {"bash": ("sh", "ZB"), "zsh": ("sh", "ZB"), "fish": ("fish", "FB"), "powershell": ("powershell", "PB"),
         "elvish": ("elvish", "EB"), "nushell": ("nushell", "NB")}


def analyse(shell, script):
    """-> (level-1 skeleton [(kind, cp)], offsets of those events, list of second-level skeletons)"""
    text = cps(script)
    machine, st0 = START[shell]
    step = SL.MACHINES[machine][0]
    st = st0
    skel, offs, second, third = [], [], [], []
    seg = None          # fish: payload of the current "..." literal
    word, word_sq = None, False   # zsh: payload of the current word
    for i, c in enumerate(text):
        st2, evs = step(st, c)
        for k, x in evs:
            if k in ("S", "A"):
                skel.append((k, x))
                offs.append(i)
        if shell == "fish":
            if st in ("FB", "FW") and st2 == "FDQ":
                seg = []
            elif st in ("FDQ", "FDQB"):
                if st2 in ("FDQ", "FDQB"):
                    seg.extend(x for k, x in evs)     # literal payload and live '$' alike reach the argument
                else:
                    second.append(("fish-a", i, SL.skeleton(SL.run("fish", "FB", seg)[1])))
                    seg = None
        elif shell == "zsh":
            if st == "ZB" and st2 not in ("ZB", "ZC"):
                word, word_sq = [], False
            if word is not None:
                if st2 == "ZB" and st in ("ZB", "ZW"):
                    if word_sq:
                        second.append(("zsh-spec", i, SL.skeleton(SL.run("zspec", "ZsPre", word)[1])))
                        for a in zsh_actions(word):
                            third.append(("zsh-action", i, a))
                    word = None
                else:
                    for k, x in evs:
                        if k == "Q" and x == 39:
                            word_sq = True
                        elif k in ("L", "S", "A"):
                            word.append(x)
        st = st2
    return skel, offs, second + third, st


def zsh_actions(word):
    """third level: the `((name\\:"tooltip" ...))` action of a spec is handed to
    `eval ws=( ... )` by _arguments after the backslashes before colons were removed:
    -> skeletons of the eval'd word lists of one shell word's payload"""
    fields, cur, i = [], [], 0
    while i < len(word):
        c = word[i]
        if c == 92 and i + 1 < len(word):
            if word[i + 1] != 58:
                cur.append(92)
            cur.append(word[i + 1])
            i += 2
            continue
        if c == 58:
            fields.append(cur)
            cur = []
        else:
            cur.append(c)
        i += 1
    fields.append(cur)
    out = []
    for f in fields:
        if len(f) >= 4 and f[:2] == [40, 40] and f[-2:] == [41, 41]:
            fin, evs, _ = SL.run("sh", "ZB", f[2:-2])
            out.append((fin, SL.skeleton(evs)))
    return out


def script_texts(v, path="", out=None):
    """all (slot kind, text bytes) of a (cmd ...) spec"""
    if out is None:
        out = []
    for it in v[2:]:
        if not isinstance(it, list):
            continue
        h = it[0]
        if h in ("about", "long_about", "before_help", "after_help", "before_long_help", "after_long_help"):
            out.append((("sub-" if path else "root-") + h, unhex(it[1])))
        elif h == "arg":
            pos = any(isinstance(o, list) and o[0] == "pos" for o in it[2:])
            for o in it[2:]:
                if isinstance(o, list) and o[0] in ("help", "long_help"):
                    out.append((("positional-" if pos else "option-") + o[0], unhex(o[1])))
                elif isinstance(o, list) and o[0] in ("pv", "pvhide") and len(o) > 2:
                    out.append(("possible-value-help" + ("-hidden" if o[0] == "pvhide" else ""), unhex(o[2])))
        elif h == "sub":
            script_texts(it[1], path + "/" + it[1][1], out)
    return out


def _ctx(script, off):
    t = script.decode("utf-8", "replace")
    return repr(t[max(0, off - 50):off + 30])


def bash_run(adv):
    """bash -n, then source the script in a scratch directory: nothing may be executed."""
    d = os.path.join(core.WORK, "c17bash.%d" % os.getpid())
    os.makedirs(os.path.join(d, "work"), exist_ok=True)
    p = os.path.join(d, "s.bash")
    with open(p, "wb") as f:
        f.write(adv)
    try:
        r = subprocess.run(["bash", "--norc", "--noprofile", "-n", p], capture_output=True, timeout=20)
        if r.returncode != 0:
            return "bash -n rejects the generated script: %s" % r.stderr.decode("utf-8", "replace")[:200]
        r = subprocess.run(["bash", "--norc", "--noprofile", "-c", "source ./s.bash; complete -p app >/dev/null"],
                           cwd=d, capture_output=True, timeout=20)
        if r.returncode != 0:
            return "sourcing the bash script fails: %s" % r.stderr.decode("utf-8", "replace")[:200]
        if os.path.exists(os.path.join(d, "work", "pwned")):
            return "sourcing the bash script executed text from a description (work/pwned was created)"
    finally:
        for root, dirs, files in os.walk(d, topdown=False):
            for fn in files:
                os.unlink(os.path.join(root, fn))
            for dn in dirs:
                os.rmdir(os.path.join(root, dn))
        os.rmdir(d)
    return None


def compare_scripts(shell, adv, inn):
    try:
        adv.decode("utf-8")
    except UnicodeDecodeError:
        return "%s: generated script is not UTF-8" % shell
    a_skel, a_offs, a_second, a_fin = analyse(shell, adv)
    i_skel, i_offs, i_second, i_fin = analyse(shell, inn)
    if a_skel != i_skel:
        k = next((j for j, (x, y) in enumerate(zip(a_skel, i_skel)) if x != y), min(len(a_skel), len(i_skel)))
        off = a_offs[k] if k < len(a_offs) else len(adv)
        return ("[%s-L1] token skeleton differs from the one with innocuous text: first difference at event %d, "
                "script offset %d, near %s" % (shell, k, off, _ctx(adv, off)))
    if a_fin != i_fin:
        return "[%s-L1] the script ends in lexer state %s (innocuous text: %s)" % (shell, a_fin, i_fin)
    for lvl, tags in (("L2", ("fish-a", "zsh-spec")), ("L3", ("zsh-action",))):
        a2 = [x for x in a_second if x[0] in tags]
        i2 = [x for x in i_second if x[0] in tags]
        if [(t, s) for t, _, s in a2] != [(t, s) for t, _, s in i2]:
            for (t, off, s), (t2, _, s2) in zip(a2, i2):
                if (t, s) != (t2, s2):
                    return ("[%s-%s %s] %s-level structure of the literal ending at script offset %d differs from "
                            "the one with innocuous text, near %s"
                            % (shell, lvl, t, "second" if lvl == "L2" else "third (eval'd action)", off, _ctx(adv, off)))
            return "[%s-%s] number of %s literals differs" % (shell, lvl, lvl)
    return None


def script_oracle(case, impl):
    if not impl.startswith("(adv "):
        return None      # PANIC / invalid configuration: not this property's subject
    v = sx_parse(case)
    shell = v[1]
    r = core.sx_all(impl)
    adv, inn = unhex(r[0][1]), unhex(r[1][1])
    msg = compare_scripts(shell, adv, inn)
    if msg:
        return msg
    if shell == "bash":
        if adv != inn:
            return "[bash] the bash script depends on descriptive text (bash emits names and possible values only)"
        msg = bash_run(adv)
        if msg:
            return "[bash] " + msg
    return None


def emitted_kinds(shell):
    if shell == "bash":
        return ()
    base = ["root-about", "sub-about", "option-help", "positional-help", "possible-value-help"]
    return {"zsh": base, "fish": ["sub-about", "option-help", "possible-value-help"],
            "powershell": ["sub-about", "option-help"], "elvish": ["sub-about", "option-help"],
            "nushell": ["root-about", "sub-about", "option-help", "positional-help"]}[shell]


def script_nontrivial(case, impl):
    if not impl.startswith("(adv "):
        return False
    v = sx_parse(case)
    if v[1] == "bash":
        return True
    ek = emitted_kinds(v[1])
    return any(k in ek and classes_of(t.decode("utf-8")) for k, t in script_texts(v[2]))


class TreeGen:
    def __init__(self, rng, dist):
        self.rng = rng
        self.dist = dist
        self.n = 0

    def text(self, slot):
        rng = self.rng
        r = rng.random()
        if r < 0.04:
            t = ""
        elif r < 0.40:
            t = rng.choice(HAND)
        elif r < 0.55:
            t = "plain text " + rng.choice(HAND) + " more"
        else:
            t = "".join(rng.choice(ALPHA) for _ in range(rng.choice([1, 1, 2, 3, 4, 6, 9])))
        for c in classes_of(t) or ["plain" if t else "empty"]:
            self.dist[slot + " x " + c] = self.dist.get(slot + " x " + c, 0) + 1
        return hexs(t)

    def fresh(self, p):
        self.n += 1
        return "%s%d" % (p, self.n)

    def arg(self, shorts, where, positional_ok):
        rng = self.rng
        items = ["arg", self.fresh("a")]
        kind = rng.choice(["flag", "flag", "opt", "opt", "optpv", "optpv", "pos"] if positional_ok
                          else ["flag", "flag", "opt", "optpv", "optpv"])
        is_pos = kind == "pos"
        if not is_pos:
            r = rng.random()
            is_global = rng.random() < 0.15
            if is_global:
                shorts = self.global_shorts
            if r < 0.7 and shorts:
                items.append("(short %s)" % hexs(shorts.pop()))
                if rng.random() < 0.2 and shorts:
                    items.append("(vshort %s)" % hexs(shorts.pop()))
            if r > 0.3 or len(items) == 2:
                items.append("(long %s)" % self.fresh("lo-ng"))
                if rng.random() < 0.2:
                    items.append("(valias %s)" % self.fresh("al"))
            if is_global:
                items.append("(global)")
            if kind == "flag" and rng.random() < 0.2:
                items.append("(count)")
        else:
            items.append("(pos)")
        if kind in ("opt", "optpv"):
            items.append("(multi)" if rng.random() < 0.2 else "(takes)")
        if kind == "opt" or (is_pos and rng.random() < 0.5):
            if rng.random() < 0.6:
                items.append("(hint %s)" % rng.choice(["anypath", "file", "dir", "exe", "cmdname", "cmdstring", "user",
                                                       "host", "url", "email", "other", "unknown"]))
        if kind == "optpv" or (is_pos and rng.random() < 0.4):
            with_help = rng.random() < 0.8
            for _ in range(rng.choice([1, 2, 3])):
                nm = self.fresh("v")
                if with_help and rng.random() < 0.8:
                    hide = rng.random() < 0.12
                    items.append("(%s %s %s)" % ("pvhide" if hide else "pv", nm,
                                                 self.text("possible-value-help" + ("-hidden" if hide else ""))))
                else:
                    items.append("(pv %s)" % nm)
        pre = "positional-" if is_pos else "option-"
        if rng.random() < 0.88:
            items.append("(help %s)" % self.text(pre + "help"))
        if rng.random() < 0.3:
            items.append("(long_help %s)" % self.text(pre + "long_help"))
        if rng.random() < 0.05:
            items.append("(hide)")
        return "(" + " ".join(items) + ")", is_pos

    def cmd(self, name, depth):
        rng = self.rng
        items = ["cmd", name]
        pre = "root-" if depth == 0 else "sub-"
        if rng.random() < 0.9:
            items.append("(about %s)" % self.text(pre + "about"))
        if rng.random() < 0.3:
            items.append("(long_about %s)" % self.text(pre + "long_about"))
        for slot in ("before_help", "after_help", "before_long_help", "after_long_help"):
            if rng.random() < 0.12:
                items.append("(%s %s)" % (slot, self.text(pre + slot)))
        if depth > 0 and rng.random() < 0.25:
            items.append("(alias %s)" % self.fresh("sal"))
        if rng.random() < 0.2:
            items.append("(version)")
        if rng.random() < 0.1:
            items.append("(nohelp)")
        shorts = list("abcdefgijklmnopqrstuwyzABCDEFGIJKLMNOPQRSTUWYZ")
        rng.shuffle(shorts)
        npos = 0
        for _ in range(rng.choice([0, 1, 2, 3, 4] if depth < 2 else [0, 1, 2])):
            a, is_pos = self.arg(shorts, depth, npos < 1)
            npos += is_pos
            items.append(a)
        if depth < 3:
            for _ in range(rng.choice([0, 0, 1, 2, 3] if depth == 0 else [0, 0, 0, 1, 2])):
                items.append("(sub %s)" % self.cmd(self.fresh("sub-c"), depth + 1))
        return "(" + " ".join(items) + ")"


def gen_script(tier, rng):
    dist = {}
    cases = []
    n = 150 if tier == "quick" else 3000
    g = TreeGen(rng, dist)
    # directed: one slot at a time, every hand-written text, small tree
    for t in HAND if tier != "quick" else HAND[::3]:
        h = hexs(t)
        spec = ("(cmd app (about %s) (arg a1 (short x61) (long lo-ng1) (help %s)) "
                "(arg a2 (long lo-ng2) (takes) (pv v1 %s) (pv v2) (help %s)) (arg a3 (pos) (help %s)) "
                "(sub (cmd sub-c1 (about %s) (arg a4 (short x62) (help %s)))))" % (h, h, h, h, h, h, h))
        for sh in SHELLS:
            cases.append("(script %s %s)" % (sh, spec))
    for _ in range(n):
        g.n = 0
        g.global_shorts = list("0123456789")
        spec = g.cmd("app", 0)
        for sh in SHELLS:
            cases.append("(script %s %s)" % (sh, spec))
    return cases, dist


# ---- fish generator model ----
def fish_model_streams(tier, rng):
    """the byte-exact Gallina model of fish.rs (Complete/FishModel.v, driver ocaml/fish_driver.ml) against the real
    generator on trees whose every text slot carries adversarial text: both files of the `script` mode (the texts as
    given / innocuous text of the same emptiness) are compared byte for byte"""
    dist = {}
    g = TreeGen(rng, dist)
    cases = []
    for t in HAND[::2] if tier == "quick" else HAND:
        h = hexs(t)
        cases.append("(script fish (cmd app (about %s) (arg a1 (short x61) (long lo-ng1) (help %s)) "
                     "(arg a2 (long lo-ng2) (takes) (pv v1 %s) (pvhide v2 %s) (pv v3) (help %s)) (arg a3 (pos) (help %s)) "
                     "(sub (cmd sub-c1 (about %s) (alias sal1) (arg a4 (short x62) (global) (help %s)) "
                     "(sub (cmd sub-c2 (about %s) (sub (cmd sub-c3 (about %s) (arg a5 (short x63) (help %s))))))))))"
                     % ((h,) * 11))
    for _ in range(120 if tier == "quick" else 2500):
        g.n = 0
        g.global_shorts = list("0123456789")
        cases.append("(script fish %s)" % g.cmd("app", 0))
    return [Stream("fish-model", cases, oracle=script_oracle, area="fish", nontrivial=script_nontrivial,
                   describe={"slot x character class (texts generated)": dict(sorted(dist.items())),
                             "trees": len(cases)})]
# ---- end fish generator model ----


def streams(tier, rng):
    esc = gen_esc(tier, rng)
    lexport = gen_lexport(tier, rng)
    script, dist = gen_script(tier, rng)
    kinds = {}
    for c in esc:
        k = c.split(" ")[1]
        kinds[k] = kinds.get(k, 0) + 1
    strrep = gen_strreplace(tier, rng)
    return [
        Stream("strreplace", strrep, oracle=strreplace_oracle, area="aottext",
               nontrivial=lambda c, r: unhex(sx_parse(c)[1]) in unhex(sx_parse(c)[3]),
               describe={"what": "Rust str::replace vs the model's replace (multi-character and empty patterns, "
                                 "overlapping candidates), python str.replace as the oracle", "cases": len(strrep)}),
        Stream("lexport", lexport, area="aottext",
               describe={"what": "python port of the lexer machines vs the extracted Coq machines", "cases": len(lexport)}),
        Stream("esc", esc, oracle=esc_oracle, area="aottext", nontrivial=esc_nontrivial,
               describe={"cases per escape function": kinds}),
        Stream("script", script, oracle=script_oracle, area=None, nontrivial=script_nontrivial,
               describe={"slot x character class (texts generated)": dict(sorted(dist.items())),
                         "shells": SHELLS, "trees": len(script) // len(SHELLS)}),
    ] + fish_model_streams(tier, rng)


NAME_SPECIAL = re.compile(r"\((?:cmd|long|alias|valias|bin) (?!x[0-9a-f]*[ )])[^ ()]*['\"`$\\\\|;&<>*?!#~{}\[\]][^ ()]*")


def classify_known(stream, case, impl, failure):
    """C17-zsh-tooltip-dquote: the only complaint is at the third level (the eval'd `((...))` action of a zsh
    spec) and it disappears when every '"' is deleted from the texts -- checked on the script the real generator
    produces for the texts without '"' (harness output `nodq`), so any other violation in the same case still counts."""
    if stream == "script" and isinstance(failure, str) and NAME_SPECIAL.search(case):
        # C17-names-unescaped: command / alias / option NAMES are written as bare words or inside quoted keys without
        # escaping; with a quote or metacharacter in a name the script's structure is broken before any text is read.
        # The streams never generate such names (only corpus/C17/script.names.cases does).
        return "C17-names-unescaped"
    if stream != "script" or not isinstance(failure, str) or not failure.startswith("[zsh-L3"):
        return None
    r = core.sx_all(impl)
    if len(r) < 3 or r[2][0] != "nodq":
        return None
    if compare_scripts("zsh", unhex(r[2][1]), unhex(r[1][1])) is None:
        return "C17-zsh-tooltip-dquote"
    return None


TECHNIQUE = ("Coq proof (str::replace model + per-shell lexer machines: escaped text is transparent in its quoting "
             "context; for fish composed through a byte-exact generator model to whole-script structure invariance) + "
             "extracted-model/implementation correspondence + token-skeleton oracle on the real scripts")
LEVEL_TEXT = ("Machine-checked theorems (Coq 8.16, closed under the global context): a model of str::replace meets its "
              "specification; every escape function of the fish, zsh, PowerShell, elvish and nushell generators, as "
              "the composition of the .replace chains read off the current Rust source, is read back by the model of "
              "that shell's lexer -- for every string and every continuation -- as literal payload only, leaving the "
              "lexer in the state it was in, with the payload equal to the (newline-flattened) text; bash reads no "
              "descriptive text.  fish, whole script: in a byte-exact model of the fish generator (every slot typed by "
              "the escape and quoting context it is written in) the token skeleton and final lexer state of the ENTIRE "
              "generated file are the same for any two assignments of about/help/possible-value-help texts with the same "
              "presence shape, and every text contributes literal payload only, for all command trees whose names "
              "contain no quote, backslash or hash byte (boundary witness: an option name with a double quote) -- stated for "
              "the built tree and, since Command::build keeps names tame and treats the texts uniformly, for generate() on "
              "the command tree as the user wrote it.  The models are tied to clap_complete by running the extracted escape functions and the "
              "real ones (hook) on the same strings and the extracted fish generator model and the real generator on the same trees (files compared byte for byte) on every check, and an independent oracle tokenises the real "
              "generated scripts (adversarial vs innocuous text in every slot) and compares token skeletons.")
LEVEL_NOTE = ("Trusted: Coq kernel, extraction, OCaml drivers, Rust harness, generators, the shell lexer models (only "
              "bash can be executed here), the table translator.  Which slot is emitted through which escape "
              "function is checked on the real scripts only (oracle), not proved.")


# ---- powershell / elvish generator models ------------------------------------------------------------------
# Byte-exact Gallina models of clap_complete/src/aot/shells/{powershell,elvish}.rs with the description texts of
# the tree (coq/theories/Complete/{Powershell,Elvish}Model.v, TextTree.v incl. what Command::build does to the
# texts).  Two more correspondence streams: for every tree with an adversarial text in every slot, the script of the
# extracted model must equal the real generator's script BYTE FOR BYTE -- with the texts as given (`adv`) and with
# innocuous texts of the same emptiness (`inn`).  The theorems C17_<shell>_script_structure compose the per-slot
# theorems through these models.
AREAS = AREAS + ["elvish", "powershell"]
TRUSTED = TRUSTED + [
    "PowerShell / elvish generator models: extraction of Complete/{Powershell,Elvish}Model.v + Complete/TextTree.v "
    "(ExtrOcamlBasic only), drivers ocaml/{powershell,elvish}_driver.ml (spec reader incl. which spec items make "
    "long_help_exists_ true, UTF-8 decode/encode by the extracted Base.Utf8); char::is_uppercase is a parameter of "
    "the PowerShell model (theorems hold for every such function)",
]
ASSUMPTIONS = ASSUMPTIONS + [
    "C17_<shell>_script_structure: every name the generator writes (bin name, command names and aliases, shorts, longs "
    "and their aliases) contains no quote character of that shell's lexer and no '#': names are written unescaped "
    "(C17_<shell>_quote_in_name_refuted is the witness that the class is sharp)",
]


def _model_script_stream(shell, tier, rng):
    dist = {}
    g = TreeGen(rng, dist)
    cases = []
    for t in HAND if tier != "quick" else HAND[1::3]:
        h = hexs(t)
        spec = ("(cmd app (about %s) (arg a1 (short x61) (long lo-ng1) (valias al1) (help %s)) "
                "(arg a2 (long lo-ng2) (takes) (global) (pv v1 %s) (pv v2) (help %s)) (arg a3 (pos) (help %s)) "
                "(sub (cmd sub-c1 (alias sal1) (about %s) (arg a4 (short x42) (long_help %s) (help %s)) "
                "(sub (cmd sub-c2 (about %s))))))" % (h, h, h, h, h, h, h, h, h))
        cases.append("(script %s %s)" % (shell, spec))
    for _ in range(80 if tier == "quick" else 1500):
        g.n = 0
        g.global_shorts = list("0123456789")
        cases.append("(script %s %s)" % (shell, g.cmd("app", 0)))
    return Stream(shell + "-model", cases, oracle=script_oracle, area=shell, nontrivial=script_nontrivial,
                  describe={"what": "script of the extracted %s generator model == real script, byte for byte, for the "
                                    "adversarial and for the innocuous texts" % shell,
                            "slot x character class (texts generated)": dict(sorted(dist.items())),
                            "trees": len(cases)})


_streams_without_models = streams


def streams(tier, rng):
    out = _streams_without_models(tier, rng)
    out.append(_model_script_stream("elvish", tier, rng))
    out.append(_model_script_stream("powershell", tier, rng))
    return out


# what MANIFEST.json says about C17 after round 2
RULE = RULE + ("  Streams elvish-model / powershell-model: trees with an adversarial text in every slot on which the script of "
               "the extracted generator model (with the texts as given and with innocuous texts) must equal the real script "
               "byte for byte.")
LEVEL_TEXT = (LEVEL_TEXT +
              "  Round 2: for PowerShell and elvish the per-slot theorems are composed through byte-exact models of the two "
              "generators: for every command tree (any depth) whose names contain no quote character of the shell's lexer "
              "and no '#', and for ANY two assignments of description texts (help/about present or absent, empty or not), "
              "the ENTIRE generated scripts have the same token skeleton and final lexer state; the skeleton equals that of "
              "the script generated with no text at all and every literal is closed at the end (each text is literal "
              "payload only); Command::build keeps a tree in the class.  A quote in a name is a proved class boundary "
              "(names are written unescaped; witness replayed on the real generators).")
LEVEL_NOTE = ("Trusted: Coq kernel, extraction, OCaml drivers, Rust harness, generators, the shell lexer models (only "
              "bash can be executed here), the table translator.  Which slot is emitted through which escape "
              "function is proved for fish, PowerShell and elvish (generator models, tied byte for byte on every run) and "
              "checked on the real scripts only (oracle) for zsh and nushell.")


# ---- nushell generator model ----
# Byte-exact Gallina transcription of clap_complete_nushell/src/lib.rs with the description texts of the tree
# (coq/theories/Complete/NushellModel.v; texts in FishModel.cdesc, dbuild = what Command::build does to them).  One more
# correspondence stream: for every tree with an adversarial text in every slot, the module the extracted model writes must
# equal the real generator's BYTE FOR BYTE -- with the texts as given (`adv`) and with innocuous texts of the same
# emptiness (`inn`).  The theorems C17_nushell_script_* compose the per-slot comment theorem through this model.
AREAS = AREAS + ["nushell"]
TRUSTED = TRUSTED + [
    "nushell generator model: extraction of Complete/NushellModel.v (+ FishModel.cdesc/dbuild; ExtrOcamlBasic only), "
    "driver ocaml/nushell_driver.ml (spec reader incl. which spec items make long_help_exists_ true)",
]
ASSUMPTIONS = ASSUMPTIONS + [
    "C17_nushell_script_*: every name the generator writes (bin name, command names, argument ids, shorts, longs and "
    "their visible aliases, possible values) contains none of the bytes \" ' ` \\ # : names are written unescaped "
    "(C17_nushell_script_quote_in_name_refuted is the witness for the quote)",
]


def _nushell_model_streams(tier, rng):
    dist = {}
    g = TreeGen(rng, dist)
    cases = []
    for t in HAND if tier != "quick" else HAND[1::3]:
        h = hexs(t)
        # both call paths of a help text (option / positional), about at three levels, a global option with values
        spec = ("(cmd app (about %s) (arg a1 (short x61) (long lo-ng1) (valias al1) (vshort x7a) (help %s)) "
                "(arg a2 (long lo-ng2) (takes) (global) (pv v1 %s) (pvhide v2) (help %s)) (arg a3 (pos) (help %s)) "
                "(arg a6 (long a-long-option-name-over-the-indent) (multi) (hint file) (help %s)) "
                "(sub (cmd sub-c1 (alias sal1) (about %s) (arg a4 (short x42) (long_help %s) (help %s)) "
                "(arg a5 (pos) (req) (pv w1) (help %s)) "
                "(sub (cmd sub-c2 (about %s))))))" % ((h,) * 11))
        cases.append("(script nushell %s)" % spec)
    for _ in range(100 if tier == "quick" else 2000):
        g.n = 0
        g.global_shorts = list("0123456789")
        cases.append("(script nushell %s)" % g.cmd("app", 0))
    return [Stream("nushell-model", cases, oracle=script_oracle, area="nushell", nontrivial=script_nontrivial,
                   describe={"what": "module of the extracted nushell generator model == real module, byte for byte, for "
                                     "the adversarial and for the innocuous texts",
                             "slot x character class (texts generated)": dict(sorted(dist.items())),
                             "trees": len(cases)})]


_streams_without_nushell_model = streams


def streams(tier, rng):
    return _streams_without_nushell_model(tier, rng) + _nushell_model_streams(tier, rng)
# what MANIFEST.json says about C17 after the nushell model
RULE = RULE + ("  Stream nushell-model: trees with an adversarial text in every slot (options AND positionals, about at every "
               "level) on which the module of the extracted nushell generator model (texts as given / innocuous) must equal the "
               "real module byte for byte.")
LEVEL_TEXT = (LEVEL_TEXT +
              "  nushell: the comment theorem is composed through a byte-exact model of clap_complete_nushell (all of lib.rs; both "
              "call paths of a help text -- option and positional -- go through the one modelled function; the padding before a "
              "help comment is proved to depend on names only): for every command tree (any depth) whose names (bin names, "
              "command names, argument ids, shorts, longs, aliases, possible values) contain none of \" ' ` \\ #, and for ANY two "
              "assignments of description texts with the same presence shape, the ENTIRE modules have the same token skeleton "
              "and final lexer state, every text is literal payload of a comment only and the module ends between words; "
              "Command::build keeps a tree in the class, so the statement holds for generate() on the tree the user wrote.  A "
              "quote in an argument id is a proved class boundary (witness replayed on the real generator).")
LEVEL_NOTE = LEVEL_NOTE.replace("is proved for fish, PowerShell and elvish (generator models, tied byte for byte on every run) and "
                                "checked on the real scripts only (oracle) for zsh and nushell.",
                                "is proved for fish, PowerShell, elvish and nushell (generator models, tied byte for byte on every run) "
                                "and checked on the real scripts only (oracle) for zsh.")
# ---- end nushell generator model ----
# ---- zsh generator model ----
# Byte-exact Gallina model of clap_complete/src/aot/shells/zsh.rs with the description texts of the tree
# (coq/theories/Complete/ZshModel.v; texts = FishModel.cdesc, dbuild).  One more correspondence stream: for every tree with
# an adversarial text in every slot the scripts of the extracted model must equal the real generator's BYTE FOR BYTE --
# with the texts as given (`adv`), with innocuous texts of the same emptiness (`inn`) and with every '"' deleted (`nodq`).
AREAS = AREAS + ["zsh"]
TRUSTED = TRUSTED + [
    "zsh generator model: extraction of Complete/ZshModel.v + FishModel.v's text decoration (ExtrOcamlBasic only), driver "
    "ocaml/zsh_driver.ml (spec reader incl. which spec items make long_help_exists_ true)",
]


def _zsh_model_stream(tier, rng):
    dist = {}
    g = TreeGen(rng, dist)
    cases = []
    for t in HAND if tier != "quick" else HAND[2::3]:
        h = hexs(t)
        cases.append("(script zsh (cmd app (about %s) (arg a1 (short x61) (long lo-ng1) (valias al1) (help %s)) "
                     "(arg a2 (long lo-ng2) (takes) (global) (pv v1 %s) (pvhide v2 %s) (pv v3) (help %s)) (arg a3 (pos) (help %s)) "
                     "(arg a6 (pos) (pv w1 %s) (pv w2)) "
                     "(sub (cmd sub-c1 (alias sal1) (about %s) (arg a4 (short x42) (long_help %s) (help %s)) (arg a7 (pos) (multi) (help %s)) "
                     "(sub (cmd sub-c2 (about %s) (sub (cmd sub-c3 (about %s) (arg a5 (short x63) (count) (help %s))))))))))"
                     % ((h,) * 14))
    for _ in range(100 if tier == "quick" else 2500):
        g.n = 0
        g.global_shorts = list("0123456789")
        cases.append("(script zsh %s)" % g.cmd("app", 0))
    return Stream("zsh-model", cases, oracle=script_oracle, area="zsh", nontrivial=script_nontrivial,
                  describe={"what": "script of the extracted zsh generator model == real script, byte for byte, for the "
                                    "adversarial texts, the innocuous texts and the texts without double quotes",
                            "slot x character class (texts generated)": dict(sorted(dist.items())),
                            "trees": len(cases)})


_streams_without_zsh_model = streams


def streams(tier, rng):
    return _streams_without_zsh_model(tier, rng) + [_zsh_model_stream(tier, rng)]


_classify_without_zsh_model = classify_known


def classify_known(stream, case, impl, failure):
    # the recorded finding C17-zsh-tooltip-dquote is recognised in the stream of the zsh model exactly as in `script`
    return _classify_without_zsh_model("script" if stream == "zsh-model" else stream, case, impl, failure)


RULE = RULE + ("  Stream zsh-model: trees with an adversarial text in every slot on which the scripts of the extracted zsh "
               "generator model (texts as given, innocuous texts, texts without double quotes) must equal the real scripts "
               "byte for byte.")
LEVEL_TEXT = (LEVEL_TEXT +
              "  zsh (round 2): the per-slot theorems are composed through a byte-exact model of the zsh generator in which "
              "every text slot is typed by the escape it is written through.  Level 1 (shell words): for every command tree "
              "whose names, aliases, option spellings, possible values, argument ids and bin names contain no quote, backslash "
              "or hash byte, every slot of the ENTIRE file is met inside a single-quoted word, the token skeleton and final "
              "lexer state of the file are the same for ANY two assignments of help / about / possible-value-help texts with "
              "the same presence shape, and the payload handed to _arguments / _describe is the fixed payload plus the "
              "level-1 image of each text.  Level 2 (the _arguments spec, brackets and colons): every spec line the model "
              "writes (one per option spelling, flag spelling, positional, subcommand name or alias) runs through BOTH lexers "
              "-- each escape_help slot inside quotes and in the description or a field, each positional help in a field -- "
              "so its level-2 events are those of the fixed text plus the text as literal payload, and two lines with the "
              "same fixed text have the same level-2 skeleton.  A quote in a NAME and the double quote in a tooltip at the "
              "eval level (recorded finding) are proved class boundaries.")
LEVEL_NOTE = ("Trusted: Coq kernel, extraction, OCaml drivers, Rust harness, generators, the shell lexer models (only "
              "bash can be executed here), the table translator.  Which slot is emitted through which escape "
              "function is proved for fish, PowerShell, elvish, nushell and zsh (generator models, tied byte for byte on every "
              "run); zsh level 3 (the eval'd ((...)) action) is oracle-only.")
# ---- end zsh generator model ----
# ---- round 4: the zsh model reads value names, terminators, last, conflicts over groups ----
LEVEL_TEXT = (LEVEL_TEXT +
              "  Round 4: the zsh generator model also writes value names (as they are, between the colons of an option spec), "
              "value terminators (through escape_value, in the *term: prefix of a positional spec) and exclusion lists that "
              "expand argument groups; the class of the whole-script theorems additionally asks value names and terminators to "
              "be free of quote, backslash and hash bytes (at the shell-word level escape_value keeps ANY terminator inside the "
              "quotes), every zsh theorem is re-proved on the extended model, the class is satisfiable with both "
              "(C17_zsh_script_value_name_terminator_nonvacuous) and sharp for value names: a quote in a value name ends the "
              "quoted spec early and the help of the next option is read outside the quotes "
              "(C17_zsh_script_untamed_value_name_refuted; family of the recorded finding C17-names-unescaped).")
# ---- end round 4 ----
