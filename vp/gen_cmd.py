"""Random command trees and argument vectors for the parser area (C01-C11).

Commands are python dicts mirroring the case format (see ocaml/parse_driver.ml and
harness/src/modes/parse.rs); `cmd_sx` prints them.  Argument vectors are rendered from
*invocations* (which args occur, with which values, in which spelling), then optionally
mutated, so that most lines are valid and every token shape meets every parser state."""
from .core import hexs

LONGS = ["alpha", "alp", "beta", "be", "gamma", "opt", "out", "o", "ab", "a-b", "color", "col"]
SHORTS = "abcdovxSqzf"
SUBS = ["sub", "su", "run", "ru", "test", "t", "add", "hx"]
VALUES = [b"v", b"w", b"x1", b"", b"a,b", b"a,,b", b"1", b"-1", b"-x", b"--y", b"sub", b"run", b"help", b"=", b"v=w",
          b"\xff", b"-", b"--", b"true", b"false", b"300", b"END", b"0", b"255", "é".encode(),
          b"a,\xff", b"\xffb,c",     # a declared delimiter next to bytes that are not UTF-8: splitting is byte-level
          # long non-ASCII values: an error message that echoes (part of) a rejected value must still render
          ("\u00e4" * 70).encode(), b"a" * 63 + ("\u65e5\u672c\u8a9e" * 4).encode(), b"x" * 62 + ("\u00e9" * 40).encode()]
SAFE_VALUES = [b"v", b"w", b"x1", b"a,b", b"1", b"v=w", b"true", b"0", b"zz", b"3"]


def pick(rng, seq):
    return seq[rng.randrange(len(seq))]


def chance(rng, p):
    return rng.random() < p


# --------------------------------------------------------------------------- value parsers
# a["vp"]: "string" | "os" | "bool" | "count" | ("i64", lo, hi)                      (the parsers every stream uses)
#        | "boolish" | "falsey" | "nonempty" | ("pv", [(name, [alias..], hide)..]) | ("int", type, lo, hi)
#          (Profile.vp_wide > 0 only: BoolishValueParser, FalseyValueParser, NonEmptyStringValueParser,
#           PossibleValuesParser -- ignore_case is the argument's `icase` flag --, value_parser!(T).range(lo..=hi))
INT_BOUNDS = {"u8": (0, 2**8 - 1), "i8": (-2**7, 2**7 - 1), "u16": (0, 2**16 - 1), "i16": (-2**15, 2**15 - 1),
              "u32": (0, 2**32 - 1), "i32": (-2**31, 2**31 - 1), "u64": (0, 2**64 - 1), "i64": (-2**63, 2**63 - 1)}
WIDE_INT_TYPES = ["u8", "i8", "u16", "i16", "u32", "i32", "u64"]
PV_POOL = [b"v", b"w", b"x1", b"1", b"zz", b"3", b"true", b"fast", b"Slow", b"AUTO", b"k", b"on", b"d", b"dm", b"pd", b"e",
           "\u00e9".encode(), "\u00c9t\u00e9".encode(), "stra\u00dfe".encode()]
BOOLISH_LITS = [b"y", b"yes", b"t", b"true", b"on", b"1", b"n", b"no", b"f", b"false", b"off", b"0"]


def vp_sx(vp):
    if isinstance(vp, str):
        return vp
    if vp[0] == "i64":
        return "(i64 %d %d)" % (vp[1], vp[2])
    if vp[0] == "int":
        return "(int %s %d %d)" % (vp[1], vp[2], vp[3])
    if vp[0] == "pv":
        return "(pv %s)" % " ".join("(%s%s)" % ("hide " if h else "", " ".join(hexs(x) for x in [n] + list(al)))
                                    for n, al, h in vp[1])
    raise ValueError(vp)


def vp_is_wide(vp):
    return vp in ("boolish", "falsey", "nonempty") or (isinstance(vp, tuple) and vp[0] in ("pv", "int"))


def gen_wide_vp(rng, action):
    """a value parser of the wide family that the action's type check admits"""
    if action in ("settrue", "setfalse"):
        return pick(rng, ["boolish", "falsey"])
    if action == "count":
        # the action's default "0" goes through the parser too: mostly keep 0 inside the range
        return ("int", "u8", 0 if chance(rng, 0.85) else 1, pick(rng, [255, 3, 1, 0]))
    k = rng.random()
    if k < 0.4:
        names = rng.sample(PV_POOL, rng.randrange(1, 5))
        pvs = []
        for n in names:
            al = [x for x in rng.sample(PV_POOL, rng.randrange(0, 3)) if x not in names] if chance(rng, 0.4) else []
            pvs.append((n, al, chance(rng, 0.3)))
        return ("pv", pvs)
    if k < 0.75:
        t = pick(rng, WIDE_INT_TYPES)
        tmin, tmax = INT_BOUNDS[t]
        r = rng.random()
        if r < 0.3:
            lo, hi = tmin, tmax
        elif r < 0.8:
            lo, hi = max(tmin, -5), min(tmax, 300)
        elif r < 0.9:
            lo, hi = max(tmin, tmax - 3), tmax
        else:
            lo, hi = min(tmax, 7), max(tmin, 3)           # empty range
        return ("int", t, lo, hi)
    return pick(rng, ["boolish", "falsey", "nonempty", "nonempty"])


def widen_vp(rng, a):
    """give the argument a wide value parser and move the values its definition carries (defaults, default-missing,
    env) into that parser's language most of the time, so that most lines still parse"""
    a["vp"] = gen_wide_vp(rng, a.get("action"))
    if isinstance(a["vp"], tuple) and a["vp"][0] == "pv" and a.get("action") in ("set", "append", None) and chance(rng, 0.4):
        a["flags"].add("icase")
    for key in ("default", "dmissing"):
        if a.get(key):
            a[key] = [wide_value(rng, a, chance(rng, 0.85)) for _ in a[key]]
    if a.get("env") and a["env"][1] is not None:
        a["env"] = (a["env"][0], wide_value(rng, a, chance(rng, 0.8)))


def flip_case(rng, b):
    try:
        t = b.decode()
    except UnicodeDecodeError:
        return b
    return "".join((ch.upper() if ch.islower() else ch.lower()) if chance(rng, 0.5) else ch for ch in t).encode()


def wide_value(rng, a, safe):
    """a candidate value for an argument with a wide value parser: inside the language when `safe`, else a boundary
    neighbour / wrong case / near miss / ill-formed bytes"""
    vp = a["vp"]
    if vp == "nonempty":
        return pick(rng, SAFE_VALUES) if safe else pick(rng, [b"", b"v", b"\xff", b"x1"])
    if vp in ("boolish", "falsey"):
        if safe or chance(rng, 0.4):
            v = pick(rng, BOOLISH_LITS)
            return flip_case(rng, v) if chance(rng, 0.3) else v
        return pick(rng, [b"", b"maybe", b"2", b"yess", b"tru", "\u212a".encode(), b"o\xff", b" on", b"ON ", b"e", b"3"])
    if vp[0] == "pv":
        names = [x for n, al, _h in vp[1] for x in [n] + list(al)]
        icase = "icase" in a.get("flags", ())
        if safe:
            v = pick(rng, names)
            return flip_case(rng, v) if icase and chance(rng, 0.5) else v
        r = rng.random()
        if r < 0.35:
            return flip_case(rng, pick(rng, names))
        if r < 0.5:
            return pick(rng, names) + pick(rng, [b"x", b" ", b"\xff"])
        if r < 0.6:
            return pick(rng, names)[:-1]
        if r < 0.7:
            return pick(rng, ["\u212a".encode(), "STRASSE".encode(), "\u00c9".encode(), "stra\u1e9ee".encode()])
        return pick(rng, VALUES)
    if vp[0] == "int":
        t, lo, hi = vp[1], vp[2], vp[3]
        tmin, tmax = INT_BOUNDS[t]
        if safe and lo <= hi:
            v = pick(rng, [lo, hi, min(hi, lo + 1), max(lo, hi - 1), max(lo, min(hi, 0)), max(lo, min(hi, 7))])
            return (b"+" if v >= 0 and chance(rng, 0.1) else b"") + (b"0" if chance(rng, 0.1) else b"") * 2 + str(v).encode() \
                if chance(rng, 0.2) else str(v).encode()
        cands = [lo - 1, lo, hi, hi + 1, tmin - 1, tmin, tmax, tmax + 1, 0, -1, 2**63, -2**63 - 1, 2**64, 2**64 - 1]
        if chance(rng, 0.75):
            return str(pick(rng, cands)).encode()
        return pick(rng, [b"", b"+", b"-", b"-0", b"+0", b"1x", b"0x1", b" 1", b"1 ", b"1_0", b"\xff", b"--1", b"+-1",
                          "\u0661".encode(), b"1e3", b"1.0"])
    raise ValueError(vp)


# --------------------------------------------------------------------------- printing
def arg_sx(a):
    it = [hexs(a["id"])]
    if a.get("short"):
        it.append("(short %d)" % ord(a["short"]))
    if a.get("long"):
        it.append("(long %s)" % hexs(a["long"]))
    for n, v in a.get("aliases", []):
        it.append("(alias %s%s)" % (hexs(n), " v" if v else ""))
    for n, v in a.get("saliases", []):
        it.append("(salias %d%s)" % (ord(n), " v" if v else ""))
    if a.get("index") is not None:
        it.append("(index %d)" % a["index"])
    if a.get("action"):
        it.append("(action %s)" % a["action"])
    if a.get("num") is not None:
        lo, hi = a["num"]
        it.append("(num %d %s)" % (lo, "inf" if hi is None else hi))
    if a.get("names"):
        it.append("(names %d)" % a["names"])
    if a.get("delim"):
        it.append("(delim %d)" % ord(a["delim"]))
    if a.get("term") is not None:
        it.append("(term %s)" % hexs(a["term"]))
    if a.get("vp"):
        vp = a["vp"]
        it.append("(vp %s)" % vp_sx(vp))
    if a.get("flags"):
        it.append("(flags %s)" % " ".join(sorted(a["flags"])))
    if a.get("default"):
        it.append("(default %s)" % " ".join(hexs(x) for x in a["default"]))
    if a.get("dmissing"):
        it.append("(dmissing %s)" % " ".join(hexs(x) for x in a["dmissing"]))
    for oid, pred, d in a.get("difs", []):
        p = "present" if pred is None else "(eq %s)" % hexs(pred)
        it.append("(dif %s %s%s)" % (hexs(oid), p, "" if d is None else " " + hexs(d)))
    if a.get("env"):
        name, val = a["env"]
        it.append("(env %s%s)" % (hexs(name), "" if val is None else " " + hexs(val)))
    for key in ("conflicts", "overrides", "requires", "r_unless", "r_unless_all", "groups"):
        if a.get(key):
            it.append("(%s %s)" % (key, " ".join(hexs(x) for x in a[key])))
    for v, i in a.get("requires_if", []):
        it.append("(requires_if %s %s)" % (hexs(v), hexs(i)))
    for i, v in a.get("r_if", []):
        it.append("(r_if %s %s)" % (hexs(i), hexs(v)))
    if a.get("r_if_all"):
        it.append("(r_if_all %s)" % " ".join("(%s %s)" % (hexs(i), hexs(v)) for i, v in a["r_if_all"]))
    if a.get("help"):
        it.append("(help %s)" % hexs(a["help"]))
    return "(arg %s)" % " ".join(it)


def group_sx(g):
    it = [hexs(g["id"])]
    if g.get("args"):
        it.append("(args %s)" % " ".join(hexs(x) for x in g["args"]))
    if g.get("required"):
        it.append("(required)")
    if g.get("multiple"):
        it.append("(multiple)")
    if g.get("requires"):
        it.append("(requires %s)" % " ".join(hexs(x) for x in g["requires"]))
    if g.get("conflicts"):
        it.append("(conflicts %s)" % " ".join(hexs(x) for x in g["conflicts"]))
    return "(group %s)" % " ".join(it)


def cmd_sx(c):
    it = [hexs(c["name"])]
    if c.get("about") is not None:
        it.append("(about %s)" % hexs(c["about"]))
    if c.get("version") is not None:
        it.append("(version %s)" % hexs(c["version"]))
    for n, v in c.get("aliases", []):
        it.append("(alias %s%s)" % (hexs(n), " v" if v else ""))
    if c.get("short_flag"):
        it.append("(short_flag %d)" % ord(c["short_flag"]))
    if c.get("long_flag"):
        it.append("(long_flag %s)" % hexs(c["long_flag"]))
    for n, v in c.get("short_flag_aliases", []):
        it.append("(short_flag_alias %d%s)" % (ord(n), " v" if v else ""))
    for n, v in c.get("long_flag_aliases", []):
        it.append("(long_flag_alias %s%s)" % (hexs(n), " v" if v else ""))
    if c.get("settings"):
        it.append("(set %s)" % " ".join(c["settings"]))
    if c.get("ext"):
        it.append("(ext %s)" % c["ext"])
    args = list(c.get("args", []))
    if c.get("decl_order"):
        # positionals with explicit indices may be DECLARED in any order (Arg::index decides, not the declaration):
        # the python side keeps them in index order, only the printed definition is permuted
        pos_slots = [k for k, a in enumerate(args) if a.get("index") is not None and not a.get("short") and not a.get("long")]
        perm = [pos_slots[j] for j in c["decl_order"] if j < len(pos_slots)]
        if sorted(perm) == pos_slots:
            permuted = [args[k] for k in perm]
            for slot, a in zip(pos_slots, permuted):
                args[slot] = a
    for a in args:
        it.append(arg_sx(a))
    for g in c.get("groups", []):
        it.append(group_sx(g))
    for s in c.get("subs", []):
        it.append("(sub %s)" % cmd_sx(s))
    return "(cmd %s)" % " ".join(it)


def case_sx(c, argv, mode="parse"):
    return "(%s %s (argv%s))" % (mode, cmd_sx(c), "".join(" " + hexs(t) for t in argv))


# --------------------------------------------------------------------------- commands
class Profile:
    """feature switches for the generator"""

    def __init__(self, **kw):
        self.depth = 2
        self.max_opts = 4
        self.max_pos = 3
        self.relations = 0.25
        self.groups = 0.3
        self.settings = 0.12
        self.hyphen = 0.1
        self.defaults = 0.3
        self.env = 0.15
        self.flag_subs = 0.3
        self.external = 0.1
        self.low_index = 0.08
        self.delims = 0.25
        self.terminators = 0.1
        self.require_equals = 0.1
        self.last = 0.12
        self.tva = 0.1
        self.globals = 0.2
        self.invalid = 0.03
        self.ignore_errors = 0.08
        self.typed = 0.15
        self.aliases = 0.3
        self.infer = 0.15
        self.pos_alias = 0.0      # positionals carrying (meaningless) long aliases
        self.group_nesting = 0.0  # groups naming other groups (or themselves) as members: rejected by the validity gate
        self.vp_wide = 0.0        # boolish / falsey / non-empty / possible-value / narrow ranged-integer value parsers
        self.vp_wide_ext = 0.0    # ... as the external-subcommand value parser
        self.flag_values = 0.0    # SetTrue / SetFalse options declared with num_args(0..=1): `--flag[=true|false]` (action.rs
                                  # gives the two flag actions max_num_args = ValueRange::OPTIONAL); 0 = never (no rng draw)
        self.conventional = False
        self.__dict__.update(kw)


CONVENTIONAL = dict(hyphen=0, flag_subs=0, external=0, low_index=0, terminators=0, require_equals=0, last=0, tva=0,
                    invalid=0, ignore_errors=0, infer=0, conventional=True)


def gen_cmd(rng, prof, depth=0, path="p", used_env=None, inherited=None):
    """inherited: names taken by global args of ancestors (they are copied down)"""
    inherited = inherited or {"ids": set(), "longs": set(), "shorts": set()}
    c = {"name": path.split("/")[-1].encode(), "about": ("A:" + path).encode(), "args": [], "groups": [], "subs": [],
         "settings": [], "aliases": []}
    S = c["settings"]
    for name, p in [("args_override_self", prof.settings), ("dont_delimit_trailing_values", prof.settings),
                    ("arg_required_else_help", prof.settings * 0.5), ("subcommand_required", prof.settings * 0.5),
                    ("subcommand_negates_reqs", prof.settings), ("disable_help_flag", prof.settings),
                    ("disable_version_flag", prof.settings * 0.5), ("propagate_version", prof.settings * 0.5)]:
        if chance(rng, p):
            S.append(name)
    if not prof.conventional:
        for name, p in [("args_conflicts_with_subcommands", prof.settings), ("subcommand_precedence_over_arg", prof.settings),
                        ("allow_missing_positional", prof.settings), ("disable_help_subcommand", prof.settings),
                        ("infer_long_args", prof.infer), ("infer_subcommands", prof.infer),
                        ("ignore_errors", prof.ignore_errors if depth == 0 else 0)]:
            if chance(rng, p):
                S.append(name)
    if chance(rng, 0.5) or "propagate_version" in S:
        c["version"] = b"1.0"
    has_help_flag = "disable_help_flag" not in S
    has_version_flag = "disable_version_flag" not in S and c.get("version") is not None
    longs = set(inherited["longs"])
    shorts = set(inherited["shorts"])
    ids = set(inherited["ids"])
    if has_help_flag:
        longs.add("help"); shorts.add("h"); ids.add("help")
    if has_version_flag or True:
        longs.add("version"); shorts.add("V"); ids.add("version")

    def fresh_long():
        for _ in range(20):
            l = pick(rng, LONGS)
            if l not in longs:
                longs.add(l)
                return l
        return None

    def fresh_short():
        for _ in range(20):
            s = pick(rng, SHORTS)
            if s not in shorts:
                shorts.add(s)
                return s
        return None

    nopts = rng.randrange(0, prof.max_opts + 1)
    for k in range(nopts):
        aid = "o%d" % k
        if aid in ids:
            aid = "o%d_%d" % (k, depth)
        ids.add(aid)
        a = {"id": aid.encode(), "flags": set()}
        r = rng.random()
        sh = fresh_short() if r < 0.75 else None
        lo = fresh_long() if (r > 0.35 or sh is None) else None
        if sh is None and lo is None:
            continue
        a["short"], a["long"] = sh, (lo.encode() if lo else None)
        # a long ALIAS needs no long name: `.short('o').alias("output")` makes `--output` a key of the argument
        if (lo or chance(rng, 0.3)) and chance(rng, prof.aliases):
            al = fresh_long()
            if al:
                a["aliases"] = [(al.encode(), chance(rng, 0.5))]
        if sh and chance(rng, prof.aliases * 0.5):
            sa = fresh_short()
            if sa:
                a["saliases"] = [(sa, chance(rng, 0.5))]
        kind = rng.random()
        if kind < 0.22:
            a["action"] = "settrue" if chance(rng, 0.7) else "setfalse"
            if prof.flag_values and chance(rng, prof.flag_values):
                a["num"] = (0, 1)
        elif kind < 0.34:
            a["action"] = "count"
        else:
            a["action"] = "append" if chance(rng, 0.35) else ("set" if chance(rng, 0.8) else None)
            rr = rng.random()
            if rr < 0.15:
                a["num"] = (0, 1)
            elif rr < 0.25:
                a["num"] = (2, 2)
            elif rr < 0.35:
                a["num"] = (1, 3)
            elif rr < 0.42:
                a["num"] = (1, None)
            elif rr < 0.47:
                a["num"] = (0, None)
            if a.get("num") == (0, 1) and chance(rng, 0.6):
                a["dmissing"] = [pick(rng, [b"dm", b"a,b"])]
                if chance(rng, 0.15):
                    a["dmissing"].append(b"dm2")
            if chance(rng, prof.delims):
                a["delim"] = ","
            if chance(rng, prof.terminators) and a.get("num") in [(1, None), (0, None), (1, 3)]:
                a["term"] = b"END"
            if chance(rng, prof.require_equals) and (a.get("num") is None or a["num"][0] <= 1):
                a["flags"].add("reqeq")
            if chance(rng, prof.hyphen):
                a["flags"].add("hyphen" if chance(rng, 0.6) else "negnum")
            if chance(rng, prof.typed):
                a["vp"] = pick(rng, ["os", ("i64", -5, 300), "string"])
            if chance(rng, 0.05):
                a["flags"].add("icase")
        if a.get("action") is None and a.get("num") is None and chance(rng, 0.3):
            pass
        if chance(rng, prof.defaults) and a.get("action") in ("set", "append", None):
            a["default"] = [pick(rng, [b"d", b"w", b"1"])]
        if chance(rng, prof.env):
            name = "VP_E_%s_%s" % (path.replace("/", "_"), aid)
            takes = a.get("action") in ("set", "append", None)
            val = None if chance(rng, 0.3) else (pick(rng, [b"e", b"w", b"1", b"a,b"]) if takes else
                                                  pick(rng, [b"true", b"false", b"3", b"e"]))
            a["env"] = (name.encode(), val)
        if chance(rng, prof.globals) and depth < prof.depth:
            a["flags"].add("global")
        if chance(rng, 0.05):
            a["flags"].add("hide")
        if prof.vp_wide and chance(rng, prof.vp_wide):
            widen_vp(rng, a)
        c["args"].append(a)

    # positionals
    npos = rng.randrange(0, prof.max_pos + 1)
    required_upto = rng.randrange(0, npos + 1) if chance(rng, 0.5) else 0
    low_index = (not prof.conventional) and npos >= 2 and chance(rng, prof.low_index)
    explicit_index = chance(rng, 0.3)
    if explicit_index and npos >= 2 and chance(rng, 0.5):
        order = list(range(npos))
        rng.shuffle(order)
        c["decl_order"] = order
    if low_index:
        required_upto = npos
    for k in range(npos):
        aid = "p%d" % k
        a = {"id": aid.encode(), "flags": set()}
        ids.add(aid)
        last_one = (k == npos - 1)
        if explicit_index:
            a["index"] = k + 1
        if k < required_upto:
            a["flags"].add("required")
        if last_one and chance(rng, 0.55):
            a["num"] = pick(rng, [(0, None), (1, None), (1, 3), (2, 2)])
            if chance(rng, 0.4):
                a["action"] = "append"
            if chance(rng, prof.tva) and a["num"] != (2, 2):
                a["flags"].add("tva")
        elif last_one and chance(rng, 0.15):
            a["action"] = "append"
        if low_index and k == npos - 2:
            a["num"] = (1, None)
        if low_index and last_one:
            a["flags"].add("required")
            a.pop("num", None)
            a["flags"].discard("tva")
        if last_one and chance(rng, prof.last) and "tva" not in a["flags"]:
            a["flags"].add("last")
            a["flags"].discard("required")
        if chance(rng, prof.delims * 0.6):
            a["delim"] = ","
        if chance(rng, prof.hyphen):
            a["flags"].add("hyphen" if chance(rng, 0.6) else "negnum")
        if chance(rng, prof.terminators) and a.get("num") in [(0, None), (1, None), (1, 3)]:
            a["term"] = b"END"
        if chance(rng, prof.defaults * 0.5) and "required" not in a["flags"]:
            a["default"] = [b"pd"]
        if chance(rng, prof.typed * 0.5):
            a["vp"] = pick(rng, ["os", ("i64", -5, 300)])
        if prof.pos_alias and chance(rng, prof.pos_alias):
            al = fresh_long()
            if al:
                a["aliases"] = [(al.encode(), chance(rng, 0.5))]
        if prof.vp_wide and chance(rng, prof.vp_wide):
            widen_vp(rng, a)
        c["args"].append(a)

    # groups and relations
    own = [a for a in c["args"]]
    own_ids = [a["id"] for a in own]
    if own and chance(rng, prof.groups):
        for gk in range(rng.randrange(1, 3)):
            members = [i for i in own_ids if chance(rng, 0.4)]
            if not members:
                continue
            g = {"id": ("g%d" % gk).encode(), "args": members}
            if chance(rng, 0.3):
                g["required"] = True
            if chance(rng, 0.4):
                g["multiple"] = True
            if chance(rng, 0.2):
                g["conflicts"] = [pick(rng, own_ids)]
            if chance(rng, 0.2):
                g["requires"] = [pick(rng, own_ids)]
            c["groups"].append(g)
        if prof.group_nesting and len(c["groups"]) >= 1 and chance(rng, prof.group_nesting):
            gs = c["groups"]
            a_, b_ = pick(rng, gs), pick(rng, gs)
            a_["args"] = list(a_["args"]) + [b_["id"]]
            if chance(rng, 0.6) and b_ is not a_:
                b_["args"] = list(b_["args"]) + [a_["id"]]
            if chance(rng, 0.5):
                a_["required"] = True
    if len(own) >= 2 and chance(rng, 0.15):
        # group declared through Arg::group
        pick(rng, own)["groups"] = [b"ag"]
    targets = own_ids + [g["id"] for g in c["groups"]]
    for a in own:
        others = [t for t in targets if t != a["id"]]
        if not others:
            break
        if "global" in a["flags"]:
            continue    # a global arg is copied into subcommands together with its relations
        if chance(rng, prof.relations):
            a["conflicts"] = [pick(rng, others)]
        if chance(rng, prof.relations):
            ov = pick(rng, own_ids)
            a["overrides"] = [ov]
        if chance(rng, prof.relations):
            a["requires"] = [pick(rng, others)]
        if chance(rng, prof.relations * 0.5):
            a["requires_if"] = [(pick(rng, [b"v", b"w", b"1"]), pick(rng, others))]
        if "required" not in a["flags"]:
            if chance(rng, prof.relations * 0.4):
                a["r_if"] = [(pick(rng, others), pick(rng, [b"v", b"w", b"1"]))]
            if chance(rng, prof.relations * 0.3):
                a["r_unless"] = [pick(rng, others)]
            if chance(rng, prof.relations * 0.2):
                a["r_unless_all"] = [pick(rng, others) for _ in range(rng.randrange(1, 3))]
            if chance(rng, prof.relations * 0.2):
                a["r_if_all"] = [(pick(rng, others), b"v")]
            if chance(rng, prof.relations * 0.3) and a.get("action") in ("set", "append", None):
                a.setdefault("difs", []).append((pick(rng, others), None if chance(rng, 0.5) else b"v",
                                                 None if chance(rng, 0.2) else b"cd"))
        if chance(rng, 0.04) and "required" not in a["flags"] and "global" not in a["flags"] and a.get("short") or chance(rng, 0.02):
            a["flags"].add("exclusive")
        if chance(rng, 0.06) and "global" not in a["flags"] and not a.get("r_if") and not a.get("r_unless") \
                and not a.get("r_unless_all") and not a.get("r_if_all") and (a.get("short") or a.get("long")):
            a["flags"].add("required")

    # subcommands
    if depth < prof.depth and chance(rng, 0.6):
        names = set()
        if "disable_help_subcommand" not in S:
            names.add("help")
        glob = {"ids": set(inherited["ids"]), "longs": set(inherited["longs"]), "shorts": set(inherited["shorts"])}
        for a in c["args"]:
            if "global" in a["flags"]:
                glob["ids"].add(a["id"].decode())
                if a.get("long"):
                    glob["longs"].add(a["long"].decode())
                for n, _ in a.get("aliases", []):
                    glob["longs"].add(n.decode())
                if a.get("short"):
                    glob["shorts"].add(a["short"])
                for n, _ in a.get("saliases", []):
                    glob["shorts"].add(n)
        # with the generated `help` subcommand disabled, a USER subcommand may be called `help` (it is an ordinary
        # subcommand then: global arguments are copied into it like into any other)
        pool = SUBS + ["help", "help"] if "disable_help_subcommand" in S else SUBS
        for k in range(rng.randrange(1, 3)):
            n = pick(rng, pool)
            if n in names:
                continue
            names.add(n)
            s = gen_cmd(rng, prof, depth + 1, path + "/" + n, used_env, glob)
            if chance(rng, prof.aliases):
                al = pick(rng, SUBS)
                if al not in names:
                    names.add(al)
                    s["aliases"] = [(al.encode(), chance(rng, 0.5))]
            if chance(rng, prof.flag_subs):
                sf = fresh_short()
                if sf:
                    s["short_flag"] = sf
                if chance(rng, 0.5):
                    lf = fresh_long()
                    if lf:
                        s["long_flag"] = lf.encode()
            c["subs"].append(s)
    if chance(rng, prof.external) and not prof.conventional:
        if chance(rng, 0.5):
            S.append("allow_external_subcommands")
        else:
            c["ext"] = pick(rng, ["os", "string"])
            if prof.vp_wide_ext and chance(rng, prof.vp_wide_ext):
                c["ext"] = vp_sx(gen_wide_vp(rng, None))
    # repair the one cross-constraint that would make most such trees invalid
    if any("last" in a["flags"] and "required" in a["flags"] for a in c["args"]) and c["subs"] \
            and "subcommand_negates_reqs" not in S and "args_conflicts_with_subcommands" not in S:
        S.append("subcommand_negates_reqs")
    # deliberately questionable configurations (validity must agree between model and implementation)
    if chance(rng, prof.invalid) and c["args"]:
        a = pick(rng, c["args"])
        k = rng.randrange(6)
        if k == 0:
            a["flags"].add("last")
        elif k == 1:
            a["flags"].add("tva")
        elif k == 2:
            a["index"] = rng.randrange(1, 5)
        elif k == 3:
            a["flags"] |= {"required", "global"}
        elif k == 4:
            a["num"] = (1, None)
        else:
            a["conflicts"] = [a["id"]]
    return c


# --------------------------------------------------------------------------- argv from invocations
def is_opt(a):
    return bool(a.get("short") or a.get("long"))


def takes_value(a):
    act = a.get("action")
    if act in ("settrue", "setfalse") and a.get("num") is not None:
        return a["num"][1] is None or a["num"][1] > 0      # `--flag=false`: Profile.flag_values
    if act in ("settrue", "setfalse", "count", "help", "version"):
        return False
    if a.get("num") is not None:
        return a["num"][1] is None or a["num"][1] > 0
    return True


def value_for(rng, a, safe):
    if vp_is_wide(a.get("vp")):
        v = wide_value(rng, a, safe)
        if a.get("delim") and chance(rng, 0.3):
            v = v + b"," + wide_value(rng, a, safe)
        return v
    if a.get("vp") and not isinstance(a["vp"], str):
        return pick(rng, [b"1", b"0", b"300", b"-5", b"7"] if safe else [b"1", b"301", b"-6", b"x", b"+3", b""])
    if a.get("action") in ("settrue", "setfalse") and a.get("num") is not None and not a.get("vp"):
        return pick(rng, [b"true", b"false", b"false"] if safe else [b"true", b"false", b"no", b"TRUE", b""])
    v = pick(rng, SAFE_VALUES if safe else VALUES)
    if a.get("delim") and chance(rng, 0.3):
        v = v + b"," + pick(rng, SAFE_VALUES)
    return v


def render_level(rng, c, safe, globals_=()):
    """returns (tokens, invocation items) for one command level and, recursively, a subcommand"""
    items = []   # each: list of tokens that must stay together
    opts = [a for a in c["args"] if is_opt(a)] + list(globals_)
    for a in opts:
        if not chance(rng, 0.45):
            continue
        reps = 1
        if a.get("action") in ("append", "count") or "args_override_self" in c["settings"]:
            reps = pick(rng, [1, 1, 2, 3])
        elif chance(rng, 0.08):
            reps = 2
        for _ in range(reps):
            names = []
            if a.get("long"):
                names.append(b"--" + a["long"])
            for n, _ in a.get("aliases", []):
                names.append(b"--" + n)
            if a.get("short"):
                names.append(b"-" + a["short"].encode())
            for n, _ in a.get("saliases", []):
                names.append(b"-" + n.encode())
            if not names:
                continue
            name = pick(rng, names)
            if not takes_value(a):
                items.append([name])
                continue
            lo, hi = a["num"] if a.get("num") is not None else (1, 1)
            k = pick(rng, [lo, lo, max(lo, 1), (hi if hi is not None else lo + 2)])
            if not safe and chance(rng, 0.15):
                k = max(0, k + pick(rng, [-1, 1]))
            vals = [value_for(rng, a, safe) for _ in range(k)]
            if vals and (k == 1 or "reqeq" in a["flags"]) and chance(rng, 0.5 if "reqeq" not in a["flags"] else 0.9):
                if name.startswith(b"--"):
                    items.append([name + b"=" + vals[0]] + vals[1:])
                else:
                    items.append([name + (b"=" if chance(rng, 0.4) else b"") + vals[0]] + vals[1:])
            else:
                toks = [name] + vals
                if a.get("term") is not None and chance(rng, 0.6):
                    toks.append(a["term"])
                items.append(toks)
    # cluster some short flags
    shorts = [it for it in items if len(it) == 1 and len(it[0]) == 2 and it[0][:1] == b"-" and it[0] != b"--"]
    if len(shorts) >= 2 and chance(rng, 0.5):
        for it in shorts:
            items.remove(it)
        items.append([b"-" + b"".join(it[0][1:] for it in shorts)])
    rng.shuffle(items)
    # positionals in order
    pos_items = []
    pos = [a for a in c["args"] if not is_opt(a)]
    stop = False
    for a in pos:
        if stop:
            break
        lo, hi = a["num"] if a.get("num") is not None else (1, 1)
        multiple = a.get("num") is not None and (hi is None or hi > 1) or a.get("action") == "append"
        if "required" not in a["flags"] and chance(rng, 0.35):
            stop = True
            continue
        k = 1 if not multiple else pick(rng, [max(lo, 1), max(lo, 1) + 1, (hi if hi is not None else 3)])
        pos_items.append((a, [value_for(rng, a, safe) for _ in range(k)]))
    toks = []
    # interleave: options before/between positional groups
    slots = [[] for _ in range(len(pos_items) + 1)]
    for it in items:
        slots[rng.randrange(len(slots))].append(it)
    dashdash_at = None
    if pos_items and chance(rng, 0.25):
        dashdash_at = rng.randrange(len(pos_items))
    for i, (a, vals) in enumerate(pos_items):
        if dashdash_at is not None and i > dashdash_at:
            # options after `--` would become positionals: keep them before
            slots[dashdash_at] += slots[i]
            slots[i] = []
    if dashdash_at is not None:
        slots[dashdash_at] += slots[len(pos_items)]
        slots[len(pos_items)] = []
    for i, (a, vals) in enumerate(pos_items):
        for it in slots[i]:
            toks += it
        if dashdash_at == i or ("last" in a["flags"] and dashdash_at is None):
            toks.append(b"--")
            dashdash_at = i if dashdash_at is None else dashdash_at
        toks += vals
        if a.get("term") is not None and chance(rng, 0.5):
            toks.append(a["term"])
    for it in slots[len(pos_items)]:
        toks += it
    # subcommand
    if c["subs"] and dashdash_at is None and chance(rng, 0.55):
        s = pick(rng, c["subs"])
        names = [s["name"]] + [n for n, _ in s.get("aliases", [])]
        if s.get("long_flag"):
            names.append(b"--" + s["long_flag"])
        if s.get("short_flag"):
            names.append(b"-" + s["short_flag"].encode())
        g = [a for a in c["args"] if "global" in a["flags"]] + list(globals_)
        toks.append(pick(rng, names))
        toks += render_level(rng, s, safe, g)
    elif (c.get("ext") or "allow_external_subcommands" in c["settings"]) and chance(rng, 0.5):
        toks += [b"ext", pick(rng, VALUES), b"--flag"]
    return toks


BOUNDARY = [b"--", b"-", b"", b"-x", b"-xy", b"--alp", b"--alp=", b"--al", b"=", b"--=v", b"-=", b"-1", b"-1.5e3", b"-1e",
            b"help", b"sub", b"su", b"s", b"run", b"r", b"--help", b"-h", b"--version", b"-V", b"\xff", b"--\xff", b"-\xc3",
            b"-\xc3\xa9", b"--opt", b"--opt=", b"--opt=a,b", b"-o", b"-ov", b"-o=v", b"END", b"--be", b"-abc", b"-S", b"-Sq",
            b"--alpha=\xff", b"-o\xff", b"a,b", b"--hel", b"--ver", b"-hV", b"h", b"he"]


def mutate(rng, toks):
    toks = list(toks)
    k = rng.randrange(6)
    if k == 0 and toks:
        del toks[rng.randrange(len(toks))]
    elif k == 1 and toks:
        i = rng.randrange(len(toks))
        toks.insert(i, toks[i])
    elif k == 2 and toks:
        toks[rng.randrange(len(toks))] = pick(rng, BOUNDARY)
    elif k == 3 and len(toks) >= 2:
        i = rng.randrange(len(toks) - 1)
        toks[i], toks[i + 1] = toks[i + 1], toks[i]
    elif k == 4:
        toks.insert(rng.randrange(len(toks) + 1), pick(rng, BOUNDARY))
    else:
        toks.append(pick(rng, BOUNDARY))
    return toks


def gen_argv(rng, c, p_mutate=0.35, safe_p=0.6):
    safe = chance(rng, safe_p)
    toks = render_level(rng, c, safe)
    if chance(rng, p_mutate):
        toks = mutate(rng, toks)
        if chance(rng, 0.3):
            toks = mutate(rng, toks)
    if chance(rng, 0.03):
        toks = [pick(rng, BOUNDARY) for _ in range(rng.randrange(0, 5))]
    if "no_binary_name" in c["settings"]:
        return toks
    return [b"prog"] + toks
