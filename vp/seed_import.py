#!/usr/bin/env python3
"""Import a confirmed seeded change from a sub-agent's delivery directory into /verif/seeded/<id>/.
   python3 vp/seed_import.py /tmp/seed/out/C05-1 [...]      (needs confirm.json with confirmed=true)"""
import json, os, shutil, sys
ROOT = os.path.dirname(os.path.dirname(os.path.abspath(__file__)))
ARGS = sys.argv[1:]
PREFIX = ""
if ARGS and ARGS[0].startswith("--prefix="):
    PREFIX = ARGS.pop(0).split("=", 1)[1]
for d in ARGS:
    d = d.rstrip("/")
    conf = json.load(open(os.path.join(d, "confirm.json")))
    if not conf.get("confirmed"):
        print("NOT CONFIRMED, skipped:", d); continue
    am = json.load(open(os.path.join(d, "meta.json")))
    sid = "%s%s-%s" % (PREFIX, os.path.basename(d), am.get("slug", "change"))
    out = os.path.join(ROOT, "seeded", sid)
    os.makedirs(out, exist_ok=True)
    shutil.copy(os.path.join(d, "patch.diff"), os.path.join(out, "patch.diff"))
    if os.path.isdir(os.path.join(out, "demo")):
        shutil.rmtree(os.path.join(out, "demo"))
    shutil.copytree(os.path.join(d, "demo"), os.path.join(out, "demo"))
    det = json.load(open(os.path.join(d, "detect.json"))) if os.path.exists(os.path.join(d, "detect.json")) else None
    meta = {
        "id": sid,
        "property": am.get("property"),
        "breaks": am.get("why_it_breaks_the_property"),
        "what_changed": am.get("what_changed"),
        "needs_to_manifest": am.get("needs_to_manifest"),
        "failing_input": am.get("failing_input"),
        "files_touched": am.get("files_touched"),
        "written_by": "fresh sub-agent given only the property's line of properties.jsonl and a scratch worktree of clap (nothing from /verif)",
        "author_runs": am.get("commands_run"),
        "coordinator_confirmation": {
            "worktree_head": conf.get("worktree_head"),
            "steps": [{k: v for k, v in s.items() if k != "tail" or s.get("exit")} for s in conf["steps"]],
            "confirmed": True,
        },
    }
    if det:
        meta["detection"] = {"framework_commit": det["framework_commit"], "tier": det["tier"],
                             "checks": [{"property": c["property"], "exit": c["exit"], "violation_lines": c["violation_lines"],
                                         "seconds": c["seconds"], "replay_excerpt": (c["replays"][0][:1200] if c["replays"] else None)}
                                        for c in det["checks"]]}
    json.dump(meta, open(os.path.join(out, "meta.json"), "w"), indent=1, ensure_ascii=False)
    print("imported", sid)
