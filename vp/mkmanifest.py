#!/usr/bin/env python3
"""Regenerate MANIFEST.json from the property modules present in vp/props (single source of truth)."""
import importlib
import json
import os
import sys

ROOT = os.path.dirname(os.path.dirname(os.path.abspath(__file__)))
sys.path.insert(0, ROOT)
ALL = ["C%02d" % i for i in range(1, 21)]
checks, na = [], []
NA_REASONS = json.load(open(os.path.join(ROOT, "vp", "not_applicable.json")))
for pid in ALL:
    path = os.path.join(ROOT, "vp", "props", pid.lower() + ".py")
    if not os.path.exists(path):
        na.append({"property_id": pid, "reason": NA_REASONS.get(pid, "check not built yet (see DESIGN.md section 5 for its design)")})
        continue
    m = importlib.import_module("vp.props." + pid.lower())
    checks.append({
        "property_id": pid,
        "quick_cmd": "./check %s --tier quick" % pid,
        "thorough_cmd": "./check %s --tier thorough" % pid,
        "evidence_file": "/verif/evidence/%s.json" % pid,
        "replay_cmd_template": "./check %s --replay {path}" % pid,
        "engine": "coq-model+differential",
        "level_claimed": {"category": "proof", "text": m.LEVEL_TEXT, "design_ref": "DESIGN.md section 5, " + pid},
        "level_note": m.LEVEL_NOTE,
        "technique": m.TECHNIQUE,
    })
man = {
    "version": 1,
    "setup_cmd": "sh ./setup.sh",
    "hooks": {
        "guard": "--cfg clap_verif",
        "enable": "RUSTFLAGS=\"--cfg clap_verif\" cargo build --offline (harness/ crate with path dependencies on /repo)",
        "baseline_off_cmd": "cd /repo && cargo test --workspace --no-fail-fast --offline",
        "source_commits": json.load(open(os.path.join(ROOT, "vp", "hook_commits.json"))),
        "add_only": True,
    },
    "engines": [{
        "name": "coq-model+differential",
        "path": "/verif/check",
        "serves_properties": [c["property_id"] for c in checks],
        "kind_free_text": "Coq 8.16 theorems about a hand-written executable Gallina model (coq/theories), pinned statements + Print Assumptions gate; the model is extracted to OCaml and run against the real crates (Rust harness built from /repo's working tree) on generated cases; direct python oracles on the implementation provide replays.",
    }],
    "checks": checks,
    "not_applicable": na,
    "notes": "See DESIGN.md. known_findings.json lists recorded findings and fix: commits.",
}
json.dump(man, open(os.path.join(ROOT, "MANIFEST.json"), "w"), indent=1)
print("MANIFEST: %d checks, %d not claimed" % (len(checks), len(na)))
