"""Shared helpers for the parser-area properties: result parsing, canonicalisation, agreement."""
from .core import sx_parse, sx_str, unhex


def parse_result(r):
    """-> dict(kind='ok'|'err'|'invalid'|'panic'|'abort'|..., ...)"""
    if r is None:
        return {"kind": "abort"}
    if r.startswith("ok "):
        return {"kind": "ok", "m": sx_parse(r[3:])}
    if r.startswith("err "):
        p = r.split(" ")
        return {"kind": "err", "ekind": p[1], "stream": p[2], "code": p[3], "head": p[4] if len(p) > 4 else None}
    if r.startswith("INVALID"):
        return {"kind": "invalid"}
    if r.startswith("PANIC"):
        return {"kind": "panic", "msg": r}
    if r.startswith("ABORT"):
        return {"kind": "abort", "msg": r}
    if r.startswith("OUTOFFUEL"):
        return {"kind": "outoffuel"}
    return {"kind": "other", "msg": r}


def m_entries(m):
    """m = ['m', entry..., ['sub', name, m]] -> (entries, sub)"""
    ents, sub = [], None
    for e in m[1:]:
        if isinstance(e, list) and e and e[0] == "sub":
            sub = (e[1], e[2])
        else:
            ents.append(e)
    return ents, sub


def mask_unknown(impl_m, model_m):
    """Entries the implementation cannot report on (ids propagated into a level that does not
    define them print as `(id ?)`): mask the same entries of the model."""
    ie, isub = m_entries(impl_m)
    me, msub = m_entries(model_m)
    unknown = {e[0] for e in ie if len(e) == 2 and e[1] == "?"}
    me2 = [[e[0], "?"] if e[0] in unknown else e for e in me]
    out = ["m"] + me2
    if msub is not None:
        if isub is not None:
            out.append(["sub", msub[0], mask_unknown(isub[1], msub[1])])
        else:
            out.append(["sub", msub[0], msub[1]])
    return out


def agree_full(model, impl):
    """model result string vs implementation result string, complete comparison
    (modulo the documented `a|b` alternative kinds and masked entries)."""
    if model is None or impl is None:
        return False
    if model.startswith("err ") and impl.startswith("err "):
        mp, ip = model.split(" "), impl.split(" ")
        if "|" in mp[1]:
            alts = mp[1].split("|")
            if ip[1] in alts:
                mp[1] = ip[1]
        return mp == ip
    if model.startswith("ok ") and impl.startswith("ok "):
        try:
            return sx_str(mask_unknown(sx_parse(impl[3:]), sx_parse(model[3:]))) == sx_str(sx_parse(impl[3:]))
        except Exception:
            return False
    if model.startswith("PANIC") and impl.startswith("PANIC"):
        return True
    return model == impl
