#!/usr/bin/env python3
"""Developer tool: generate parser cases, run model and implementation, print disagreements."""
import random, sys, os, collections
sys.path.insert(0, os.path.dirname(os.path.dirname(os.path.abspath(__file__))))
from vp import core, gen_cmd

n = int(sys.argv[1]) if len(sys.argv) > 1 else 2000
seed = int(sys.argv[2]) if len(sys.argv) > 2 else 1
prof_kw = {}
if len(sys.argv) > 3 and sys.argv[3] == "conv":
    prof_kw = gen_cmd.CONVENTIONAL
rng = random.Random(seed)
prof = gen_cmd.Profile(**prof_kw)
cases = []
while len(cases) < n:
    c = gen_cmd.gen_cmd(rng, prof)
    for _ in range(4):
        cases.append(gen_cmd.case_sx(c, gen_cmd.gen_argv(rng, c)))
hb = os.path.join(core.ROOT, "harness/target/debug/vharness")
mb = os.path.join(core.ROOT, "ocaml/bin/parse")
impl = core.run_cases(hb, cases, "dev.impl")
model = core.run_cases(mb, cases, "dev.model")
kinds = collections.Counter()
bad = []
for c, i, m in zip(cases, impl, model):
    kinds[(i or "").split(" (")[0][:40]] += 1
    from vp.parse_common import agree_full
    if not agree_full(m, i):
        bad.append((c, i, m))
print("cases", len(cases), "mismatches", len(bad))
for k, v in kinds.most_common(25):
    print("  %6d %s" % (v, k))
cat = collections.Counter()
for c, i, m in bad:
    cat[((i or "")[:30], (m or "")[:30])] += 1
for k, v in cat.most_common(20):
    print(v, k)
for c, i, m in sorted(bad, key=lambda t: len(t[0]))[:int(os.environ.get("SHOW", "5"))]:
    print("CASE", c)
    argv = core.sx_parse(c)[2][1:]
    print(" argv", [core.unhex(t) for t in argv])
    print(" impl ", i)
    print(" model", m)
