#!/bin/sh
# developer helper: run every claimed check's quick tier under several seeds; print one line per run
cd "$(dirname "$0")/.."
sh setup.sh > /dev/null 2>&1 || { echo SETUP-FAILED; exit 1; }
for s in ${SEEDS:-2 3 4}; do
  for p in $(python3 -c "import json;print(' '.join(c['property_id'] for c in json.load(open('MANIFEST.json'))['checks']))"); do
    VERIF_SEED=$s ./check $p --tier ${TIER:-quick} > /tmp/sweep_$p.log 2>&1; rc=$?
    echo "seed=$s $p rc=$rc $(grep -c '^VIOLATION' /tmp/sweep_$p.log) violations; $(tail -1 /tmp/sweep_$p.log | cut -c1-150)"
    if [ $rc -ne 0 ]; then grep '^VIOLATION\|oracle failure\|differs\|no longer' /tmp/sweep_$p.log | head -5; fi
  done
done
