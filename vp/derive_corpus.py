"""C15 corpus: the type-shape x kind x element-type x attribute matrix of derive inputs.

One description (python objects below) is rendered twice:
  * as Rust source `harness/src/derive_corpus.rs` (types with `#[derive(Parser/Args/Subcommand/ValueEnum)]`,
    their canonical text / printer glue, the table `corpus()`), compiled with the real `clap_derive`;
  * as the model's derive input (an S-expression that travels inside every case line).
Deterministic: no randomness, fixed order.  `python3 vp/derive_corpus.py` rewrites the Rust file.
"""
import os
import re

ROOT = os.path.dirname(os.path.dirname(os.path.abspath(__file__)))
RUST_OUT = os.path.join(ROOT, "harness", "src", "derive_corpus.rs")


def hexs(s):
    if isinstance(s, str):
        s = s.encode()
    return "x" + s.hex()


# ------------------------------------------------------------------ casing (heck, for plain identifiers)
def words(ident):
    out = []
    for part in ident.split("_"):
        out += re.findall(r"[A-Z]+(?![a-z])|[A-Z]?[a-z]+|[A-Z]+|[0-9]+", part)
    return [w for w in out if w]


def casing(ident, style):
    ws = words(ident)
    if style == "kebab":
        return "-".join(w.lower() for w in ws)
    if style == "snake":
        return "_".join(w.lower() for w in ws)
    if style == "UPPER":
        return "".join(w.upper() for w in ws)
    if style == "lower":
        return "".join(w.lower() for w in ws)
    if style == "SCREAMING_SNAKE_CASE":
        return "_".join(w.upper() for w in ws)
    if style == "PascalCase":
        return "".join(w[:1].upper() + w[1:].lower() for w in ws)
    if style == "camelCase":
        p = "".join(w[:1].upper() + w[1:].lower() for w in ws)
        return p[:1].lower() + p[1:]
    if style == "verbatim":
        return ident
    raise ValueError(style)


RENAME_ATTR = {"kebab": None, "snake": "snake_case", "UPPER": "UPPER", "lower": "lower",
               "SCREAMING_SNAKE_CASE": "SCREAMING_SNAKE_CASE", "PascalCase": "PascalCase",
               "camelCase": "camelCase", "verbatim": "verbatim"}


# ------------------------------------------------------------------ descriptions
class VEnum:
    """variants: list of (Ident, skip, explicit_name or None, [aliases])"""

    def __init__(self, name, variants, rename_all="kebab", hidden=()):
        self.name, self.variants, self.rename_all = name, variants, rename_all
        # `#[value(hide = true)]`: absent from help and from the error's list of possible values, but still a value --
        # names and aliases of a hidden variant parse like any other (seeded change seed3/C15-2 dropped them at parse time)
        self.hidden = set(hidden)

    def vname(self, i):
        ident, _skip, explicit, _al = self.variants[i]
        return explicit if explicit is not None else casing(ident, self.rename_all)

    def names(self, i):
        return [self.vname(i)] + list(self.variants[i][3])

    def spec(self):
        rows = []
        for i, (ident, skip, _e, aliases) in enumerate(self.variants):
            kind = "skip" if skip else ("hide" if ident in self.hidden else "keep")
            rows.append("(v %s %s)" % (kind, " ".join(hexs(n) for n in self.names(i))))
        return "(enum %s)" % " ".join(rows)

    def rust(self):
        out = ["#[derive(clap::ValueEnum, Debug, PartialEq, Clone)]"]
        if RENAME_ATTR[self.rename_all]:
            out.append('#[value(rename_all = "%s")]' % RENAME_ATTR[self.rename_all])
        out.append("pub enum %s {" % self.name)
        for ident, skip, explicit, aliases in self.variants:
            attrs = []
            if skip:
                attrs.append("skip")
            if explicit is not None:
                attrs.append('name = "%s"' % explicit)
            for a in aliases:
                attrs.append('alias = "%s"' % a)
            if ident in self.hidden:
                attrs.append("hide = true")
            if attrs:
                out.append("    #[value(%s)]" % ", ".join(attrs))
            out.append("    %s," % ident)
        out.append("}")
        n = self.name
        out.append("impl Idx for %s { fn idx(&self) -> usize { self.clone() as usize } }" % n)
        out.append("impl Scalar for %s { fn text(&self) -> Option<String> { enum_text(self) } }" % n)
        arms = " ".join("%d => Ok(%s::%s)," % (i, n, v[0]) for i, v in enumerate(self.variants))
        out.append("impl Canon for %s {" % n)
        out.append('    fn show(&self) -> String { format!("v{}", self.idx()) }')
        out.append("    fn from_sx(sx: &Sx) -> Result<Self, String> {")
        out.append('        let s = match sx { Sx::Sym(s) => s.as_str(), _ => return Err("enum value".into()) };')
        out.append('        match s.strip_prefix(\'v\').and_then(|d| d.parse::<usize>().ok()).ok_or("enum value")? { %s _ => Err("variant index".into()) }' % arms)
        out.append("    }")
        out.append("}")
        return "\n".join(out)


SCALARS = {"bool": "bool", "u8": "u8", "i64": "i64", "str": "String"}


class Field:
    """shape in bool counter plain opt optopt vec optvec vecvec optvecvec; kind in long short pos;
    T in u8 i64 str bool or a VEnum."""

    def __init__(self, name, shape, kind, T, default=None, required=None, num=None, delim=None, icase=False, raw=None):
        self.name, self.shape, self.kind, self.T = name, shape, kind, T
        self.default, self.required, self.num, self.delim, self.icase = default, required, num, delim, icase
        self.raw = raw or []        # attributes outside the derive model's language: implementation-only types (XTOPS)
        if shape == "bool":
            self.T = "bool"
        if shape == "counter":
            self.T = "u8"

    is_field = True

    @property
    def long(self):
        return casing(self.name, "kebab")

    @property
    def short(self):
        return self.long[0]

    def rust_T(self):
        return self.T.name if isinstance(self.T, VEnum) else SCALARS[self.T]

    def rust_type(self):
        t = self.rust_T()
        return {"bool": "bool", "counter": "u8", "plain": t, "opt": "Option<%s>" % t,
                "optopt": "Option<Option<%s>>" % t, "vec": "Vec<%s>" % t, "optvec": "Option<Vec<%s>>" % t,
                "vecvec": "Vec<Vec<%s>>" % t, "optvecvec": "Option<Vec<Vec<%s>>>" % t}[self.shape]

    def syn(self):
        return {"bool": "path", "counter": "path", "plain": "path", "opt": "(option path)",
                "optopt": "(option (option path))", "vec": "(vec path)", "optvec": "(option (vec path))",
                "vecvec": "(vec (vec path))", "optvecvec": "(option (vec (vec path)))"}[self.shape]

    def attrs(self):
        a = []
        if self.kind == "long":
            a.append("long")
        elif self.kind == "short":
            a.append("short")
        if self.shape == "counter":
            a.append("action = clap::ArgAction::Count")
        if self.default is not None:
            a.append('default_value = "%s"' % self.default)
        if self.required is not None:
            a.append("required = %s" % ("true" if self.required else "false"))
        if self.num is not None:
            lo, hi = self.num
            a.append("num_args = %s" % (("%d.." % lo) if hi is None else ("%d" % lo if lo == hi else "%d..=%d" % (lo, hi))))
        if self.delim is not None:
            a.append("value_delimiter = '%s'" % self.delim)
        if self.icase:
            a.append("ignore_case = true")
        return a + list(self.raw)

    def rust(self):
        a = self.attrs()
        return "    #[arg(%s)]\n    pub %s: %s," % (", ".join(a), self.name, self.rust_type())

    def spec(self):
        t = self.T.spec() if isinstance(self.T, VEnum) else self.T
        k = {"long": "(long %s)" % hexs(self.long), "short": "(short %d)" % ord(self.short), "pos": "pos"}[self.kind]
        at = []
        if self.shape == "counter":
            at.append("(action count)")
        if self.default is not None:
            at.append("(default %s)" % hexs(self.default))
        if self.required is not None:
            at.append("(required %s)" % ("true" if self.required else "false"))
        if self.num is not None:
            at.append("(num %d %s)" % (self.num[0], "inf" if self.num[1] is None else self.num[1]))
        if self.delim is not None:
            at.append("(delim %d)" % ord(self.delim))
        if self.icase:
            at.append("icase")
        return "(arg %s %s %s %s%s)" % (hexs(self.name), self.syn(), t, k, "".join(" " + x for x in at))

    def k_expr(self):
        return {"long": 'K::Long("%s")' % self.long, "short": "K::Short('%s')" % self.short, "pos": "K::Pos"}[self.kind]

    def print_call(self, access):
        m = {"bool": "flag_bool", "counter": "counter", "plain": "plain", "opt": "opt", "optopt": "optopt",
             "vec": "vec", "optvec": "optvec", "vecvec": "vecvec", "optvecvec": "optvecvec"}[self.shape]
        return "p.%s(%s, %s);" % (m, access, self.k_expr())


class Flatten:
    is_field = False

    def __init__(self, name, struct, opt=False):
        self.name, self.struct, self.opt = name, struct, opt

    def rust(self):
        t = "Option<%s>" % self.struct.name if self.opt else self.struct.name
        return "    #[command(flatten)]\n    pub %s: %s," % (self.name, t)

    def spec(self):
        return "(flatten %s %s%s)" % ("opt" if self.opt else "req", hexs(self.struct.name),
                                      "".join(" " + n.spec() for n in self.struct.nodes))

    def print_call(self, access):
        if self.opt:
            return "if let Some(x) = %s { x.print(p); }" % access
        return "%s.print(p);" % access


class Sub:
    is_field = False

    def __init__(self, name, enum, opt=False):
        self.name, self.enum, self.opt = name, enum, opt

    def rust(self):
        t = "Option<%s>" % self.enum.name if self.opt else self.enum.name
        return "    #[command(subcommand)]\n    pub %s: %s," % (self.name, t)

    def spec(self):
        return "(sub %s%s)" % ("opt" if self.opt else "req", "".join(" " + self.enum.variant_spec(i)
                                                                      for i in range(len(self.enum.variants))))

    def print_call(self, access):
        if self.opt:
            return "if let Some(x) = %s { x.print_sub(p); }" % access
        return "%s.print_sub(p);" % access


class Struct:
    boundary = False

    def __init__(self, name, nodes, parser=False):
        self.name, self.nodes, self.parser = name, nodes, parser

    def spec(self):
        return "(struct %s %s%s)" % (hexs("prog"), hexs(self.name), "".join(" " + n.spec() for n in self.nodes))

    def rust(self):
        out = []
        if self.parser:
            out.append("#[derive(clap::Parser, Debug, PartialEq, Clone)]")
            out.append('#[command(name = "prog")]')
        else:
            out.append("#[derive(clap::Args, Debug, PartialEq, Clone)]")
        out.append("pub struct %s {" % self.name)
        for n in self.nodes:
            out.append(n.rust())
        out.append("}")
        out.append(val_impl(self.name, self.nodes))
        return "\n".join(out)


def val_impl(name, nodes):
    out = ["impl Val for %s {" % name]
    out.append("    fn show_fields(&self, out: &mut Vec<String>) { %s }" %
               " ".join("out.push(self.%s.show());" % n.name for n in nodes))
    out.append("    fn from_fields(it: &mut std::slice::Iter<Sx>) -> Result<Self, String> { Ok(Self { %s }) }" %
               " ".join("%s: Canon::from_sx(nx(it)?)?," % n.name for n in nodes))
    out.append("    fn print(&self, p: &mut Pr) { %s }" % " ".join(n.print_call("&self." + n.name) for n in nodes))
    out.append("}")
    out.append("impl Canon for %s { fn show(&self) -> String { show_struct(self) } fn from_sx(sx: &Sx) -> Result<Self, String> { struct_from_sx(sx) } }" % name)
    return "\n".join(out)


class SubEnum:
    """variants: list of (Ident, 'unit' | ('tuple', Struct) | ('named', [nodes]))"""

    def __init__(self, name, variants):
        self.name, self.variants = name, variants

    def cname(self, i):
        return casing(self.variants[i][0], "kebab")

    def body(self, i):
        k = self.variants[i][1]
        if k == "unit":
            return []
        return k[1].nodes if k[0] == "tuple" else k[1]

    def variant_spec(self, i):
        ident, k = self.variants[i]
        if k == "unit":
            gid = "nogid"
        elif k[0] == "tuple":
            gid = "(gid %s)" % hexs(k[1].name)
        else:
            gid = "(gid %s)" % hexs(ident)
        return "(variant %s %s%s)" % (hexs(self.cname(i)), gid, "".join(" " + n.spec() for n in self.body(i)))

    def rust(self):
        n = self.name
        out = ["#[derive(clap::Subcommand, Debug, PartialEq, Clone)]", "pub enum %s {" % n]
        for ident, k in self.variants:
            if k == "unit":
                out.append("    %s," % ident)
            elif k[0] == "tuple":
                out.append("    %s(%s)," % (ident, k[1].name))
            else:
                out.append("    %s {" % ident)
                for f in k[1]:
                    out.append("    " + f.rust().replace("\n", "\n    ").replace("pub ", ""))
                out.append("    },")
        out.append("}")
        show, frm, prt = [], [], []
        for i, (ident, k) in enumerate(self.variants):
            cn = self.cname(i)
            if k == "unit":
                show.append("%s::%s => show_enum(%d, vec![])," % (n, ident, i))
                frm.append("%d => Ok(%s::%s)," % (i, n, ident))
                prt.append('%s::%s => p.sub("%s", |_q| {}),' % (n, ident, cn))
            elif k[0] == "tuple":
                show.append("%s::%s(a) => { let mut o = vec![]; a.show_fields(&mut o); show_enum(%d, o) }" % (n, ident, i))
                frm.append("%d => Ok(%s::%s(Val::from_fields(&mut it)?))," % (i, n, ident))
                prt.append('%s::%s(a) => p.sub("%s", |q| a.print(q)),' % (n, ident, cn))
            else:
                names = [f.name for f in k[1]]
                pat = "%s::%s { %s }" % (n, ident, ", ".join(names))
                show.append("%s => show_enum(%d, vec![%s])," % (pat, i, ", ".join("%s.show()" % x for x in names)))
                frm.append("%d => Ok(%s::%s { %s })," % (i, n, ident, " ".join("%s: Canon::from_sx(nx(&mut it)?)?," % x for x in names)))
                prt.append('%s => p.sub("%s", |p| { %s }),' % (pat, cn, " ".join(f.print_call(f.name) for f in k[1])))
        out.append("impl Canon for %s {" % n)
        out.append("    fn show(&self) -> String { match self { %s } }" % " ".join(show))
        out.append("    fn from_sx(sx: &Sx) -> Result<Self, String> { let (i, mut it) = enum_parts(sx)?; match i { %s _ => Err(\"variant\".into()) } }" % " ".join(frm))
        out.append("}")
        out.append("impl %s { pub fn print_sub(&self, p: &mut Pr) { match self { %s } } }" % (n, " ".join(prt)))
        return "\n".join(out)


# ------------------------------------------------------------------ the corpus
EN_A = VEnum("EnA", [("Alpha", False, None, []), ("BetaGamma", False, None, []),
                     ("Delta", False, None, ["d", "dd"]), ("Hidden", True, None, [])], hidden=("Delta",))
EN_B = VEnum("EnB", [("Red", False, None, []), ("DarkBlue", False, None, ["navy"]),
                     ("Green", False, "grn", ["verde"])], rename_all="UPPER")
EN_C = VEnum("EnC", [("OneTwo", False, None, []), ("Skipped", True, None, []),
                     ("Three", False, None, ["3", "III"])], rename_all="snake", hidden=("OneTwo",))
EN_D = VEnum("EnD", [("Ab", False, "ab", []), ("AbUpper", False, "AB", ["aB"]), ("Cd", False, None, ["CD"])],
             rename_all="PascalCase")
VENUMS = [EN_A, EN_B, EN_C, EN_D]

NAMES = ["alpha", "bravo_x", "carol", "delta_y", "echo", "fox_trot", "golf", "india", "julia", "kilo_z",
         "lima", "mike", "nora", "oscar_w", "papa", "quebec"]
TS = ["u8", "i64", "str", EN_A]


def tname(T):
    return T.name.lower() if isinstance(T, VEnum) else T


def build():
    structs, subenums, tops = [], [], []

    def top(name, nodes):
        s = Struct(name, nodes, parser=True)
        structs.append(s)
        tops.append(s)
        return s

    def inner(name, nodes):
        s = Struct(name, nodes)
        structs.append(s)
        return s

    # ---- the single-field matrix
    k = 0
    for shape in ["bool", "counter"]:
        for kind in ["long", "short"]:
            top("M%s%s" % (shape.capitalize(), kind.capitalize()), [Field(NAMES[k % len(NAMES)], shape, kind, None)])
            k += 1
    for shape in ["plain", "opt", "vec", "optvec"]:
        for kind in ["long", "short", "pos"]:
            for T in TS:
                top("M%s%s%s" % (shape.capitalize(), kind.capitalize(), tname(T).capitalize()),
                    [Field(NAMES[k % len(NAMES)], shape, kind, T)])
                k += 1
    for shape in ["optopt", "vecvec", "optvecvec"]:
        for kind in ["long", "short"]:
            for T in TS:
                top("M%s%s%s" % (shape.capitalize(), kind.capitalize(), tname(T).capitalize()),
                    [Field(NAMES[k % len(NAMES)], shape, kind, T)])
                k += 1
    # element types bool in value positions
    top("MOptLongBool", [Field("alpha", "opt", "long", "bool")])
    top("MVecLongBool", [Field("bravo_x", "vec", "long", "bool")])
    # `Option<bool>` / `Option<Option<bool>>` are NOT flags: default_action looks at the field type (only the simple path
    # `bool` gets SetTrue), so they take a value and are None when absent (a seeded change decided on the inner type)
    top("MOptShortBool", [Field("alpha", "opt", "short", "bool")])
    top("MOptoptLongBool", [Field("carol", "optopt", "long", "bool")])
    top("ABoolVsOptBool", [Field("alpha", "bool", "long", None), Field("bravo_x", "opt", "long", "bool"),
                           Field("carol", "optopt", "short", "bool"), Field("delta_y", "optvec", "long", "bool")])

    # ---- attributes
    top("ADefaults", [Field("alpha", "plain", "long", "u8", default="7"),
                      Field("bravo_x", "plain", "short", "str", default="dflt"),
                      Field("carol", "plain", "long", EN_A, default="beta-gamma"),
                      Field("delta_y", "plain", "pos", "i64", default="-3")])
    top("ARequired", [Field("alpha", "opt", "long", "u8", required=True),
                      Field("bravo_x", "vec", "long", "str", required=True),
                      Field("carol", "plain", "long", "i64")])
    # boundary input: a non-Option field made non-required by hand has no value to fall back on; the generated
    # command then accepts lines the derived parser rejects (the macro's own comment says so).  Kept for the
    # model/implementation comparison; the success-equivalence and round-trip oracles skip it.
    top("BPlainNotRequired", [Field("alpha", "plain", "long", "i64", required=False),
                              Field("bravo_x", "opt", "long", "u8")]).boundary = True
    top("ANumArgs", [Field("alpha", "optvec", "long", "u8", num=(0, None)),
                     Field("bravo_x", "vecvec", "long", "str", num=(2, 2)),
                     Field("carol", "vec", "short", "i64", num=(1, 3)),
                     Field("delta_y", "optvecvec", "long", "u8", num=(1, 2))])
    top("ADelim", [Field("alpha", "vec", "long", "u8", delim=","),
                   Field("bravo_x", "optvec", "short", "str", delim=":"),
                   Field("carol", "vecvec", "long", "i64", delim=",")])
    top("AIcase", [Field("alpha", "plain", "long", EN_B, icase=True),
                   Field("bravo_x", "vec", "long", EN_A, icase=True),
                   Field("carol", "opt", "short", EN_C),
                   Field("delta_y", "optopt", "long", EN_D, icase=True)])
    top("AMixed", [Field("alpha", "bool", "long", None), Field("bravo_x", "counter", "short", None),
                   Field("carol", "plain", "pos", "str"), Field("delta_y", "opt", "long", "i64"),
                   Field("echo", "vec", "pos", "u8")])
    top("APositional", [Field("alpha", "plain", "pos", "u8"), Field("bravo_x", "opt", "pos", "str"),
                        Field("carol", "optvec", "pos", "i64")])
    top("AWide", [Field("alpha", "bool", "short", None), Field("bravo_x", "bool", "long", None),
                  Field("carol", "counter", "long", None), Field("delta_y", "optopt", "short", "u8"),
                  Field("echo", "optvec", "long", "str"), Field("fox_trot", "vecvec", "long", "u8"),
                  Field("golf", "plain", "long", EN_C, default="three"), Field("india", "opt", "long", "str")])

    # ---- flatten
    in1 = inner("In1", [Field("xray", "opt", "long", "u8"), Field("yank", "bool", "long", None),
                        Field("zulu", "vec", "long", "str")])
    top("F1", [Flatten("inner", in1), Field("top_flag", "bool", "long", None)])
    in2 = inner("In2", [Field("deep", "opt", "long", "i64"), Field("deep_count", "counter", "short", None)])
    mid = inner("Mid", [Flatten("in2", in2), Field("mid_opt", "opt", "long", "str")])
    top("F2", [Flatten("mid", mid), Field("name", "plain", "long", "str")])
    in3 = inner("In3", [Field("aa", "opt", "long", "u8"), Field("bb", "bool", "long", None),
                        Field("cc", "vec", "short", "str")])
    top("F3", [Flatten("maybe", in3, opt=True), Field("other", "opt", "long", "u8")])
    in4 = inner("In4", [Field("need", "plain", "long", "u8"), Field("extra", "opt", "long", "str")])
    top("F4", [Flatten("maybe", in4, opt=True), Field("verbose", "bool", "short", None)])
    top("F5", [Flatten("maybe_mid", mid, opt=True), Field("other", "opt", "long", "u8")])
    # an optional flatten whose members carry no default: `try_update_from` on a value that already holds Some(inner)
    # updates the members in place (theorem C15_update_unoccurring_untouched_opt)
    in6 = inner("In6", [Field("echo", "opt", "long", "u8"), Field("golf", "opt", "long", "u8"),
                        Field("hotel", "vec", "long", "str")])
    top("F6", [Field("tango", "opt", "long", "str"), Flatten("maybe", in6, opt=True)])

    # ---- subcommands
    in5 = inner("In5", [Field("size", "plain", "long", "u8"), Field("tags", "vec", "long", "str")])
    sub3 = SubEnum("Sub3", [("Leaf", "unit"), ("Twig", ("named", [Field("len", "opt", "long", "u8")]))])
    sub1 = SubEnum("Sub1", [("Unit", "unit"), ("Tup", ("tuple", in5)),
                            ("Named", ("named", [Field("xx", "plain", "pos", "u8"), Field("yy", "opt", "long", "str"),
                                                 Field("zz", "bool", "short", None)])),
                            ("AddItem", ("named", [Field("items", "vec", "pos", "str"),
                                                   Field("force", "counter", "long", None)])),
                            ("Deep", ("named", [Field("lvl", "opt", "long", "i64"), Sub("inner", sub3)]))])
    subenums.extend([sub3, sub1])
    top("S1", [Field("verbose", "bool", "long", None), Sub("cmd", sub1)])
    top("S2", [Sub("cmd", sub1, opt=True), Field("level", "counter", "short", None),
               Field("name", "opt", "long", "str")])
    # ---- implementation-only types: attributes the derive MODEL does not cover (conditional defaults, typed defaults,
    # relations).  They take part in the stream `dparse-attrs` only (direct oracle on the real macro's output:
    # try_parse_from succeeds exactly when the generated command parses, and gives the same value).
    xtops = []

    def xtop(name, nodes):
        st = Struct(name, nodes, parser=True)
        structs.append(st)
        xtops.append(st)
        return st

    xtop("XCondDefault", [Field("release", "bool", "long", None),
                          Field("profile", "plain", "long", "str",
                                raw=['default_value_if("release", "true", "optimized")'])])
    xtop("XCondDefaults", [Field("mode", "opt", "long", "str"),
                           Field("level", "plain", "long", "u8",
                                 raw=['default_value_ifs([("mode", "fast", "1"), ("mode", "slow", "9")])'])])
    xtop("XCondWithDefault", [Field("mode", "opt", "long", "str"),
                              Field("level", "plain", "long", "u8", default="5",
                                    raw=['default_value_if("mode", "fast", "1")'])])
    xtop("XTypedDefaults", [Field("alpha", "plain", "long", "u8", raw=["default_value_t = 5"]),
                            Field("bravo_x", "vec", "long", "u8", raw=["default_values_t = [1u8, 2u8]"]),
                            Field("carol", "plain", "pos", "str", raw=['default_value_t = String::from("dflt")'])])
    xtop("XDefaultValues", [Field("alpha", "vec", "long", "str", raw=['default_values = ["a", "b"]']),
                            Field("bravo_x", "opt", "long", "u8")])
    xtop("XRelations", [Field("alpha", "opt", "long", "u8", raw=['requires = "bravo_x"']),
                        Field("bravo_x", "opt", "long", "str"),
                        Field("carol", "plain", "long", "u8", raw=['required_unless_present = "delta_y"']),
                        Field("delta_y", "bool", "long", None, raw=['conflicts_with = "alpha"'])])
    xtop("XMissing", [Field("alpha", "optopt", "long", "u8", raw=['default_missing_value = "7"']),
                      Field("bravo_x", "opt", "long", "str", raw=["num_args = 0..=1", 'default_missing_value = "dm"'])])
    xtop("XRange", [Field("alpha", "plain", "long", "u8", raw=["value_parser = clap::value_parser!(u8).range(1..=9)"]),
                    Field("bravo_x", "vec", "pos", "i64", raw=["allow_negative_numbers = true"])])
    xtop("XRequiredIf", [Field("mode", "opt", "long", "str"),
                         Field("token", "opt", "long", "str", raw=['required_if_eq("mode", "remote")']),
                         Field("verbose", "counter", "short", None)])
    return structs, subenums, tops, xtops


STRUCTS, SUBENUMS, TOPS, XTOPS = build()
BY_NAME = {s.name: s for s in TOPS + XTOPS}


def render_rust():
    out = ["// GENERATED by vp/derive_corpus.py -- do not edit; regenerate with `python3 vp/derive_corpus.py`.",
           "#![allow(dead_code, unused_variables, unused_mut, clippy::all)]",
           "use super::{enum_parts, enum_text, nx, show_enum, show_struct, struct_from_sx, Canon, EnumOps, EnumTypeOps, Idx, Ops, Pr, Scalar, TypeOps, Val, K};",
           "use crate::sexp::Sx;",
           "use std::marker::PhantomData;", ""]
    for e in VENUMS:
        out += [e.rust(), ""]
    # inner structs before users is not required in Rust; keep declaration order
    for s in STRUCTS:
        out += [s.rust(), ""]
    for e in SUBENUMS:
        out += [e.rust(), ""]
    out.append("pub fn corpus() -> Vec<(&'static str, Box<dyn Ops>)> {")
    out.append("    vec![")
    for s in TOPS + XTOPS:
        out.append('        ("%s", Box::new(TypeOps::<%s>(PhantomData)) as Box<dyn Ops>),' % (s.name, s.name))
    out.append("    ]")
    out.append("}")
    out.append("pub fn venums() -> Vec<(&'static str, Box<dyn EnumOps>)> {")
    out.append("    vec![")
    for e in VENUMS:
        out.append('        ("%s", Box::new(EnumTypeOps::<%s>(PhantomData)) as Box<dyn EnumOps>),' % (e.name, e.name))
    out.append("    ]")
    out.append("}")
    return "\n".join(out) + "\n"


def write_rust():
    txt = render_rust()
    old = open(RUST_OUT).read() if os.path.exists(RUST_OUT) else None
    if old != txt:
        with open(RUST_OUT, "w") as f:
            f.write(txt)
        return True
    return False


if __name__ == "__main__":
    changed = write_rust()
    print("%s: %d top-level types, %d structs, %d subcommand enums, %d value enums%s" % (
        os.path.relpath(RUST_OUT, ROOT), len(TOPS), len(STRUCTS), len(SUBENUMS), len(VENUMS),
        " (rewritten)" if changed else " (unchanged)"))
