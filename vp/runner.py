"""Generic per-property check: proof gate + correspondence + direct oracle + search."""
import importlib
import json
import os
import random
import sys
import time

from . import core


class Stream:
    def __init__(self, name, cases, oracle=None, area=None, project=None, nontrivial=None,
                 profile="debug", describe=None, model_mode=True):
        self.name = name
        self.cases = cases
        self.oracle = oracle or (lambda case, impl: None)
        self.area = area
        self.project = project or (lambda r: r)
        self.nontrivial = nontrivial or (lambda case, impl: True)
        self.profile = profile
        self.describe = describe  # optional: dict of measured distributions


def load_prop(pid):
    return importlib.import_module("vp.props." + pid.lower())


def corpus_cases(pid, stream):
    d = os.path.join(core.ROOT, "corpus", pid)
    out = []
    if os.path.isdir(d):
        for fn in sorted(os.listdir(d)):
            if fn.startswith(stream + ".") and fn.endswith(".cases"):
                for ln in open(os.path.join(d, fn)):
                    ln = ln.rstrip("\n")
                    if ln and not ln.startswith("#"):
                        out.append(ln)
    return out


def shrink_case(case, still_fails, budget_s=20):
    """Greedy structural shrinking on the S-expression: drop list elements, halve byte strings."""
    t0 = time.time()
    try:
        cur = core.sx_parse(case)
    except Exception:
        return case

    def variants(v, path=()):
        if isinstance(v, list):
            for i in range(len(v) - 1, 0, -1):
                yield path, ("del", i)
            for i, x in enumerate(v):
                if i == 0 and not isinstance(x, list):
                    continue
                yield from variants(x, path + (i,))
        elif isinstance(v, str) and v.startswith("x") and len(v) > 3:
            yield path, ("half",)
            yield path, ("chop",)

    def apply(v, path, act):
        if not path:
            if act[0] == "del":
                return v[:act[1]] + v[act[1] + 1:]
            if act[0] == "half":
                n = (len(v) - 1) // 4 * 2
                return "x" + v[1:1 + n]
            if act[0] == "chop":
                return v[:-2]
        c = list(v)
        c[path[0]] = apply(v[path[0]], path[1:], act)
        return c

    progress = True
    while progress and time.time() - t0 < budget_s:
        progress = False
        cands = []
        for path, act in variants(cur):
            try:
                cands.append(apply(cur, path, act))
            except Exception:
                pass
            if len(cands) >= 64:
                break
        if not cands:
            break
        flags = still_fails([core.sx_str(c) for c in cands])
        for c, f in zip(cands, flags):
            if f:
                cur = c
                progress = True
                break
    return core.sx_str(cur)


def run_check(pid, tier="quick", seed=0, replay=None):
    t0 = time.time()
    prop = load_prop(pid)
    rng = random.Random((seed, pid, tier).__repr__())
    known = core.load_known(pid)
    known_ids = {f["id"]: f for f in known}
    violations = []          # (kind, stream, case, detail)
    known_hits = {}
    notes = []

    # ---- builds
    profiles = {"debug"}
    ok, hbin, out = core.build_harness("debug")
    if not ok:
        print(out[-3000:])
        print("ERROR: harness does not build against /repo's working tree")
        return 2
    bins = {"debug": hbin}

    gate = core.proof_gate(pid)
    model_bins = {}
    model_ok = True
    for area in getattr(prop, "AREAS", []):
        okm, mbin, mout = core.build_model(area)
        if not okm:
            model_ok = False
            gate["failures"].append("extraction/build of model driver '%s' failed: %s" % (area, mout[-400:]))
        model_bins[area] = mbin

    # ---- replay mode
    if replay:
        payload = json.load(open(replay))
        sts = {s.name: s for s in prop.streams(tier, rng)}
        st = sts.get(payload.get("stream"))
        if st is None or "case" not in payload:
            # a gate failure replay: re-evaluate the gate
            if gate["failures"]:
                print("VIOLATION property=%s replay=%s no-failing-input-found" % (pid, replay))
                return 1
            print("replay: proof gate passes now")
            return 0
        impl = core.run_cases(bins["debug"], [payload["case"]], "%s.replay.impl" % pid, shards=1)[0]
        fail = st.oracle(payload["case"], impl)
        print("impl:", impl[:2000])
        if st.area and model_ok:
            mod = core.run_cases(model_bins[st.area], [payload["case"]], "%s.replay.model" % pid, shards=1)[0]
            print("model:", mod[:2000])
            if st.project(mod) != st.project(impl) and not fail:
                fail = "model/implementation differ on the projection"
        if fail:
            print("replay still fails:", fail)
            print("VIOLATION property=%s replay=%s" % (pid, replay))
            return 1
        print("replay passes")
        return 0

    # ---- streams
    rdir = os.path.join(core.ROOT, "evidence", "replay")
    if os.path.isdir(rdir):          # replays of earlier runs of this property are stale now
        for fn in os.listdir(rdir):
            if fn.startswith(pid + "-"):
                os.remove(os.path.join(rdir, fn))
    streams = prop.streams(tier, rng)
    total = 0
    distinct = set()
    nontrivial = 0
    samples = []
    validated = 0
    dists = {}
    diffs = []
    for st in streams:
        if st.profile == "release" and "release" not in bins:
            okr, rbin, rout = core.build_harness("release")
            if not okr:
                print(rout[-2000:])
                print("ERROR: release harness does not build")
                return 2
            bins["release"] = rbin
        cases = corpus_cases(pid, st.name) + list(st.cases)
        impl = core.run_cases(bins[st.profile], cases, "%s.%s.impl" % (pid, st.name))
        model = None
        if st.area and model_ok:
            model = core.run_cases(model_bins[st.area], cases, "%s.%s.model" % (pid, st.name))
        total += len(cases)
        if st.describe:
            dists[st.name] = st.describe
        for i, (c, r) in enumerate(zip(cases, impl)):
            key = (st.name, c)
            if key not in distinct:
                distinct.add(key)
                try:
                    if st.nontrivial(c, r):
                        nontrivial += 1
                except Exception:
                    pass
            fail = None
            try:
                fail = st.oracle(c, r)
            except Exception as ex:  # an oracle crash is a machinery bug, make it loud
                fail = "oracle-exception %r" % (ex,)
            if fail:
                fid = prop.classify_known(st.name, c, r, fail) if hasattr(prop, "classify_known") else None
                if fid and fid in known_ids:
                    known_hits.setdefault(fid, (st.name, c, fail))
                else:
                    violations.append(("oracle", st, c, fail, r))
            if model is not None:
                if st.project(model[i]) == st.project(r):
                    validated += 1
                else:
                    fid = prop.classify_known(st.name, c, r, "diff") if hasattr(prop, "classify_known") else None
                    if fid and fid in known_ids:
                        known_hits.setdefault(fid, (st.name, c, "model/impl differ (known family)"))
                    else:
                        diffs.append((st, c, r, model[i]))
        for c, r in list(zip(cases, impl))[:2]:
            samples.append({"stream": st.name, "case": c[:600], "impl": (r or "")[:600]})

    # ---- decide
    rc = 0
    for fid, (sn, c, fail) in known_hits.items():
        print("KNOWN-FINDING: property=%s %s [%s] (stream %s)" % (pid, known_ids[fid]["what"], fid, sn))

    def fails_batch(st):
        def f(cands):
            impl = core.run_cases(bins[st.profile], cands, "%s.shrink.impl" % pid, shards=min(core.NPROC, len(cands)))
            out = []
            for c, r in zip(cands, impl):
                try:
                    fl = st.oracle(c, r)
                except Exception:
                    fl = None
                if fl and hasattr(prop, "classify_known"):
                    fid = prop.classify_known(st.name, c, r, fl)
                    if fid and fid in known_ids:
                        fl = None
                out.append(bool(fl))
            return out
        return f

    reported = set()
    if violations:
        # report at most one (shrunk) violation per stream
        for kind, st, c, fail, r in violations:
            if st.name in reported:
                continue
            reported.add(st.name)
            small = shrink_case(c, fails_batch(st))
            impl_small = core.run_cases(bins[st.profile], [small], "%s.final.impl" % pid, shards=1)[0]
            path = core.write_replay(pid, {"property": pid, "stream": st.name, "case": small,
                                           "original_case": c, "failure": st.oracle(small, impl_small) or fail,
                                           "impl_result": impl_small[:4000], "kind": "oracle-on-implementation"})
            print("oracle failure on the implementation (stream %s): %s" % (st.name, fail[:500]))
            print("VIOLATION property=%s replay=%s" % (pid, path))
        rc = 1
    elif diffs or gate["failures"]:
        # proof or correspondence broken, no direct failure yet: search the implementation
        found = None
        for rnd in range(3):
            rng2 = random.Random((seed, pid, tier, "search", rnd).__repr__())
            for st in prop.streams("thorough" if rnd else tier, rng2):
                if st.profile not in bins:
                    continue
                impl = core.run_cases(bins[st.profile], st.cases, "%s.search.impl" % pid)
                for c, r in zip(st.cases, impl):
                    try:
                        fl = st.oracle(c, r)
                    except Exception:
                        fl = None
                    if fl:
                        fid = prop.classify_known(st.name, c, r, fl) if hasattr(prop, "classify_known") else None
                        if fid and fid in known_ids:
                            continue
                        found = (st, c, fl, r)
                        break
                if found:
                    break
            if found:
                break
        if found:
            st, c, fl, r = found
            small = shrink_case(c, fails_batch(st))
            path = core.write_replay(pid, {"property": pid, "stream": st.name, "case": small,
                                           "original_case": c, "failure": fl, "impl_result": r[:4000],
                                           "kind": "oracle-on-implementation (found by search after a broken proof/correspondence)"})
            print("VIOLATION property=%s replay=%s" % (pid, path))
        else:
            what = []
            if gate["failures"]:
                what += ["proof obligation no longer checks: " + f for f in gate["failures"]]
            payload = {"property": pid, "kind": "broken-proof-or-correspondence", "broken": what}
            if diffs:
                st, c, r, m = diffs[0]
                what.append("correspondence stream '%s' differs on %d case(s)" % (st.name, len(diffs)))
                payload.update({"stream": st.name, "case": c, "impl_result": r[:4000], "model_result": m[:4000],
                                "impl_projection": st.project(r)[:2000], "model_projection": st.project(m)[:2000],
                                "differing_cases": len(diffs)})
            payload["broken"] = what
            for w in what:
                print(w[:800])
            path = core.write_replay(pid, payload)
            print("VIOLATION property=%s replay=%s no-failing-input-found" % (pid, path))
        rc = 1

    # ---- evidence
    ev = {
        "property_id": pid,
        "tier": tier,
        "seed": seed,
        "level": "proof",
        "wall_s": round(time.time() - t0, 2),
        "violations": len(violations) + (1 if (rc and not violations) else 0),
        "assumptions": getattr(prop, "ASSUMPTIONS", []),
        "coverage": {
            "obligations": gate["obligations"],
            "discharged": gate["discharged"],
            "checker_cmd": "make -C coq theories/Properties/%s.vo && coqc -Q theories ClapModel pins/%s.v (Check <pinned statement>; Print Assumptions) ; grep for Admitted/Axiom/..." % (pid, pid),
            "trusted_base": getattr(prop, "TRUSTED", []),
            "theorems": gate["theorems"],
            "axioms_per_theorem": gate["axioms"],
            "gate_failures": gate["failures"],
            "evaluations": total,
            "distinct_nontrivial": nontrivial,
            "rule": getattr(prop, "RULE", ""),
            "samples": samples[:8],
            "traces_validated_against_impl": validated,
            "model_impl_differences": len(diffs),
            "known_findings_seen": sorted(known_hits),
            "distributions": dists,
            "streams": [s.name for s in streams],
        },
    }
    core.write_evidence(pid, ev)
    print("%s %s: theorems %d/%d, cases %d (distinct non-trivial %d), model=impl on %d, differences %d, oracle failures %d, %.1fs"
          % (pid, tier, gate["discharged"], gate["obligations"], total, nontrivial, validated, len(diffs),
             len(violations), time.time() - t0))
    return rc
