#!/usr/bin/env python3
"""Coordinator's helper for seeded changes (DESIGN.md section 13).  Never touches /repo.

  python3 vp/seed_trial.py confirm <seed_dir> --demo SRC:DEST [--demo SRC:DEST ...] --cmd "<cargo test ...>"
      in the scratch clap worktree (default /tmp/seed/verify): demo passes without the patch, fails with it,
      the whole workspace suite passes with it; writes <seed_dir>/confirm.json
  python3 vp/seed_trial.py detect <seed_dir> C05 [C02 ...] [--tier quick]
      applies the patch to the scratch worktree, runs the named checks of the scratch framework copy
      (default /tmp/vtrial, VERIF_REPO = the worktree), reverts; writes <seed_dir>/detect.json
"""
import argparse
import json
import os
import re
import shutil
import subprocess
import sys
import time

ENV = dict(os.environ, CARGO_NET_OFFLINE="true")


def sh(cmd, cwd, timeout=3600, env=None):
    e = dict(ENV)
    if env:
        e.update(env)
    p = subprocess.run(cmd, shell=True, cwd=cwd, env=e, stdout=subprocess.PIPE, stderr=subprocess.STDOUT,
                       text=True, errors="replace", timeout=timeout)
    return p.returncode, p.stdout


def clean(wt):
    sh("git checkout -- . && git clean -fdq", wt)


def suite_counts(out):
    p = f = 0
    for m in re.finditer(r"^test result: \w+\. (\d+) passed; (\d+) failed", out, re.M):
        p += int(m.group(1))
        f += int(m.group(2))
    return p, f


def confirm(a):
    wt, sd = a.wt, os.path.abspath(a.seed_dir)
    tgt = {"CARGO_TARGET_DIR": a.target}
    res = {"worktree_head": sh("git rev-parse HEAD", wt)[1].strip(), "steps": []}
    clean(wt)

    def put_demo():
        for d in a.demo:
            src, dest = d.split(":")
            dp = os.path.join(wt, dest)
            os.makedirs(os.path.dirname(dp), exist_ok=True)
            shutil.copy(os.path.join(sd, "demo", src), dp)

    put_demo()
    rc0, out0 = sh(a.cmd, wt, env=tgt)
    res["steps"].append({"what": "demo without the change", "cmd": a.cmd, "exit": rc0, "tail": out0[-1500:]})
    clean(wt)
    rc, out = sh("git apply --whitespace=nowarn %s/patch.diff" % sd, wt)
    if rc != 0:
        res["error"] = "patch does not apply: " + out
        json.dump(res, open(os.path.join(sd, "confirm.json"), "w"), indent=1)
        print("PATCH DOES NOT APPLY")
        return 2
    put_demo()
    rc1, out1 = sh(a.cmd, wt, env=tgt)
    res["steps"].append({"what": "demo with the change", "cmd": a.cmd, "exit": rc1, "tail": out1[-2500:]})
    for d in a.demo:
        os.remove(os.path.join(wt, d.split(":")[1]))
    sh("git clean -fdq", wt)
    cmd = "cargo test --workspace --no-fail-fast --offline"
    rc2, out2 = sh(cmd, wt, env=tgt)
    p, f = suite_counts(out2)
    res["steps"].append({"what": "whole existing suite with the change", "cmd": cmd, "exit": rc2, "passed": p, "failed": f,
                         "tail": "" if rc2 == 0 else out2[-3000:]})
    clean(wt)
    ok = rc0 == 0 and rc1 != 0 and rc2 == 0 and f == 0 and p > 1000
    res["confirmed"] = ok
    json.dump(res, open(os.path.join(sd, "confirm.json"), "w"), indent=1)
    print("demo-without exit=%d  demo-with exit=%d  suite exit=%d passed=%d failed=%d  => %s"
          % (rc0, rc1, rc2, p, f, "CONFIRMED" if ok else "NOT CONFIRMED"))
    return 0 if ok else 1


def detect(a):
    wt, sd, vc = a.wt, os.path.abspath(a.seed_dir), a.vcopy
    clean(wt)
    rc, out = sh("git apply --whitespace=nowarn %s/patch.diff" % sd, wt)
    if rc != 0:
        print("PATCH DOES NOT APPLY", out)
        return 2
    res = {"framework_commit": sh("git rev-parse HEAD", vc)[1].strip(), "tier": a.tier, "checks": []}
    try:
        for prop in a.props:
            t0 = time.time()
            rc, out = sh("./check %s --tier %s" % (prop, a.tier), vc, env={"VERIF_REPO": wt}, timeout=7200)
            viol = [l for l in out.split("\n") if l.startswith("VIOLATION")]
            entry = {"property": prop, "exit": rc, "violation_lines": viol[:5], "seconds": round(time.time() - t0)}
            replays = []
            for l in viol[:3]:
                m = re.search(r"replay=(\S+)", l)
                if m and os.path.exists(os.path.join(vc, m.group(1))):
                    replays.append(open(os.path.join(vc, m.group(1)), errors="replace").read()[:3000])
            entry["replays"] = replays
            entry["output_tail"] = out[-2500:]
            res["checks"].append(entry)
            print("%s exit=%d %s" % (prop, rc, viol[0] if viol else "(no VIOLATION line)"))
    finally:
        clean(wt)
    json.dump(res, open(os.path.join(sd, "detect.json"), "w"), indent=1)
    return 0


def main():
    ap = argparse.ArgumentParser()
    sub = ap.add_subparsers(dest="mode", required=True)
    c = sub.add_parser("confirm")
    c.add_argument("seed_dir")
    c.add_argument("--demo", action="append", default=[])
    c.add_argument("--cmd", required=True)
    d = sub.add_parser("detect")
    d.add_argument("seed_dir")
    d.add_argument("props", nargs="+")
    d.add_argument("--tier", default="quick")
    for p in (c, d):
        p.add_argument("--wt", default="/tmp/seed/verify")
        p.add_argument("--target", default="/tmp/seed/target-verify")
        p.add_argument("--vcopy", default="/tmp/vtrial")
    a = ap.parse_args()
    sys.exit(confirm(a) if a.mode == "confirm" else detect(a))


if __name__ == "__main__":
    main()
