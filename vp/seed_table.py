#!/usr/bin/env python3
"""Print the markdown table of DESIGN.md section 13 from seeded/*/meta.json."""
import json, os, glob
ROOT = os.path.dirname(os.path.dirname(os.path.abspath(__file__)))
rows = []
for m in sorted(glob.glob(os.path.join(ROOT, "seeded", "*", "meta.json"))):
    d = json.load(open(m))
    det = d.get("detection", {}).get("checks", [])
    how = []
    for c in det:
        v = c.get("violation_lines") or []
        if c.get("exit") == 1 and v:
            how.append("%s: %s" % (c["property"], "model/implementation comparison only (no-failing-input-found)"
                                   if "no-failing-input-found" in v[0] else "failing input (direct oracle)"))
        else:
            how.append("%s: NOT reported" % c["property"])
    need = (d.get("needs_to_manifest") or "").replace("\n", " ").replace("|", "/")
    if len(need) > 230:
        need = need[:227] + "..."
    rows.append("| `%s` | %s | %s |" % (d["id"], need, "; ".join(how) or "(not run)"))
print("| seeded change (`seeded/<id>/`) | what it needs to manifest | quick check of its property |")
print("|---|---|---|")
print("\n".join(rows))
