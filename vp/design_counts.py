#!/usr/bin/env python3
"""Print the figures DESIGN.md section 11 quotes: pinned theorems per property and in all, lines / files of Coq."""
import glob, os, re, subprocess
ROOT = os.path.dirname(os.path.dirname(os.path.abspath(__file__)))
tot = 0
per = []
for i in range(1, 21):
    p = "C%02d" % i
    n = len(re.findall(r"^Check \(", open(os.path.join(ROOT, "coq/pins/%s.v" % p)).read(), re.M))
    per.append("%s %d" % (p, n))
    tot += n
files = glob.glob(os.path.join(ROOT, "coq/theories/**/*.v"), recursive=True)
lines = sum(sum(1 for _ in open(f, errors="replace")) for f in files)
print(" ".join(per))
print("total pinned theorems:", tot)
print("coq: %d lines in %d files" % (lines, len(files)))
