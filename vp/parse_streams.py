"""Shared by the parser-area property modules (C01-C11): case generation from vp/gen_cmd.py,
decoding of a case line back into python data for the oracles, result decoding.

A case line is `(parse (cmd ...) (argv x.. ...))`; results are printed by
harness/src/modes/parse.rs (implementation) and ocaml/common_parse/show.ml (model):
  ok (m (<id> <src> (<idx>...) ((<raw>...)...))... [(sub <name> (m ...))])
  err <Kind> <stdout|stderr> <exit code> [<first line of the rendered help>]
  INVALID | PANIC ... | ABORT ... | OUTOFFUEL
"""
from . import gen_cmd
from .core import sx_parse, unhex
from .parse_common import parse_result, m_entries, agree_full  # noqa: F401  (re-exported)


def gen_cases(rng, n, prof_kw=None, per_cmd=4, p_mutate=0.35, safe_p=0.6, mode="parse", want=None):
    """n case lines; `want(cmd_dict)` may filter the commands."""
    prof = gen_cmd.Profile(**(prof_kw or {}))
    out = []
    guard = 0
    while len(out) < n and guard < 50 * n + 1000:
        guard += 1
        c = gen_cmd.gen_cmd(rng, prof)
        if want and not want(c):
            continue
        for _ in range(per_cmd):
            out.append(gen_cmd.case_sx(c, gen_cmd.gen_argv(rng, c, p_mutate=p_mutate, safe_p=safe_p), mode=mode))
    return out[:n]


# ---------------------------------------------------------------- decoding a case line

def _b(t):
    return unhex(t)


def vp_of_sx(x):
    """the generator's representation (gen_cmd.py, section `value parsers`) of a `(vp ..)` / `(ext ..)` item"""
    if isinstance(x, str):
        return x
    if x[0] == "i64":
        return ("i64", int(x[1]), int(x[2]))
    if x[0] == "int":
        return ("int", x[1], int(x[2]), int(x[3]))
    if x[0] == "pv":
        out = []
        for pv in x[1:]:
            hide = bool(pv) and pv[0] == "hide"
            names = [_b(n) for n in (pv[1:] if hide else pv)]
            out.append((names[0], names[1:], hide))
        return ("pv", out)
    raise ValueError("vp %r" % (x,))


def arg_of_sx(items):
    a = {"id": _b(items[0]), "flags": set(), "aliases": [], "saliases": [], "difs": [], "requires_if": [],
         "r_if": [], "r_if_all": []}
    for it in items[1:]:
        h, l = it[0], it[1:]
        if h == "short":
            a["short"] = chr(int(l[0]))
        elif h == "long":
            a["long"] = _b(l[0])
        elif h == "alias":
            a["aliases"].append((_b(l[0]), len(l) > 1))
        elif h == "salias":
            a["saliases"].append((chr(int(l[0])), len(l) > 1))
        elif h == "index":
            a["index"] = int(l[0])
        elif h == "action":
            a["action"] = l[0]
        elif h == "num":
            a["num"] = (int(l[0]), None if l[1] == "inf" else int(l[1]))
        elif h == "names":
            a["names"] = int(l[0])
        elif h == "delim":
            a["delim"] = chr(int(l[0]))
        elif h == "term":
            a["term"] = _b(l[0])
        elif h == "vp":
            a["vp"] = vp_of_sx(l[0])
        elif h == "flags":
            a["flags"] = set(l)
        elif h == "default":
            a["default"] = [_b(x) for x in l]
        elif h == "dmissing":
            a["dmissing"] = [_b(x) for x in l]
        elif h == "dif":
            pred = None if l[1] == "present" else _b(l[1][1])
            a["difs"].append((_b(l[0]), pred, _b(l[2]) if len(l) > 2 else None))
        elif h == "env":
            a["env"] = (_b(l[0]), _b(l[1]) if len(l) > 1 else None)
        elif h in ("conflicts", "overrides", "requires", "r_unless", "r_unless_all", "groups"):
            a[h] = [_b(x) for x in l]
        elif h == "requires_if":
            a["requires_if"].append((_b(l[0]), _b(l[1])))
        elif h == "r_if":
            a["r_if"].append((_b(l[0]), _b(l[1])))
        elif h == "r_if_all":
            a["r_if_all"] = [(_b(p[0]), _b(p[1])) for p in l]
        elif h == "help":
            a["help"] = _b(l[0])
        else:
            a.setdefault("ext", []).append(it)
    return a


def group_of_sx(items):
    g = {"id": _b(items[0]), "args": [], "requires": [], "conflicts": []}
    for it in items[1:]:
        h, l = it[0], it[1:]
        if h in ("args", "requires", "conflicts"):
            g[h] = [_b(x) for x in l]
        elif h in ("required", "multiple"):
            g[h] = True
    return g


def cmd_of_sx(items):
    c = {"name": _b(items[0]), "args": [], "groups": [], "subs": [], "settings": [], "aliases": [],
         "short_flag_aliases": [], "long_flag_aliases": []}
    for it in items[1:]:
        h, l = it[0], it[1:]
        if h in ("about", "long_about", "version", "long_version"):
            c[h] = _b(l[0])
        elif h == "alias":
            c["aliases"].append((_b(l[0]), len(l) > 1))
        elif h == "short_flag":
            c["short_flag"] = chr(int(l[0]))
        elif h == "long_flag":
            c["long_flag"] = _b(l[0])
        elif h == "short_flag_alias":
            c["short_flag_aliases"].append((chr(int(l[0])), len(l) > 1))
        elif h == "long_flag_alias":
            c["long_flag_aliases"].append((_b(l[0]), len(l) > 1))
        elif h == "set":
            c["settings"] += l
        elif h == "ext":
            c["ext"] = l[0]
        elif h == "arg":
            c["args"].append(arg_of_sx(l))
        elif h == "group":
            c["groups"].append(group_of_sx(l))
        elif h == "sub":
            c["subs"].append(cmd_of_sx(l[0][1:]))
        else:
            c.setdefault("ext_items", []).append(it)
    return c


def decode_case(case):
    """-> (cmd dict, argv as list of bytes)"""
    sx = sx_parse(case)
    cmd = cmd_of_sx(sx[1][1:])
    argv = [_b(t) for t in sx[2][1:]]
    return cmd, argv


# ---------------------------------------------------------------- decoding a result

def entries(m):
    """m (parsed `(m ...)`) -> (list of dict(id, src, idx, occ), sub or None) ; entries printed as
    `(id ?)` (id propagated into a level that does not define it) get src '?'."""
    ents, sub = m_entries(m)
    out = []
    for e in ents:
        if len(e) == 2:
            out.append({"id": _b(e[0]), "src": "?", "idx": [], "occ": []})
        else:
            out.append({"id": _b(e[0]), "src": e[1], "idx": [int(x) for x in e[2]],
                        "occ": [[_b(v) for v in g] for g in e[3]]})
    return out, ((_b(sub[0]), sub[1]) if sub else None)


def levels(m):
    """the chain of levels of a result: [(entries, subcommand name or None), ...]"""
    out = []
    while m is not None:
        ents, sub = entries(m)
        out.append((ents, sub[0] if sub else None))
        m = sub[1] if sub else None
    return out


def outcome_class(r):
    """coarse class used by several projections"""
    p = parse_result(r)
    if p["kind"] == "err":
        return "help-or-version" if p["ekind"] in ("DisplayHelp", "DisplayVersion") else "err"
    return p["kind"]


# ---------------------------------------------------------------- settings reached after build (python mirror of
# the *documented* propagation: global settings are inherited by subcommands)
GLOBAL_SETTINGS = {"ignore_errors", "args_override_self", "dont_delimit_trailing_values", "infer_long_args",
                   "infer_subcommands", "no_binary_name", "disable_help_flag", "disable_version_flag",
                   "disable_help_subcommand", "propagate_version"}


def effective_settings(cmd, inherited=frozenset()):
    return set(cmd["settings"]) | set(inherited)


def walk_chain(cmd, chain_names):
    """follow subcommand names (as reported by the matches: canonical names) from the root;
    yields (cmd, effective settings) per level; stops at an unknown name (external subcommand)."""
    inh = set()
    cur = cmd
    yield cur, effective_settings(cur, inh)
    for n in chain_names:
        inh |= (set(cur["settings"]) | inh) & GLOBAL_SETTINGS
        nxt = [s for s in cur["subs"] if s["name"] == n]
        if not nxt:
            return
        cur = nxt[0]
        yield cur, effective_settings(cur, inh)
