"""Developer helper for C12: run the help streams on implementation and model, print oracle failures and
projection differences (no proof gate).  usage: python3 -m vp.dev_help_diff [quick|thorough] [seed]"""
import random
import sys
from collections import Counter

from . import core
from .props import c12


def main():
    tier = sys.argv[1] if len(sys.argv) > 1 else "quick"
    seed = int(sys.argv[2]) if len(sys.argv) > 2 else 0
    rng = random.Random((seed, "C12", tier).__repr__())
    ok, hbin, out = core.build_harness("debug")
    assert ok, out[-2000:]
    okm, mbin, mout = core.build_model("help")
    assert okm, mout[-2000:]
    for st in c12.streams(tier, rng):
        if st.profile != "debug":
            continue
        impl = core.run_cases(hbin, st.cases, "dev.%s.impl" % st.name)
        model = core.run_cases(mbin, st.cases, "dev.%s.model" % st.name) if st.area else [None] * len(impl)
        kinds = Counter()
        nd = nf = 0
        for c, r, m in zip(st.cases, impl, model):
            kinds[(r or "").split(" ")[0]] += 1
            f = st.oracle(c, r)
            if f:
                nf += 1
                if nf <= 3:
                    print("ORACLE", st.name, f, "\n   ", c[:3000])
            if m is not None and st.project(m) != st.project(r):
                nd += 1
                if nd <= 3:
                    print("DIFF", st.name, "\n   case:", c[:3000], "\n   impl: ", st.project(r)[:1500], "\n   model:", st.project(m)[:1500])
        print("%s: %d cases, kinds %s, oracle failures %d, differences %d, nontrivial %d" % (
            st.name, len(st.cases), dict(kinds), nf, nd, sum(1 for c, r in zip(st.cases, impl) if st.nontrivial(c, r))))


main()
