"""dev helper: run the C15 streams on implementation and model without the proof gate; print differences."""
import random, sys, collections
sys.path.insert(0, __import__("os").path.dirname(__import__("os").path.dirname(__import__("os").path.abspath(__file__))))
from vp import core
from vp.props import c15

tier = sys.argv[1] if len(sys.argv) > 1 else "quick"
only = sys.argv[2] if len(sys.argv) > 2 else None
ok, hbin, out = core.build_harness("debug")
assert ok, out[-2000:]
okm, mbin, mout = core.build_model("derive")
assert okm, mout[-2000:]
rng = random.Random(1)
for st in c15.streams(tier, rng):
    if only and st.name != only:
        continue
    impl = core.run_cases(hbin, st.cases, "dev.impl")
    model = core.run_cases(mbin, st.cases, "dev.model")
    nd = nf = 0
    fams = collections.Counter()
    shown = 0
    for c, i, m in zip(st.cases, impl, model):
        f = st.oracle(c, i)
        if f:
            k = c15.classify_known(st.name, c, i, f)
            fams[k] += 1
            if k is None:
                nf += 1
                if shown < 4:
                    shown += 1
                    print("ORACLE", st.name, f[:300], "\n   case", c[:60], "...", c[-200:], "\n   impl", i[:400])
        if st.project(i) != st.project(m):
            nd += 1
            if shown < 6:
                shown += 1
                print("DIFF", st.name, "\n   case", c[:60], "...", c[-300:], "\n   impl ", st.project(i)[:600], "\n   model", st.project(m)[:600])
    print("== %s: %d cases, %d diffs, %d unclassified oracle failures, known %s" % (st.name, len(st.cases), nd, nf, dict(fams)))
