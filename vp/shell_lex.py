"""Python port of the shell lexer machines of coq/theories/Escape/ShellLex.v (C17).

Used by the direct oracle on the implementation's scripts.  The port is validated against the
extracted Coq machines on every run (stream `lexport` of vp/props/c17.py): same final state and
same event list on boundary-alphabet inputs from every state.

An event is a pair (kind, code point): 'L' literal payload, 'Q' word-internal quoting mark,
'S' structural character, 'A' character read in an expanding position.
"""

WS = (32, 9)


def fish_step(st, c):
    if st in ("FB", "FW"):
        if c == 39:
            return "FSQ", [("S", 39)]
        if c == 34:
            return "FDQ", [("S", 34)]
        if c == 92:
            return "FBS", []
        if c == 35 and st == "FB":
            return "FC", [("S", 35)]
        if c in WS or c == 10 or c == 59:
            return "FB", [("S", c)]
        return "FW", [("S", c)]
    if st == "FBS":
        return ("FW", []) if c == 10 else ("FW", [("S", 92), ("S", c)])
    if st == "FSQ":
        if c == 92:
            return "FSQB", []
        if c == 39:
            return "FW", [("S", 39)]
        return "FSQ", [("L", c)]
    if st == "FSQB":
        if c in (92, 39):
            return "FSQ", [("L", c)]
        return "FSQ", [("L", 92), ("L", c)]
    if st == "FDQ":
        if c == 34:
            return "FW", [("S", 34)]
        if c == 92:
            return "FDQB", []
        if c == 36:
            return "FDQ", [("A", 36)]
        return "FDQ", [("L", c)]
    if st == "FDQB":
        if c in (34, 36, 92):
            return "FDQ", [("L", c)]
        if c == 10:
            return "FDQ", []
        return "FDQ", [("L", 92), ("L", c)]
    if st == "FC":
        return ("FB", [("S", 10)]) if c == 10 else ("FC", [("L", c)])
    raise ValueError(st)


def sh_step(st, c):
    if st in ("ZB", "ZW"):
        if c == 39:
            return "ZSQ", [("Q", 39)]
        if c == 34:
            return "ZDQ", [("Q", 34)]
        if c == 92:
            return "ZBS", []
        if c == 35 and st == "ZB":
            return "ZC", [("S", 35)]
        if c in WS or c == 10:
            return "ZB", [("S", c)]
        if c in (59, 38, 124, 40, 41, 60, 62):
            return "ZB", [("S", c)]
        if c in (36, 96):
            return "ZW", [("A", c)]
        return "ZW", [("S", c)]
    if st == "ZBS":
        return ("ZW", []) if c == 10 else ("ZW", [("Q", 92), ("L", c)])
    if st == "ZSQ":
        return ("ZW", [("Q", 39)]) if c == 39 else ("ZSQ", [("L", c)])
    if st == "ZDQ":
        if c == 34:
            return "ZW", [("Q", 34)]
        if c == 92:
            return "ZDQB", []
        if c in (36, 96):
            return "ZDQ", [("A", c)]
        return "ZDQ", [("L", c)]
    if st == "ZDQB":
        if c in (36, 96, 34, 92):
            return "ZDQ", [("L", c)]
        if c == 10:
            return "ZDQ", []
        return "ZDQ", [("L", 92), ("L", c)]
    if st == "ZC":
        return ("ZB", [("S", 10)]) if c == 10 else ("ZC", [("L", c)])
    raise ValueError(st)


def zspec_step(st, c):
    if st == "ZsPre":
        if c == 92:
            return "ZsPreB", []
        if c == 91:
            return "ZsDescr", [("S", 91)]
        if c == 58:
            return "ZsField", [("S", 58)]
        return "ZsPre", [("S", c)]
    if st == "ZsPreB":
        return "ZsPre", [("S", 92), ("S", c)]
    if st == "ZsDescr":
        if c == 92:
            return "ZsDescrB", []
        if c == 93:
            return "ZsField", [("S", 93)]
        return "ZsDescr", [("L", c)]
    if st == "ZsDescrB":
        return "ZsDescr", [("L", c)]
    if st == "ZsField":
        if c == 92:
            return "ZsFieldB", []
        if c == 58:
            return "ZsField", [("S", 58)]
        return "ZsField", [("L", c)]
    if st == "ZsFieldB":
        return "ZsField", [("L", c)]
    raise ValueError(st)


PS_SQ = (39, 0x2018, 0x2019, 0x201A, 0x201B)
PS_DQ = (34, 0x201C, 0x201D, 0x201E)


def ps_bare(st, c):
    if c in PS_SQ:
        return "PSQ", [("S", 39)]
    if c in PS_DQ:
        return "PDQ", [("S", 34)]
    if c == 35 and st == "PB":
        return "PC", [("S", 35)]
    if c in WS or c in (10, 13, 59, 44, 40, 41, 123, 125, 124):
        return "PB", [("S", c)]
    return "PW", [("S", c)]


def ps_step(st, c):
    if st in ("PB", "PW"):
        return ps_bare(st, c)
    if st == "PSQ":
        return ("PSQQ", []) if c in PS_SQ else ("PSQ", [("L", c)])
    if st == "PSQQ":
        if c in PS_SQ:
            return "PSQ", [("L", c)]
        s2, e = ps_bare("PW", c)
        return s2, [("S", 39)] + e
    if st == "PDQ":
        if c in PS_DQ:
            return "PDQQ", []
        if c == 96:
            return "PDQB", []
        if c == 36:
            return "PDQ", [("A", 36)]
        return "PDQ", [("L", c)]
    if st == "PDQQ":
        if c in PS_DQ:
            return "PDQ", [("L", c)]
        s2, e = ps_bare("PW", c)
        return s2, [("S", 34)] + e
    if st == "PDQB":
        return "PDQ", [("L", 96), ("L", c)]
    if st == "PC":
        return ("PB", [("S", 10)]) if c == 10 else ("PC", [("L", c)])
    raise ValueError(st)


def el_bare(st, c):
    if c == 39:
        return "ESQ", [("S", 39)]
    if c == 34:
        return "EDQ", [("S", 34)]
    if c == 35 and st == "EB":
        return "EC", [("S", 35)]
    if c in WS or c in (10, 13, 59, 40, 41, 123, 125, 124, 91, 93):
        return "EB", [("S", c)]
    return "EW", [("S", c)]


def el_step(st, c):
    if st in ("EB", "EW"):
        return el_bare(st, c)
    if st == "ESQ":
        return ("ESQQ", []) if c == 39 else ("ESQ", [("L", c)])
    if st == "ESQQ":
        if c == 39:
            return "ESQ", [("L", 39)]
        s2, e = el_bare("EW", c)
        return s2, [("S", 39)] + e
    if st == "EDQ":
        if c == 34:
            return "EW", [("S", 34)]
        if c == 92:
            return "EDQB", []
        return "EDQ", [("L", c)]
    if st == "EDQB":
        return "EDQ", [("L", 92), ("L", c)]
    if st == "EC":
        return ("EB", [("S", 10)]) if c == 10 else ("EC", [("L", c)])
    raise ValueError(st)


def nu_step(st, c):
    if st in ("NB", "NW"):
        if c == 39:
            return "NSQ", [("S", 39)]
        if c == 96:
            return "NBT", [("S", 96)]
        if c == 34:
            return "NDQ", [("S", 34)]
        if c == 35 and st == "NB":
            return "NC", [("S", 35)]
        if c in WS or c in (10, 13, 59, 124, 91, 93, 123, 125, 40, 41, 44, 58):
            return "NB", [("S", c)]
        return "NW", [("S", c)]
    if st == "NSQ":
        return ("NW", [("S", 39)]) if c == 39 else ("NSQ", [("L", c)])
    if st == "NBT":
        return ("NW", [("S", 96)]) if c == 96 else ("NBT", [("L", c)])
    if st == "NDQ":
        if c == 34:
            return "NW", [("S", 34)]
        if c == 92:
            return "NDQB", []
        return "NDQ", [("L", c)]
    if st == "NDQB":
        return "NDQ", [("L", 92), ("L", c)]
    if st == "NC":
        return ("NB", [("S", 10)]) if c == 10 else ("NC", [("L", c)])
    raise ValueError(st)


MACHINES = {
    "fish": (fish_step, ["FB", "FW", "FBS", "FSQ", "FSQB", "FDQ", "FDQB", "FC"]),
    "sh": (sh_step, ["ZB", "ZW", "ZBS", "ZSQ", "ZDQ", "ZDQB", "ZC"]),
    "zspec": (zspec_step, ["ZsPre", "ZsPreB", "ZsDescr", "ZsDescrB", "ZsField", "ZsFieldB"]),
    "powershell": (ps_step, ["PB", "PW", "PSQ", "PSQQ", "PDQ", "PDQQ", "PDQB", "PC"]),
    "elvish": (el_step, ["EB", "EW", "ESQ", "ESQQ", "EDQ", "EDQB", "EC"]),
    "nushell": (nu_step, ["NB", "NW", "NSQ", "NBT", "NDQ", "NDQB", "NC"]),
}


def run(machine, st, cps):
    """-> (final state, events, trace) ; trace[i] = (state before char i, number of events before char i)"""
    step = MACHINES[machine][0]
    evs = []
    trace = []
    for c in cps:
        trace.append((st, len(evs)))
        st, e = step(st, c)
        evs.extend(e)
    return st, evs, trace


def show(st, evs):
    """canonical text, identical to ocaml/aottext_driver.ml show_run"""
    return st + "|" + ".".join("%s%x" % (k, c) for k, c in evs)


def lits(evs):
    return [c for k, c in evs if k == "L"]


def is_data(evs):
    return all(k in ("L", "Q") for k, _ in evs)


def skeleton(evs):
    return [(k, c) for k, c in evs if k not in ("L", "Q")]
