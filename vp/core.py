"""Shared machinery: builds, proof gate, sharded runs of implementation and model,
projection diff, failing-input search, known findings, evidence."""
import hashlib
import json
import os
import re
import subprocess
import sys
import time
from concurrent.futures import ThreadPoolExecutor

ROOT = os.path.dirname(os.path.dirname(os.path.abspath(__file__)))
COQ = os.path.join(ROOT, "coq")
WORK = os.path.join(ROOT, "work")
NPROC = min(16, os.cpu_count() or 4)
GUARD = "clap_verif"
# The registered checks always run against /repo.  VERIF_REPO points a *scratch copy* of this framework at a scratch
# worktree of clap (used only to try seeded changes without touching /repo; see DESIGN.md section 13).
REPO = os.environ.get("VERIF_REPO", "/repo").rstrip("/") or "/repo"

ALLOWED_AXIOMS = {
    # standard-library axioms only; none is needed so far, listed for the day one is
    "functional_extensionality_dep", "proof_irrelevance", "classic", "JMeq_eq",
    "Eqdep.Eq_rect_eq.eq_rect_eq", "eq_rect_eq", "propositional_extensionality",
}
FORBIDDEN = re.compile(
    r"\b(Admitted|admit|Axiom|Axioms|Parameter|Parameters|Conjecture|Admit Obligations|bypass_check)\b"
    r"|Unset\s+Guard|Unset\s+Positivity|Unset\s+Universe|type-in-type|impredicative-set")


def sh(cmd, timeout=1200, cwd=ROOT, env=None, stdin=None):
    e = dict(os.environ)
    e.setdefault("CARGO_NET_OFFLINE", "true")
    if env:
        e.update(env)
    try:
        p = subprocess.run(cmd, shell=isinstance(cmd, str), cwd=cwd, env=e, timeout=timeout,
                           stdout=subprocess.PIPE, stderr=subprocess.STDOUT, text=True,
                           errors="replace", input=stdin)
        return p.returncode, p.stdout
    except subprocess.TimeoutExpired as ex:
        out = ex.stdout or ""
        if isinstance(out, bytes):
            out = out.decode("utf-8", "replace")
        return 124, out + "\n[timeout after %ss]" % timeout


# ---------------------------------------------------------------- builds

def build_harness(profile="debug"):
    """Build the Rust harness against /repo's current working tree (hooks on)."""
    hdir = os.path.join(ROOT, "harness")
    if REPO != "/repo":
        # same sources, path dependencies rewritten to the scratch worktree, separate target directory
        alt = os.path.join(WORK, "harness-alt")
        os.makedirs(alt, exist_ok=True)
        toml = open(os.path.join(hdir, "Cargo.toml")).read().replace('"/repo', '"' + REPO)
        if not os.path.exists(os.path.join(alt, "Cargo.toml")) or open(os.path.join(alt, "Cargo.toml")).read() != toml:
            open(os.path.join(alt, "Cargo.toml"), "w").write(toml)
        link = os.path.join(alt, "src")
        if os.path.islink(link) and os.readlink(link) != os.path.join(hdir, "src"):
            os.remove(link)          # a copied scratch framework: the link must follow THIS copy's sources
        if not os.path.islink(link):
            os.symlink(os.path.join(hdir, "src"), link)
        hdir = alt
    lock_src = REPO + "/Cargo.lock"
    lock_dst = os.path.join(hdir, "Cargo.lock")
    if not os.path.exists(lock_dst):
        with open(lock_src) as f, open(lock_dst, "w") as g:
            g.write(f.read())
    cmd = ["cargo", "build", "--offline", "--quiet"] + (["--release"] if profile == "release" else [])
    env = {"RUSTFLAGS": "--cfg %s -A warnings" % GUARD, "CARGO_NET_OFFLINE": "true"}
    rc, out = sh(cmd, timeout=1500, cwd=hdir, env=env)
    if rc != 0:
        # a stale lock (e.g. /repo's dependencies changed) : refresh once from /repo
        with open(lock_src) as f, open(lock_dst, "w") as g:
            g.write(f.read())
        rc, out = sh(cmd, timeout=1500, cwd=hdir, env=env)
    path = os.path.join(hdir, "target", profile, "vharness")
    return rc == 0 and os.path.exists(path), path, out


def gen_tables():
    """Regenerate the Coq tables that are extracted from /repo's sources."""
    tr = os.path.join(ROOT, "translators", "tables.py")
    if os.path.exists(tr):
        return sh([sys.executable, tr], timeout=120)
    return 0, ""


def build_coq(targets=None, timeout=1500):
    rc, out = gen_tables()
    if rc != 0:
        return False, "translator failed:\n" + out
    rc, out0 = sh(["sh", "gen_project.sh"], cwd=COQ, timeout=120)
    if rc != 0:
        return False, out0
    cmd = ["make", "-j%d" % NPROC] + (targets or [])
    rc, out = sh(cmd, cwd=COQ, timeout=timeout)
    return rc == 0, out


def build_model(area):
    rc, out = sh(["sh", os.path.join(ROOT, "ocaml", "build.sh"), area], timeout=900)
    path = os.path.join(ROOT, "ocaml", "bin", area)
    return rc == 0 and os.path.exists(path), path, out


# ---------------------------------------------------------------- proof gate

def scan_forbidden():
    """No Admitted/admit/Axiom/Parameter/..., no Variable/Hypothesis outside a Section."""
    bad = []
    for base in (os.path.join(COQ, "theories"), os.path.join(COQ, "extract"), os.path.join(COQ, "pins")):
        for dp, _, fs in os.walk(base):
            for fn in fs:
                if not fn.endswith(".v"):
                    continue
                p = os.path.join(dp, fn)
                txt = open(p, errors="replace").read()
                txt_nc = strip_comments(txt)
                for m in FORBIDDEN.finditer(txt_nc):
                    bad.append("%s: %s" % (os.path.relpath(p, ROOT), m.group(0)))
                depth = 0
                for line in txt_nc.split("\n"):
                    s = line.strip()
                    if re.match(r"(Section|Module)\s+\w+\s*\.", s) and s.startswith("Section"):
                        depth += 1
                    elif re.match(r"End\s+\w+\s*\.", s) and depth > 0:
                        depth -= 1
                    elif depth == 0 and re.match(r"(Variable|Variables|Hypothesis|Hypotheses|Context)\b", s):
                        bad.append("%s: %s outside a Section" % (os.path.relpath(p, ROOT), s.split()[0]))
    return bad


def strip_comments(txt):
    out, depth, i = [], 0, 0
    while i < len(txt):
        if txt.startswith("(*", i):
            depth += 1
            i += 2
        elif txt.startswith("*)", i) and depth > 0:
            depth -= 1
            i += 2
        else:
            if depth == 0:
                out.append(txt[i])
            elif txt[i] == "\n":
                out.append("\n")
            i += 1
    return "".join(out)


def theorem_names(prop):
    p = os.path.join(COQ, "theories", "Properties", prop + ".v")
    if not os.path.exists(p):
        return []
    return re.findall(r"^\s*Theorem\s+(\w+)", strip_comments(open(p).read()), re.M)


def coqchk_axioms(prop, timeout=1500):
    """Independent re-check of Properties/<prop>.vo and everything it depends on with coqchk;
    returns (ok, list of axioms it reports, raw tail)."""
    rc, out = sh(["coqchk", "-o", "-silent", "-Q", "theories", "ClapModel", "ClapModel.Properties." + prop],
                 cwd=COQ, timeout=timeout)
    m = re.search(r"\* Axioms:(.*?)\n\s*\n\* Constants/Inductives relying on type-in-type:(.*?)\n\s*\n"
                  r"\* Constants/Inductives relying on unsafe \(co\)fixpoints:(.*?)\n\s*\n"
                  r"\* Inductives whose positivity is assumed:(.*?)\n", out, re.S)
    if rc != 0 or not m:
        return False, [], out[-600:]
    ax = [a.strip() for a in m.group(1).strip().split("\n") if a.strip() and a.strip() != "<none>"]
    unsafe = [g.strip() for g in (m.group(2), m.group(3), m.group(4)) if g.strip() != "<none>"]
    return not unsafe, ax, out[-600:]


def proof_gate(prop, timeout=1500, thorough=False):
    """(a) make of the property's target succeeds, (b) pinned statements still type-check
    against the theorems, (c) Print Assumptions is closed or allow-listed, (d) no forbidden
    vernacular anywhere; thorough tier: (e) coqchk re-checks the compiled files and reports only
    allow-listed axioms.  Returns a dict; 'failures' lists what no longer checks."""
    res = {"obligations": 0, "discharged": 0, "failures": [], "axioms": {}, "theorems": []}
    names = theorem_names(prop)
    res["theorems"] = names
    res["obligations"] = len(names) + 1
    ok, out = build_coq(["theories/Properties/%s.vo" % prop], timeout=timeout)
    if not ok:
        m = re.findall(r'File "([^"]+)", line (\d+)[^\n]*\n(Error:[^\n]*(?:\n[^\n]+){0,3})', out)
        where = "; ".join("%s:%s %s" % (a, b, c.replace("\n", " ")[:200]) for a, b, c in m[:3]) or out[-600:]
        res["failures"].append("build of Properties/%s.vo failed: %s" % (prop, where))
        return res
    bad = scan_forbidden()
    if bad:
        res["failures"].append("forbidden vernacular: " + "; ".join(bad[:5]))
        return res
    res["discharged"] = 1
    pin = os.path.join(COQ, "pins", prop + ".v")
    if not os.path.exists(pin):
        res["failures"].append("no pin file for " + prop)
        return res
    pinned = re.findall(r"^Check \((\w+)\s*:", open(pin).read(), re.M)
    if sorted(pinned) != sorted(names):
        res["failures"].append("pin file and Properties/%s.v disagree on the theorem list: %s vs %s"
                               % (prop, sorted(pinned), sorted(names)))
        return res
    rc, out = sh(["coqc", "-q", "-noglob", "-Q", "theories", "ClapModel",
                  os.path.join("pins", prop + ".v")], cwd=COQ, timeout=600)
    if rc != 0:
        m = re.search(r"line (\d+)[^\n]*\n(Error:.*)", out, re.S)
        res["failures"].append("pinned statement no longer matches: " + (m.group(0)[:400].replace("\n", " ") if m else out[-400:]))
        return res
    blocks = re.split(r"^(?=Closed under the global context|Axioms:)", out, flags=re.M)
    blocks = [b for b in blocks if b.startswith("Closed under") or b.startswith("Axioms:")]
    if len(blocks) != len(names):
        res["failures"].append("expected %d Print Assumptions blocks, saw %d" % (len(names), len(blocks)))
        return res
    for name, b in zip(pinned, blocks):
        if b.startswith("Closed under"):
            res["axioms"][name] = []
            res["discharged"] += 1
        else:
            # the block also holds the header `Axioms:` and the output of the next `Check (<theorem> : ...)`
            ax = [a for a in re.findall(r"^([\w.']+)\s*:", b, re.M) if a != "Axioms" and a not in names]
            res["axioms"][name] = ax
            notok = [a for a in ax if a.split(".")[-1] not in ALLOWED_AXIOMS and a not in ALLOWED_AXIOMS]
            if notok:
                res["failures"].append("%s depends on non-allow-listed axioms %s" % (name, notok))
            else:
                res["discharged"] += 1
    if thorough and not res["failures"]:
        res["obligations"] += 1
        ok, ax, tail = coqchk_axioms(prop)
        res["coqchk_axioms"] = ax
        notok = [a for a in ax if a.split(".")[-1] not in ALLOWED_AXIOMS and a not in ALLOWED_AXIOMS]
        if not ok:
            res["failures"].append("coqchk did not accept Properties/%s.vo: %s" % (prop, tail.replace("\n", " ")[-300:]))
        elif notok:
            res["failures"].append("coqchk reports non-allow-listed axioms %s" % notok)
        else:
            res["discharged"] += 1
    return res


# ---------------------------------------------------------------- running cases

def _run_one(binary, path, n, timeout, extra_env=None):
    """Run binary on a case file with n lines; returns list of n result strings.  If the
    process dies (abort, stack overflow, timeout) the case it died on is marked and the
    remainder re-run."""
    results = [None] * n
    lines = open(path).read().split("\n")
    if lines and lines[-1] == "":
        lines.pop()
    start = 0
    while start < n:
        sub = path if start == 0 else path + ".rest"
        if start != 0:
            with open(sub, "w") as f:
                f.write("\n".join(lines[start:]) + "\n")
        t0 = time.time()
        try:
            p = subprocess.run([binary, sub], stdout=subprocess.PIPE, stderr=subprocess.DEVNULL,
                               timeout=timeout, env=dict(os.environ, **(extra_env or {})))
            out, rc = p.stdout, p.returncode
        except subprocess.TimeoutExpired as ex:
            out, rc = ex.stdout or b"", 124
        got = 0
        for ln in out.decode("utf-8", "replace").split("\n"):
            if "\t" not in ln:
                continue
            idx, r = ln.split("\t", 1)
            if idx.isdigit() and int(idx) == got and start + got < n:
                results[start + got] = r
                got += 1
        if start + got >= n:
            break
        # died on case start+got
        results[start + got] = "ABORT rc=%s%s" % (rc, " TIMEOUT" if rc == 124 else "")
        start = start + got + 1
    return results


def run_cases(binary, cases, tag, timeout=600, shards=None, extra_env=None):
    """Run `binary` over `cases` (list of lines) sharded over the cores; results in order."""
    os.makedirs(WORK, exist_ok=True)
    n = len(cases)
    if n == 0:
        return []
    k = shards or max(1, min(NPROC, n // 50 + 1))
    per = (n + k - 1) // k
    jobs = []
    for s in range(k):
        chunk = cases[s * per:(s + 1) * per]
        if not chunk:
            continue
        path = os.path.join(WORK, "%s.%d.cases" % (tag, s))
        with open(path, "w") as f:
            f.write("\n".join(chunk) + "\n")
        jobs.append((path, len(chunk)))
    with ThreadPoolExecutor(max_workers=NPROC) as ex:
        outs = list(ex.map(lambda j: _run_one(binary, j[0], j[1], timeout, extra_env), jobs))
    res = []
    for o in outs:
        res.extend(o)
    return res


# ---------------------------------------------------------------- S-expressions (python side)

def sx_parse(s):
    toks = re.findall(r"\(|\)|[^\s()]+", s)
    pos = 0

    def go():
        nonlocal pos
        t = toks[pos]
        pos += 1
        if t == "(":
            l = []
            while toks[pos] != ")":
                l.append(go())
            pos += 1
            return l
        return t
    v = go()
    return v


def sx_all(s):
    """parse a sequence of s-expressions 'a (b c) d' into a list"""
    return sx_parse("(" + s + ")")


def sx_str(v):
    if isinstance(v, list):
        return "(" + " ".join(sx_str(x) for x in v) + ")"
    return str(v)


def hexs(b):
    if isinstance(b, str):
        b = b.encode("utf-8")
    return "x" + bytes(b).hex()


def unhex(t):
    return bytes.fromhex(t[1:])


# ---------------------------------------------------------------- known findings

def load_known(prop):
    p = os.path.join(ROOT, "known_findings.json")
    if not os.path.exists(p):
        return []
    data = json.load(open(p))
    return [f for f in data.get("findings", []) if f.get("property") == prop and f.get("status") == "known"]


# ---------------------------------------------------------------- evidence / replay

def write_replay(prop, payload):
    d = os.path.join(ROOT, "evidence", "replay")
    os.makedirs(d, exist_ok=True)
    h = hashlib.sha1(json.dumps(payload, sort_keys=True).encode()).hexdigest()[:12]
    path = os.path.join(d, "%s-%s.json" % (prop, h))
    with open(path, "w") as f:
        json.dump(payload, f, indent=1)
    return path


def write_evidence(prop, ev):
    d = os.path.join(ROOT, "evidence")
    os.makedirs(d, exist_ok=True)
    with open(os.path.join(d, prop + ".json"), "w") as f:
        json.dump(ev, f, indent=1, sort_keys=True)
        f.write("\n")
