"""dev helper: run the C16 streams without the proof gate; python3 -m vp.dev_c16 [tier] [seed]"""
import random, sys, collections, time
from . import core
from .props import c16

def main():
    tier = sys.argv[1] if len(sys.argv) > 1 else "quick"
    seed = int(sys.argv[2]) if len(sys.argv) > 2 else 0
    rng = random.Random((seed, "C16", tier).__repr__())
    hbin = core.ROOT + "/harness/target/debug/vharness"
    mbin = core.ROOT + "/ocaml/bin/aot"
    for st in c16.streams(tier, rng):
        t0 = time.time()
        impl = core.run_cases(hbin, st.cases, "dev.impl")
        t1 = time.time()
        model = core.run_cases(mbin, st.cases, "dev.model")
        t2 = time.time()
        fam = collections.Counter()
        diffs = 0
        shown = 0
        kinds = collections.Counter()
        for c, r, m in zip(st.cases, impl, model):
            kinds[(r or "none").split(" ")[0][:12]] += 1
            fs = c16.failures(c, r)
            for f, msg in fs:
                fam[f] += 1
                if f is None and shown < 6:
                    shown += 1
                    print("  UNKNOWN:", msg[:600])
            o = c16.oracle(c, r)
            k = c16.classify_known(st.name, c, r, o) if o else None
            if c16.project(m) != c16.project(r):
                diffs += 1
                if diffs <= 3:
                    pm, pr = c16.project(m).split("\n"), c16.project(r).split("\n")
                    for a, b in zip(pm, pr):
                        if a != b:
                            print("  DIFF model:", a[:300]); print("       impl :", b[:300]); break
                    else:
                        print("  DIFF length", len(pm), len(pr), (m or "")[:100], (r or "")[:100])
        t3 = time.time()
        print(st.name, len(st.cases), "cases; result kinds", dict(kinds), "failures by family", dict(fam), "diffs", diffs,
              "impl %.1fs model %.1fs oracle %.1fs" % (t1 - t0, t2 - t1, t3 - t2))

main()
