#!/usr/bin/env python3
"""Developer tool for C18: run the streams on model and implementation, print disagreements and oracle failures."""
import random, sys, os, collections, time
sys.path.insert(0, os.path.dirname(os.path.dirname(os.path.abspath(__file__))))
from vp import core
from vp.props import c18

tier = sys.argv[1] if len(sys.argv) > 1 else "quick"
seed = int(sys.argv[2]) if len(sys.argv) > 2 else 1
rng = random.Random(seed)
hb = os.path.join(core.ROOT, "harness/target/debug/vharness")
mb = os.path.join(core.ROOT, "ocaml/bin/dynamic")
t0 = time.time()
for st in c18.streams(tier, rng):
    impl = core.run_cases(hb, st.cases, "dev18.impl")
    model = core.run_cases(mb, st.cases, "dev18.model")
    bad, fails = [], []
    kinds = collections.Counter()
    for c, i, m in zip(st.cases, impl, model):
        kinds[st.project(i).split(" ")[0]] += 1
        if st.project(i) != st.project(m):
            bad.append((c, i, m))
        f = st.oracle(c, i)
        if f:
            fails.append((c, i, f))
    print("stream", st.name, "cases", len(st.cases), "mismatches", len(bad), "oracle failures", len(fails), dict(kinds), "%.1fs" % (time.time() - t0))
    for c, i, m in sorted(bad, key=lambda t: len(t[0]))[:int(os.environ.get("SHOW", "3"))]:
        print("  DIFF CASE", c)
        print("    argv", [core.unhex(x) for x in core.sx_parse(c)[2][1:]], "index", core.sx_parse(c)[3])
        print("    impl ", st.project(i)[:600], [v for v, _ in c18.cands_of(c18.split_result(i)[0])])
        print("    model", st.project(m)[:600], [v for v, _ in c18.cands_of(c18.split_result(m)[0])])
    cat = collections.Counter(f[:60] for _, _, f in fails)
    for k, v in cat.most_common(8):
        print("  ", v, k)
    for c, i, f in sorted(fails, key=lambda t: len(t[0]))[:int(os.environ.get("SHOWF", "3"))]:
        print("  FAIL CASE", c)
        print("    argv", [core.unhex(x) for x in core.sx_parse(c)[2][1:]], "index", core.sx_parse(c)[3])
        print("    ", f)
        print("    impl", c18.split_result(i)[0][:300])
    if os.environ.get("COV"):
        for k, v in st.describe["state x word-shape"].items():
            print("     ", k, v)
