(** C11, fourth pass (1): histories that contain [build()].

    [Command::build] = [_build_recursive(true)] + [_build_bin_names_internal].  The second half sets the
    BinNameBuilt mark in every node it visits and gives bin / display names to the subcommands that have none,
    so the state after [build()] is not equal, as a record, to any lazily used state.  Here:

    - [clr] erases the marks (both setting words, every node); [agreem] = same normal form to every depth
      modulo the marks; [gmw_agreem] / [trace_agreem]: the parser result and the visited names depend on the
      command only through that (the mark is never read: [ReentrancyExt.shm_parse_loop], [post_rsm],
      [shm_assert_app] for arbitrary marks -- no axiom);
    - [norm_bbn] / [norm_sub_bbn]: on a tree built to the depth it walks, [_build_bin_names_internal] is
      absorbed by the normal form modulo the marks.  Display-name consistency: the loop names a slot from its
      parent's display name AS IT IS THEN; [_build_subcommand] later uses the parent's display name as it is
      then -- the two agree because every non-root parent was named by the loop before the loop descended into
      it ([name_bbn_disp]), and the root's display name is never set by either ([self_display_root_prep]);
    - the family of the recorded finding C11-help-tree-after-build, exactly: [help_family n b c] = some node
      of the lazily built tree (root and [n] levels) has the help subcommand enabled after [_build_self], i.e.
      gets an auto-generated `help` subcommand.  Complement [quiet_tree].  It is a function of the normal form
      and insensitive to the marks, hence an invariant of every history ([same_nf_quiet]).  Inside the
      complement [_build_self(true)] = [_build_self(false)] at every node ([expand_irrelevant_q]) and
      [_build_recursive(true)] preserves the normal form ([build_tree_normal_form_q]); the older sufficient
      condition [nohelp_tree] (disabled globally at every node of the definition) implies it ([nohelp_quiet]);
    - [history_independence_build]: for every definition outside the family at every depth, every finite
      history of parses (failing and mutating ones included), renders, clones AND [build()] calls under one
      program name: parser result, visited names and error of the next parse are the fresh ones. *)
From ClapModel Require Import Base.Bytes Base.Machine Base.Utf8.
From ClapModel Require Import Parse.Cmd Parse.Build Parse.Valid Parse.Matcher Parse.Errors Parse.Validator Parse.Parser.
From ClapModel Require Import ParseProofs.Dispatch.
From ClapModel Require Import Reentrancy.ReentrancyModel Reentrancy.ReentrancyProofs Reentrancy.ReentrancyParse Reentrancy.ReentrancyDym Reentrancy.ReentrancyBuild.
From Coq Require Import ZArith List Bool.
From RecordUpdate Require Import RecordSet.
Import RecordSetNotations ListNotations.
Open Scope N_scope.

(** * erasing the marks *)
Fixpoint clr (c : cmd) : cmd :=
  match c with
  | mkCmd n al sf lf sfa lfa args groups subs cset gset ver lver ext bin disp about labout =>
      mkCmd n al sf lf sfa lfa args groups
        ((fix go (l : list cmd) : list cmd := match l with [] => [] | s :: t => clr s :: go t end) subs)
        (setm false cset) (setm false gset) ver lver ext bin disp about labout
  end.
Lemma clr_unfold c : clr c = rsm c (map clr (c_subs c)) false false.
Proof.
  dc c. cbn [clr].
  assert (E : (fix go (l : list cmd) : list cmd := match l with [] => [] | s :: t => clr s :: go t end) subs = map clr subs).
  { induction subs as [|s t IH]; [reflexivity|]. cbn [map]. rewrite <- IH. reflexivity. }
  rewrite E. reflexivity.
Qed.
Definition own0 (c : cmd) : cmd := rsm c [] false false.
Lemma clr_eq X Y : own0 X = own0 Y -> map clr (c_subs X) = map clr (c_subs Y) -> clr X = clr Y.
Proof.
  intros H1 H2. rewrite !clr_unfold, H2.
  change (rs (own0 X) (map clr (c_subs Y)) = rs (own0 Y) (map clr (c_subs Y))). rewrite H1. reflexivity.
Qed.
Lemma clr_inv X Y : clr X = clr Y -> own0 X = own0 Y /\ map clr (c_subs X) = map clr (c_subs Y).
Proof.
  rewrite !clr_unfold. intros H. split.
  - apply (f_equal (fun c => rs c [])) in H. exact H.
  - apply (f_equal c_subs) in H. exact H.
Qed.
Lemma sig_clr s : sig (clr s) = sig s.
Proof. rewrite clr_unfold. dc s. reflexivity. Qed.
Lemma own0_rsm X Y : own0 X = own0 Y ->
  Y = rsm X (c_subs Y) (s_bin_name_built (c_set Y)) (s_bin_name_built (c_gset Y)).
Proof.
  unfold own0, rsm. intros H.
  destruct X as [n al sf lf sfa lfa args groups subs cset gset ver lver ext bin disp about labout].
  destruct Y as [n0 al0 sf0 lf0 sfa0 lfa0 args0 groups0 subs0 cset0 gset0 ver0 lver0 ext0 bin0 disp0 about0 labout0].
  destruct cset, gset, cset0, gset0. cbn in H. injection H. intros. subst. reflexivity.
Qed.

(** * agreement to every depth, modulo the marks *)
Definition agreem (c1 c2 : cmd) : Prop := forall n, clr (norm_children n c1) = clr (norm_children n c2).
Lemma agree_agreem c1 c2 : agree c1 c2 -> agreem c1 c2.
Proof. intros H n. rewrite (H n). reflexivity. Qed.

Definition kid_relm (c1 c2 s1 s2 : cmd) : Prop := sig s1 = sig s2 /\ agreem (prepare c1 s1) (prepare c2 s2).

Lemma agreem_inv c1 c2 : agreem c1 c2 ->
  (exists v v', c2 = rsm c1 (c_subs c2) v v') /\ map sig (c_subs c1) = map sig (c_subs c2)
  /\ Forall2 (kid_relm c1 c2) (c_subs c1) (c_subs c2).
Proof.
  intros Ha.
  assert (Hk : forall k, map (fun s => clr (norm_sub k c1 s)) (c_subs c1) = map (fun s => clr (norm_sub k c2 s)) (c_subs c2)).
  { intros k. destruct (clr_inv _ _ (Ha k)) as [_ H]. unfold norm_children in H.
    change (c_subs (c1 <| c_subs := map (norm_sub k c1) (c_subs c1) |>)) with (map (norm_sub k c1) (c_subs c1)) in H.
    change (c_subs (c2 <| c_subs := map (norm_sub k c2) (c_subs c2) |>)) with (map (norm_sub k c2) (c_subs c2)) in H.
    rewrite !map_map in H. exact H. }
  split; [|split].
  - destruct (clr_inv _ _ (Ha O)) as [H _]. exists (s_bin_name_built (c_set c2)), (s_bin_name_built (c_gset c2)).
    apply own0_rsm. exact H.
  - pose proof (Hk O) as H. apply (f_equal (map sig)) in H. rewrite !map_map in H.
    rewrite (map_ext _ sig (fun s => eq_trans (sig_clr _) (sig_norm_sub 0 c1 s))) in H.
    rewrite (map_ext _ sig (fun s => eq_trans (sig_clr _) (sig_norm_sub 0 c2 s))) in H. exact H.
  - apply map_eq_Forall2 in Hk.
    eapply Forall2_weaken; [|exact Hk]. intros s1 s2 H. split.
    + pose proof (H O) as E. apply (f_equal sig) in E. rewrite !sig_clr, !sig_norm_sub in E. exact E.
    + intros k. exact (H (S k)).
Qed.

Lemma agreem_own c1 c2 : agreem c1 c2 ->
  (exists v v', c2 = rsm c1 (c_subs c2) v v') /\ map sig (c_subs c1) = map sig (c_subs c2).
Proof. intros Ha. destruct (agreem_inv c1 c2 Ha) as (H1 & H2 & _). split; assumption. Qed.

Lemma kids_findm c1 c2 n : agreem c1 c2 ->
  (find_subcommand c1 n = None /\ find_subcommand c2 n = None)
  \/ (exists s1 s2, find_subcommand c1 n = Some s1 /\ find_subcommand c2 n = Some s2 /\ c_name s1 = c_name s2).
Proof.
  intros Ha. destruct (agreem_inv c1 c2 Ha) as (_ & _ & Hk). unfold find_subcommand.
  destruct (find_kids (kid_relm c1 c2) (fun s => aliases_to s n)
              ltac:(intros s1 s2 [Hs _]; revert Hs; generalize s1 s2; resp) _ _ Hk) as [H|(s1 & s2 & H1 & H2 & [Hs _])].
  - left. exact H.
  - right. exists s1, s2. repeat split; try assumption. apply sig_name, Hs.
Qed.
Lemma kids_buildm c1 c2 nm : agreem c1 c2 ->
  (build_subcommand c1 nm = None /\ build_subcommand c2 nm = None)
  \/ (exists k1 k2, build_subcommand c1 nm = Some k1 /\ build_subcommand c2 nm = Some k2 /\ agreem k1 k2).
Proof.
  intros Ha. destruct (agreem_inv c1 c2 Ha) as (_ & _ & Hk). rewrite !build_subcommand_prepare.
  destruct (find_kids (kid_relm c1 c2) (fun s => beq (c_name s) nm)
              ltac:(intros s1 s2 [Hs _]; rewrite (sig_name _ _ Hs); reflexivity) _ _ Hk) as [[H1 H2]|(s1 & s2 & H1 & H2 & [_ Hag])].
  - left. rewrite H1, H2. split; reflexivity.
  - right. exists (prepare c1 s1), (prepare c2 s2). rewrite H1, H2. repeat split. exact Hag.
Qed.

Lemma help_walk_agreem : forall names c1 c2, agreem c1 c2 -> help_walk c1 names = help_walk c2 names.
Proof.
  induction names as [|n rest IH]; intros c1 c2 Ha; destruct (agreem_own c1 c2 Ha) as [(v & v' & Hown) _].
  - cbn [help_walk]. rewrite Hown. reflexivity.
  - cbn [help_walk].
    destruct (kids_findm c1 c2 n Ha) as [[H1 H2]|(s1 & s2 & H1 & H2 & Hn)]; rewrite H1, H2.
    + rewrite Hown. reflexivity.
    + rewrite Hn. destruct (kids_buildm c1 c2 (c_name s2) Ha) as [[B1 B2]|(k1 & k2 & B1 & B2 & Hk)]; rewrite B1, B2.
      * rewrite Hown. reflexivity.
      * apply IH, Hk.
Qed.
Lemma assert_app_agreem c1 c2 : agreem c1 c2 -> assert_app c1 = assert_app c2.
Proof. intros Ha. destruct (agreem_own c1 c2 Ha) as [(v & v' & Hown) Hs]. rewrite Hown. symmetry. apply shm_assert_app, Hs. Qed.

Theorem gmw_agreem : forall fuel c1 c2 toks st, agreem c1 c2 ->
  get_matches_with fuel c1 toks st = get_matches_with fuel c2 toks st.
Proof.
  induction fuel as [|f IH]; intros c1 c2 toks st Ha; [reflexivity|].
  destruct (agreem_own c1 c2 Ha) as [(v & v' & Hown) Hs].
  rewrite !gmw_unfold.
  assert (F : forall P, post c2 P = post c1 P) by (intros P; rewrite Hown; apply post_rsm).
  rewrite F. f_equal. unfold parsed_of. apply rbind_cong.
  { rewrite Hown. symmetry. apply shm_parse_loop, Hs. }
  intros lr.
  destruct lr as [st1|name keep vaf st1 rest|name vals st1|names st1].
  - reflexivity.
  - unfold after_sub.
    replace (is_set s_args_negate_subs c2) with (is_set s_args_negate_subs c1) by (rewrite Hown; reflexivity).
    destruct (is_set s_args_negate_subs c1 && vaf); [rewrite Hown; reflexivity|].
    destruct (kids_findm c1 c2 name Ha) as [[H1 H2]|(s1 & s2 & H1 & H2 & Hn)]; rewrite H1, H2; cbn [expect rbind]; [reflexivity|].
    rewrite Hn.
    destruct (kids_buildm c1 c2 (c_name s2) Ha) as [[B1 B2]|(k1 & k2 & B1 & B2 & Hk)]; rewrite B1, B2; [reflexivity|].
    rewrite (assert_app_agreem k1 k2 Hk). destruct (assert_app k2); cbn [negb]; [|reflexivity].
    rewrite (IH k1 k2 _ _ Hk).
    destruct (agreem_own k1 k2 Hk) as [(w & w' & Hkown) _].
    replace (c_name k2) with (c_name k1) by (rewrite Hkown; reflexivity).
    replace (is_set s_ignore_errors c2) with (is_set s_ignore_errors c1) by (rewrite Hown; reflexivity).
    reflexivity.
  - rewrite Hown. reflexivity.
  - rewrite (help_walk_agreem names c1 c2 Ha). reflexivity.
Qed.

Lemma visit_names_agreem c1 c2 : agreem c1 c2 -> visit_names (VNode c1) = visit_names (VNode c2).
Proof. intros Ha. destruct (agreem_own c1 c2 Ha) as [(v & v' & Hown) _]. rewrite Hown. dc c1; reflexivity. Qed.
Lemma visit_names_help_agreem c1 c2 : agreem c1 c2 -> visit_names (VHelp c1) = visit_names (VHelp c2).
Proof. intros Ha. destruct (agreem_own c1 c2 Ha) as [(v & v' & Hown) _]. rewrite Hown. dc c1; reflexivity. Qed.
Lemma help_trace_agreem : forall names c1 c2, agreem c1 c2 ->
  map visit_names (help_trace c1 names) = map visit_names (help_trace c2 names).
Proof.
  induction names as [|n rest IH]; intros c1 c2 Ha; [reflexivity|]. cbn [help_trace].
  destruct (kids_findm c1 c2 n Ha) as [[H1 H2]|(s1 & s2 & H1 & H2 & Hn)]; rewrite H1, H2; [reflexivity|].
  rewrite Hn. destruct (kids_buildm c1 c2 (c_name s2) Ha) as [[B1 B2]|(k1 & k2 & B1 & B2 & Hk)]; rewrite B1, B2; [reflexivity|].
  cbn [map]. rewrite (visit_names_help_agreem k1 k2 Hk), (IH k1 k2 Hk). reflexivity.
Qed.
Theorem trace_agreem : forall fuel c1 c2 toks st, agreem c1 c2 ->
  map visit_names (parse_trace fuel c1 toks st) = map visit_names (parse_trace fuel c2 toks st).
Proof.
  induction fuel as [|f IH]; intros c1 c2 toks st Ha; cbn [parse_trace map]; rewrite (visit_names_agreem c1 c2 Ha); [reflexivity|].
  f_equal. destruct (agreem_own c1 c2 Ha) as [(v & v' & Hown) Hs].
  rewrite Hown at 1. rewrite (shm_parse_loop c1 (c_subs c2) v v' Hs).
  destruct (parse_loop c1 toks (mkL PSValuesDone 1 false false) st) as [lr|e st'|s]; [|reflexivity|reflexivity].
  destruct lr as [st1|name keep vaf st1 rest|name vals st1|names st1]; [reflexivity| |reflexivity|].
  - replace (is_set s_args_negate_subs c2) with (is_set s_args_negate_subs c1) by (rewrite Hown; reflexivity).
    destruct (is_set s_args_negate_subs c1 && vaf); [reflexivity|].
    destruct (kids_findm c1 c2 name Ha) as [[H1 H2]|(s1 & s2 & H1 & H2 & Hn)]; rewrite H1, H2; [reflexivity|].
    rewrite Hn.
    destruct (kids_buildm c1 c2 (c_name s2) Ha) as [[B1 B2]|(k1 & k2 & B1 & B2 & Hk)]; rewrite B1, B2; [reflexivity|].
    apply IH, Hk.
  - apply help_trace_agreem, Ha.
Qed.

(** * [_build_bin_names_internal] is absorbed by the normal form modulo the marks *)
(** what the loop of [_build_bin_names_internal] does to a slot before it recurses: bin name if unset
    (from the parent's bin name or name), display name if unset (from the parent's display name or name) *)
Definition name_bbn (q sc : cmd) : cmd :=
  set_display_if_none q
    (match c_bin_name sc with
     | Some _ => sc
     | None => sc <| c_bin_name := Some (join_name (opt_default (c_name q) (c_bin_name q)) (c_name sc)) |> end).
Definition mark_set (c : cmd) : cmd := c <| c_set := (c_set c) <| s_bin_name_built := true |> |>.
Lemma build_bin_names_unfold f c :
  build_bin_names (S f) c =
  if is_set s_bin_name_built c then c
  else mark_set (c <| c_subs := map (fun sc => build_bin_names f (name_bbn c sc)) (c_subs c) |>).
Proof. reflexivity. Qed.

Lemma name_bbn_U q x : exists v w, name_bbn q x = U v w x /\ w <> None
  /\ w = match c_display_name x with Some d => Some d | None => Some (join_display (self_display q) (c_name x)) end.
Proof.
  unfold name_bbn, set_display_if_none.
  destruct (c_bin_name x) eqn:Eb; destruct (c_display_name x) eqn:Ed.
  - exists (c_bin_name x), (c_display_name x). rewrite U_eta, Ed. repeat split; discriminate.
  - exists (c_bin_name x), (Some (join_display (self_display q) (c_name x))).
    split; [|split; [discriminate|reflexivity]]. dc x. cbn in *. subst. reflexivity.
  - change (c_display_name (x <| c_bin_name := Some (join_name (opt_default (c_name q) (c_bin_name q)) (c_name x)) |>)) with (c_display_name x). rewrite Ed.
    exists (Some (join_name (opt_default (c_name q) (c_bin_name q)) (c_name x))), (Some b).
    split; [|split; [discriminate|reflexivity]]. dc x. cbn in *. subst. reflexivity.
  - change (c_display_name (x <| c_bin_name := Some (join_name (opt_default (c_name q) (c_bin_name q)) (c_name x)) |>)) with (c_display_name x). rewrite Ed.
    exists (Some (join_name (opt_default (c_name q) (c_bin_name q)) (c_name x))), (Some (join_display (self_display q) (c_name x))).
    split; [|split; [discriminate|reflexivity]]. dc x. cbn in *. subst. reflexivity.
Qed.

(** names given beforehand are absorbed by [_build_subcommand] when the display names are consistent *)
Lemma prepare_name_bbn p q x : self_display q = self_display p -> prepare p (name_bbn q x) = prepare p x.
Proof.
  intros Hd. destruct (name_bbn_U q x) as (v & w & E & Hw & Ew). rewrite E, !prepare_U, names_commute_with_build, U_U.
  assert (E1 : sub_bin p (U v w x) = sub_bin p x) by (apply sub_bin_name; dc x; reflexivity).
  assert (E2 : new_disp p (U v w x) = new_disp p x).
  { unfold new_disp. change (c_display_name (U v w x)) with w. change (c_name (U v w x)) with (c_name x).
    rewrite Ew, Hd. destruct (c_display_name x); reflexivity. }
  rewrite E1, E2. reflexivity.
Qed.
Lemma norm_sub_name_bbn n p q x : self_display q = self_display p -> norm_sub n p (name_bbn q x) = norm_sub n p x.
Proof. intros Hd. destruct n; cbn [norm_sub]; rewrite (prepare_name_bbn p q x Hd); reflexivity. Qed.
Lemma built_to_name_bbn f q x : built_to f x -> built_to f (name_bbn q x).
Proof.
  intros H. destruct (name_bbn_U q x) as (v & w & E & _). rewrite E. destruct f; [exact I|]. destruct H as [H1 H2].
  split; [dc x; exact H1 | dc x; exact H2].
Qed.
Lemma name_bbn_disp q x : c_display_name (name_bbn q x) <> None.
Proof. destruct (name_bbn_U q x) as (v & w & E & Hw & _). rewrite E. dc x. exact Hw. Qed.

Lemma same_names_own0 X Y : own0 X = own0 Y -> same_names X Y.
Proof.
  intros H. split; [|split].
  - exact (f_equal c_name H).
  - exact (f_equal c_bin_name H).
  - exact (f_equal c_display_name H).
Qed.
Lemma self_display_prepare p y : c_display_name y <> None -> self_display y = self_display (prepare p y).
Proof.
  intros Hd. unfold self_display. rewrite prepare_name, prepare_disp. unfold new_disp.
  destruct (c_display_name y); [reflexivity|congruence].
Qed.

Lemma norm_sub_bbn : forall f n p y,
  built_to f y -> c_display_name y <> None ->
  clr (norm_sub n p (build_bin_names f y)) = clr (norm_sub n p y).
Proof.
  induction f as [|f IH]; intros n p y Hb Hd; [reflexivity|].
  rewrite build_bin_names_unfold. destruct (is_set s_bin_name_built y); [reflexivity|].
  destruct Hb as [Hb Hs].
  set (g := fun sc => build_bin_names f (name_bbn y sc)).
  set (y' := mark_set (y <| c_subs := map g (c_subs y) |>)).
  assert (Hb' : s_built (c_set y') = true) by exact Hb.
  rewrite (norm_sub_unfold_built n p y' Hb'), (norm_sub_unfold_built n p y Hb).
  assert (Ep : own0 (prepare p y') = own0 (prepare p y)).
  { rewrite !prepare_U, (build_self_fix y' Hb'), (build_self_fix y Hb). reflexivity. }
  destruct n as [|k].
  - apply clr_eq; [exact Ep | reflexivity].
  - apply clr_eq; [exact Ep|].
    change (map clr (map (norm_sub k (prepare p y')) (map g (c_subs y))) = map clr (map (norm_sub k (prepare p y)) (c_subs y))).
    rewrite !map_map. apply map_ext_in. intros s Hin.
    rewrite (norm_sub_ext k (prepare p y') (prepare p y) _ (same_names_own0 _ _ Ep)).
    unfold g. rewrite IH.
    + rewrite norm_sub_name_bbn; [reflexivity|]. apply self_display_prepare, Hd.
    + apply built_to_name_bbn. rewrite Forall_forall in Hs. exact (Hs s Hin).
    + apply name_bbn_disp.
Qed.

Lemma root_named_names b y : c_name (root_named b y) = c_name y /\ c_display_name (root_named b y) = c_display_name y.
Proof. unfold root_named. destruct (is_set s_no_binary_name y); [split; reflexivity|]. destruct (c_bin_name y); split; reflexivity. Qed.
Lemma self_display_root_prep b y : self_display y = self_display (root_prep b y).
Proof.
  unfold self_display. rewrite root_prep_eq, build_self_name, build_self_disp.
  destruct (root_named_names b y) as [-> ->]. reflexivity.
Qed.

Lemma root_prep_marked b y L :
  s_built (c_set y) = true ->
  root_prep b (mark_set (y <| c_subs := L |>)) = mark_set ((root_prep b y) <| c_subs := L |>).
Proof.
  intros Hb. rewrite !root_prep_eq. unfold root_named.
  change (is_set s_no_binary_name (mark_set (y <| c_subs := L |>))) with (is_set s_no_binary_name y).
  change (c_bin_name (mark_set (y <| c_subs := L |>))) with (c_bin_name y).
  destruct (is_set s_no_binary_name y).
  - rewrite (build_self_fix y Hb). apply build_self_fix. exact Hb.
  - destruct (c_bin_name y).
    + rewrite (build_self_fix y Hb). apply build_self_fix. exact Hb.
    + rewrite !build_self_fix by (dc y; exact Hb). dc y; reflexivity.
Qed.

Theorem norm_bbn f n b y : built_to f y -> clr (norm n b (build_bin_names f y)) = clr (norm n b y).
Proof.
  intros Hb. destruct f as [|f]; [reflexivity|].
  rewrite build_bin_names_unfold. destruct (is_set s_bin_name_built y); [reflexivity|].
  destruct Hb as [Hb Hs].
  set (g := fun sc => build_bin_names f (name_bbn y sc)).
  unfold norm. rewrite (root_prep_marked b y (map g (c_subs y)) Hb).
  set (R := root_prep b y).
  set (R' := mark_set (R <| c_subs := map g (c_subs y) |>)).
  assert (Ep : own0 R' = own0 R) by reflexivity.
  unfold norm_children. apply clr_eq; [reflexivity|].
  change (map clr (map (norm_sub n R') (map g (c_subs y))) = map clr (map (norm_sub n R) (c_subs R))).
  replace (c_subs R) with (c_subs y) by (symmetry; apply root_prep_subs_built, Hb).
  rewrite !map_map. apply map_ext_in. intros s Hin.
  rewrite (norm_sub_ext n R' R _ (same_names_own0 _ _ Ep)).
  unfold g. rewrite norm_sub_bbn.
  - rewrite norm_sub_name_bbn; [reflexivity|]. apply self_display_root_prep.
  - apply built_to_name_bbn. rewrite Forall_forall in Hs. exact (Hs s Hin).
  - apply name_bbn_disp.
Qed.

(** * the family of the recorded finding, exactly: a node that gets an auto-generated help subcommand *)
(** on a tree in normal form: no node down to depth [n] has the help subcommand enabled *)
Fixpoint qn (n : nat) (x : cmd) : bool :=
  is_set s_disable_help_sub x && match n with O => true | S k => forallb (qn k) (c_subs x) end.
(** [norm m] has the root and [m] more levels; [qn n] looks at the root and [n] levels below it *)
Definition quiet_tree (n : nat) (b : bytes) (c : cmd) : bool := qn n (norm (Nat.pred n) b c).
Definition help_family (n : nat) (b : bytes) (c : cmd) : bool := negb (quiet_tree n b c).

Lemma dhs_mark c : is_set s_disable_help_sub (bs_mark c) = is_set s_disable_help_sub c. Proof. reflexivity. Qed.
Lemma dhs_deprecated c : is_set s_disable_help_sub (bs_deprecated c) = is_set s_disable_help_sub c. Proof. reflexivity. Qed.
Lemma dhs_args c : is_set s_disable_help_sub (bs_args c) = is_set s_disable_help_sub c. Proof. reflexivity. Qed.
Lemma dhs_globals c : is_set s_disable_help_sub (bs_globals c) = is_set s_disable_help_sub c. Proof. reflexivity. Qed.
Lemma dhs_hv3 c : is_set s_disable_help_sub (hv3 c) = is_set s_disable_help_sub c.
Proof. unfold hv3. destruct (negb (is_set s_disable_help_sub c)); reflexivity. Qed.
Lemma dhs_build_self c : s_built (c_set c) = false ->
  is_set s_disable_help_sub (build_self c) = is_set s_disable_help_sub (hv2 (hv1 (bs_propagate (bs_settings c)))).
Proof.
  intros Hb. unfold build_self. rewrite Hb.
  rewrite dhs_mark, dhs_deprecated, dhs_args, dhs_globals, bs_hv_eq, dhs_hv3. reflexivity.
Qed.
Theorem expand_irrelevant_q c : is_set s_disable_help_sub (build_self c) = true -> build_self_x true c = build_self c.
Proof.
  intros H. destruct (s_built (c_set c)) eqn:Hb; [rewrite build_self_x_fix, build_self_fix by exact Hb; reflexivity|].
  rewrite (dhs_build_self c Hb) in H.
  unfold build_self_x, build_self. rewrite Hb.
  rewrite hv_t_unfold, bs_hv_eq. unfold hv3. rewrite H. reflexivity.
Qed.
(** and conversely: where the help subcommand is enabled the two differ (the expanded help subcommand has
    no [subcommand] argument, the lazy one has) -- the family is exact at the level of a node *)

Lemma dhs_U v w c : is_set s_disable_help_sub (U v w c) = is_set s_disable_help_sub c.
Proof. dc c; reflexivity. Qed.
Lemma dhs_prepare p sc : is_set s_disable_help_sub (prepare p sc) = is_set s_disable_help_sub (build_self sc).
Proof. rewrite prepare_U. apply dhs_U. Qed.
Lemma subs_prepare p sc : c_subs (prepare p sc) = c_subs (build_self sc).
Proof. rewrite prepare_U. dc (build_self sc); reflexivity. Qed.

Lemma qn_norm_sub_root f p sc : qn f (norm_sub f p sc) = true -> is_set s_disable_help_sub (build_self sc) = true.
Proof.
  intros H. rewrite <- (dhs_prepare p sc).
  destruct f; cbn [norm_sub qn] in H; apply andb_prop in H; destruct H as [H _]; exact H.
Qed.
Lemma qn_norm_sub_kids f p sc s :
  qn (S f) (norm_sub (S f) p sc) = true -> In s (c_subs (build_self sc)) -> qn f (norm_sub f (prepare p sc) s) = true.
Proof.
  intros H Hin. cbn [norm_sub qn] in H. apply andb_prop in H. destruct H as [_ H].
  change (c_subs ((prepare p sc) <| c_subs := map (norm_sub f (prepare p sc)) (c_subs (prepare p sc)) |>))
    with (map (norm_sub f (prepare p sc)) (c_subs (prepare p sc))) in H.
  rewrite subs_prepare in H. rewrite forallb_forall in H. apply H. apply in_map, Hin.
Qed.

Theorem norm_sub_build_recursive_q : forall n f e p sc,
  (e = true -> qn f (norm_sub f p sc) = true) ->
  norm_sub n p (build_recursive_x f e sc) = norm_sub n p sc.
Proof.
  induction n as [|k IH]; intros f e p sc He; (destruct f as [|f']; [reflexivity|]); cbn [build_recursive_x].
  - assert (Hx : build_self_x e sc = build_self sc).
    { destruct e; [|reflexivity]. apply expand_irrelevant_q. apply (qn_norm_sub_root (S f') p). apply He. reflexivity. }
    rewrite (norm_sub_set_subs_built 0 p (build_self_x e sc) _ (build_self_x_built e sc)).
    rewrite <- (norm_sub_unfold_built 0 p (build_self_x e sc) (build_self_x_built e sc)).
    rewrite Hx. apply norm_sub_build_self.
  - assert (Hx : build_self_x e sc = build_self sc).
    { destruct e; [|reflexivity]. apply expand_irrelevant_q. apply (qn_norm_sub_root (S f') p). apply He. reflexivity. }
    rewrite (norm_sub_set_subs_built (S k) p (build_self_x e sc) _ (build_self_x_built e sc)).
    rewrite Hx. rewrite <- (norm_sub_build_self (S k) p sc).
    rewrite (norm_sub_unfold_built (S k) p (build_self sc) (build_self_built sc)).
    apply set_subs_eq. rewrite map_map. apply map_ext_in. intros s Hin. rewrite prepare_build_self. apply IH.
    intros E. apply qn_norm_sub_kids; [apply He, E | exact Hin].
Qed.

Theorem build_tree_normal_form_q n b f e c :
  (e = true -> quiet_tree f b c = true) ->
  norm n b (build_recursive_x f e c) = norm n b c.
Proof.
  intros He. destruct f as [|f']; [reflexivity|]. cbn [build_recursive_x].
  assert (Hq : e = true -> is_set s_disable_help_sub (root_prep b c) = true
                           /\ forallb (qn f') (map (norm_sub f' (root_prep b c)) (c_subs (root_prep b c))) = true).
  { intros E. specialize (He E). unfold quiet_tree, norm, norm_children in He. cbn [qn Nat.pred] in He.
    apply andb_prop in He. exact He. }
  assert (Hx : build_self_x e c = build_self c).
  { destruct e; [|reflexivity]. apply expand_irrelevant_q. destruct (Hq eq_refl) as [H _].
    rewrite root_prep_eq in H. unfold root_named in H.
    destruct (is_set s_no_binary_name c); [exact H|]. destruct (c_bin_name c); [exact H|].
    rewrite build_self_set_bin in H. exact H. }
  rewrite Hx. unfold norm.
  rewrite (root_prep_set_subs_built b (build_self c) _ (build_self_built c)), root_prep_build_self.
  rewrite norm_children_set_subs. unfold norm_children. apply set_subs_eq.
  rewrite map_map.
  assert (Hsubs : c_subs (root_prep b c) = c_subs (build_self c)).
  { rewrite <- (root_prep_build_self b c). apply root_prep_subs_built, build_self_built. }
  rewrite Hsubs. apply map_ext_in. intros s Hin. apply norm_sub_build_recursive_q.
  intros E. destruct (Hq E) as [_ H]. rewrite Hsubs, forallb_forall in H. apply H, in_map, Hin.
Qed.

(** * histories that contain [build()] *)
Lemma dhs_clr x : is_set s_disable_help_sub (clr x) = is_set s_disable_help_sub x.
Proof. rewrite clr_unfold. reflexivity. Qed.
Lemma forallb_ext_in {A} (f g : A -> bool) l : (forall x, In x l -> f x = g x) -> forallb f l = forallb g l.
Proof.
  induction l as [|a t IH]; intros H; [reflexivity|]. cbn [forallb].
  rewrite (H a (or_introl eq_refl)), IH; [reflexivity|]. intros x Hx. apply H. right. exact Hx.
Qed.
Lemma forallb_map' {A B} (f : A -> B) (p : B -> bool) l : forallb p (map f l) = forallb (fun x => p (f x)) l.
Proof. induction l as [|a t IH]; [reflexivity|]. cbn [map forallb]. rewrite IH. reflexivity. Qed.
Lemma qn_clr : forall n x, qn n (clr x) = qn n x.
Proof.
  induction n as [|k IH]; intros x; cbn [qn]; rewrite dhs_clr; [reflexivity|]. f_equal.
  rewrite (clr_unfold x). change (c_subs (rsm x (map clr (c_subs x)) false false)) with (map clr (c_subs x)).
  rewrite forallb_map'. apply forallb_ext_in. intros s _. apply IH.
Qed.

(** the state after a history: same normal form as the fresh definition, modulo the marks *)
Definition same_nf (b : bytes) (s c : cmd) : Prop := forall n, clr (norm n b s) = clr (norm n b c).
Lemma same_nf_quiet b s c k : same_nf b s c -> quiet_tree k b s = quiet_tree k b c.
Proof. intros H. unfold quiet_tree. rewrite <- (qn_clr k (norm _ b s)), (H (Nat.pred k)), qn_clr. reflexivity. Qed.

Theorem build_op_normal_form n b f s :
  quiet_tree f b s = true -> clr (norm n b (build_op_with f s)) = clr (norm n b s).
Proof.
  intros Hq. unfold build_op_with.
  rewrite (norm_bbn f n b _ (build_recursive_x_built_to f true s)).
  rewrite (build_tree_normal_form_q n b f true s (fun _ => Hq)). reflexivity.
Qed.

Fixpoint xhist_okb (b : bytes) (c : cmd) (h : list xop) : bool :=
  match h with
  | [] => true
  | x :: t => xop_under b c x && xhist_okb b (fst (xstep c x)) t
  end.

Lemma xstep_same_nf b c s x :
  good_name b = true -> (forall k, quiet_tree k b c = true) -> same_nf b s c -> xop_under b s x = true ->
  same_nf b (fst (xstep s x)) c.
Proof.
  intros Hg Hq Hs Hu n. destruct (xis_build x) eqn:Hb.
  - destruct x as [fires argv|o]; [discriminate|]. destruct o; try discriminate.
    cbn [xstep step fst]. unfold build_op. rewrite build_op_normal_form; [apply Hs|].
    rewrite (same_nf_quiet b s c _ Hs). apply Hq.
  - rewrite (xstep_normal_form n b s x Hg Hu Hb). apply Hs.
Qed.

Theorem xhistory_normal_form_build : forall h b c s,
  good_name b = true -> (forall k, quiet_tree k b c = true) -> same_nf b s c -> xhist_okb b s h = true ->
  same_nf b (xrun s h) c.
Proof.
  induction h as [|x t IH]; intros b c s Hg Hq Hs H; [exact Hs|].
  cbn [xhist_okb] in H. apply andb_prop in H. destruct H as [Hu Ht].
  cbn [xrun]. apply (IH b c _ Hg Hq); [|exact Ht]. apply xstep_same_nf; assumption.
Qed.

(** NoBinaryName is stable, [build()] included *)
Lemma nbn_hv_t : forall c, is_set s_no_binary_name (bs_help_version_t c) = is_set s_no_binary_name c.
Proof.
  intros c. rewrite hv_t_unfold. destruct (negb (is_set s_disable_help_sub (hv2 (hv1 c)))).
  - transitivity (is_set s_no_binary_name (hv2 (hv1 c))); [reflexivity|]. rewrite nbn_hv2, nbn_hv1. reflexivity.
  - rewrite nbn_hv2, nbn_hv1. reflexivity.
Qed.
Lemma build_self_x_nbn e c : is_set s_no_binary_name (build_self_x e c) = is_set s_no_binary_name c.
Proof.
  destruct e; [|apply build_self_nbn]. unfold build_self_x. destruct (s_built (c_set c)); [reflexivity|].
  rewrite nbn_mark, nbn_deprecated, nbn_args, nbn_globals, nbn_hv_t, nbn_propagate.
  rewrite bs_settings_eq, nbn_st4, nbn_st3, nbn_st2, nbn_st1. reflexivity.
Qed.
Lemma build_op_with_nbn f c : is_set s_no_binary_name (build_op_with f c) = is_set s_no_binary_name c.
Proof.
  unfold build_op_with. transitivity (is_set s_no_binary_name (build_recursive_x f true c)).
  - destruct f; [reflexivity|]. rewrite build_bin_names_unfold.
    destruct (is_set s_bin_name_built (build_recursive_x (S f) true c)); reflexivity.
  - destruct f; [reflexivity|]. cbn [build_recursive_x].
    transitivity (is_set s_no_binary_name (build_self_x true c)); [reflexivity|]. apply build_self_x_nbn.
Qed.
Lemma xstep_nbn_b c x : is_set s_no_binary_name (fst (xstep c x)) = is_set s_no_binary_name c.
Proof.
  destruct (xis_build x) eqn:Hb; [|apply xstep_nbn, Hb].
  destruct x as [fires argv|o]; [discriminate|]. destruct o; try discriminate. apply build_op_with_nbn.
Qed.
Lemma xrun_nbn_b : forall h c, is_set s_no_binary_name (xrun c h) = is_set s_no_binary_name c.
Proof. induction h as [|x t IH]; intros c; [reflexivity|]. cbn [xrun]. rewrite IH. apply xstep_nbn_b. Qed.

(** independence of the next parse from a state with the fresh normal form modulo the marks *)
Theorem independence_of_norm_m X b c argv :
  good_name b = true -> same_nf b X c ->
  is_set s_no_binary_name X = is_set s_no_binary_name c ->
  argv_under b X argv = true -> argv_under b c argv = true ->
  parse_result X argv = parse_result c argv
  /\ parse_names X argv = parse_names c argv
  /\ err_of (fst (fst (parse_mut X argv))) = err_of (fst (fst (parse_mut c argv))).
Proof.
  intros Hg Hn Hnbn Hu1 Hu2.
  assert (Ha : agreem (root_prep b X) (root_prep b c)) by (intros n; exact (Hn n)).
  pose proof (set_bin_under b X argv Hg Hu1) as E1. pose proof (set_bin_under b c argv Hg Hu2) as E2.
  pose proof (set_bin_toks X c argv Hnbn) as Et.
  assert (R : parse_result X argv = parse_result c argv).
  { unfold parse_result. destruct (set_bin X argv) as [s1 t1]. destruct (set_bin c argv) as [s2 t2].
    cbn [fst snd] in *. subst t2. rewrite E1, E2. apply gmw_agreem, Ha. }
  split; [exact R|]. split.
  - unfold parse_names. destruct (set_bin X argv) as [s1 t1]. destruct (set_bin c argv) as [s2 t2].
    cbn [fst snd] in *. subst t2. rewrite E1, E2. apply trace_agreem, Ha.
  - rewrite !parse_mut_err, R, E1, E2.
    destruct (agreem_own _ _ Ha) as [(v & v' & Hown) _].
    replace (is_set s_ignore_errors (root_prep b X)) with (is_set s_ignore_errors (root_prep b c)); [reflexivity|].
    rewrite Hown. reflexivity.
Qed.

(** history independence for histories that may contain [build()], outside the family of the finding *)
Theorem history_independence_build : forall h b c argv,
  good_name b = true -> (forall k, quiet_tree k b c = true) -> xhist_okb b c h = true ->
  argv_under b (xrun c h) argv = true -> argv_under b c argv = true ->
  parse_result (xrun c h) argv = parse_result c argv
  /\ parse_names (xrun c h) argv = parse_names c argv
  /\ err_of (fst (fst (parse_mut (xrun c h) argv))) = err_of (fst (fst (parse_mut c argv))).
Proof.
  intros h b c argv Hg Hq Hh Hu1 Hu2.
  apply (independence_of_norm_m (xrun c h) b c argv Hg); try assumption.
  - apply (xhistory_normal_form_build h b c c Hg Hq); [intros n; reflexivity | exact Hh].
  - apply xrun_nbn_b.
Qed.

(** * the class is inhabited for every depth: a sufficient condition on the definition
    (help subcommand disabled globally at every node, [ReentrancyBuild.nohelp_tree]) *)
Lemma dhs_gset_build_self c : s_disable_help_sub (c_gset c) = true -> is_set s_disable_help_sub (build_self c) = true.
Proof.
  intros H. destruct (s_built (c_set c)) eqn:Hb.
  - rewrite (build_self_fix c Hb). unfold is_set. rewrite H. apply orb_true_r.
  - rewrite (dhs_build_self c Hb). apply dhs_hv21. rewrite gset_pre. exact H.
Qed.
Lemma nohelp_qn : forall k p c, nohelp_tree k c = true -> qn k (norm_sub k p c) = true.
Proof.
  induction k as [|k IH]; intros p c H; cbn [norm_sub qn].
  - rewrite andb_true_r. change (is_set s_disable_help_sub ((prepare p c) <| c_subs := [] |>)) with (is_set s_disable_help_sub (prepare p c)).
    rewrite dhs_prepare. apply dhs_gset_build_self, (nohelp_tree_root _ _ H).
  - apply andb_true_intro. split.
    + change (is_set s_disable_help_sub (prepare p c) = true). rewrite dhs_prepare. apply dhs_gset_build_self, (nohelp_tree_root _ _ H).
    + change (forallb (qn k) (map (norm_sub k (prepare p c)) (c_subs (prepare p c))) = true).
      rewrite subs_prepare, forallb_map'. apply forallb_forall. intros s Hin. apply IH.
      pose proof (nohelp_built_subs k c H) as Hall. rewrite Forall_forall in Hall. exact (Hall s Hin).
Qed.
Lemma nohelp_root_named k b c : nohelp_tree k c = true -> nohelp_tree k (root_named b c) = true.
Proof.
  intros H. unfold root_named. destruct (is_set s_no_binary_name c); [exact H|]. destruct (c_bin_name c); [exact H|].
  apply (nohelp_tree_top_change k c); [apply (nohelp_tree_root _ _ H) | reflexivity | exact H].
Qed.
Theorem nohelp_quiet k b c : nohelp_tree k c = true -> quiet_tree k b c = true.
Proof.
  intros H. unfold quiet_tree, norm, norm_children. pose proof (nohelp_root_named k b c H) as Hr.
  destruct k as [|k]; cbn [qn Nat.pred].
  - rewrite andb_true_r. change (is_set s_disable_help_sub (root_prep b c) = true).
    rewrite root_prep_eq. apply dhs_gset_build_self, (nohelp_tree_root _ _ Hr).
  - apply andb_true_intro. split.
    + change (is_set s_disable_help_sub (root_prep b c) = true).
      rewrite root_prep_eq. apply dhs_gset_build_self, (nohelp_tree_root _ _ Hr).
    + change (forallb (qn k) (map (norm_sub k (root_prep b c)) (c_subs (root_prep b c))) = true).
      rewrite forallb_map'. apply forallb_forall. intros s Hin. apply nohelp_qn.
      rewrite root_prep_eq in Hin.
      pose proof (nohelp_built_subs k _ Hr) as Hall. rewrite Forall_forall in Hall. exact (Hall s Hin).
Qed.

(** the condition for every depth, as one boolean on the definition *)
Fixpoint nohelp_all (c : cmd) : bool :=
  match c with
  | mkCmd _ _ _ _ _ _ _ _ subs _ gset _ _ _ _ _ _ _ =>
      s_disable_help_sub gset
      && (fix go (l : list cmd) : bool := match l with [] => true | s :: t => nohelp_all s && go t end) subs
  end.
Lemma nohelp_all_unfold c : nohelp_all c = s_disable_help_sub (c_gset c) && forallb nohelp_all (c_subs c).
Proof.
  dc c. reflexivity.
Qed.
Lemma nohelp_all_tree : forall k c, nohelp_all c = true -> nohelp_tree k c = true.
Proof.
  induction k as [|k IH]; intros c H; rewrite nohelp_all_unfold in H; apply andb_prop in H; destruct H as [H1 H2]; cbn [nohelp_tree]; rewrite H1; [reflexivity|].
  cbn [andb]. apply forallb_forall. intros s Hin. apply IH. rewrite forallb_forall in H2. exact (H2 s Hin).
Qed.
Corollary nohelp_all_quiet b c : nohelp_all c = true -> forall k, quiet_tree k b c = true.
Proof. intros H k. apply nohelp_quiet, nohelp_all_tree, H. Qed.

(** * non-vacuity; the witness of the finding lies in the family *)
Definition ex_bhist : list xop :=
  [XOp Build; XParse true [ex_prog; [45; 45; 122; 122; 122]]; XOp Build; XOp RenderHelp; XParse false [ex_prog; ex_sub; ex_run]; XOp Build].
Example ex_build_hyps :
  good_name ex_prog = true /\ nohelp_all propagate_gset_example = true
  /\ xhist_okb ex_prog propagate_gset_example ex_bhist = true
  /\ argv_under ex_prog (xrun propagate_gset_example ex_bhist) [ex_prog; ex_sub; [45; 45; 98]] = true
  /\ argv_under ex_prog propagate_gset_example [ex_prog; ex_sub; [45; 45; 98]] = true.
Proof. vm_compute. repeat split; reflexivity. Qed.
(** [build()] did mark and name the tree: the states differ as records, also from the lazily used one *)
Example ex_build_marks :
  is_set s_bin_name_built (xrun propagate_gset_example ex_bhist) = true
  /\ is_set s_bin_name_built (xrun propagate_gset_example [XParse false [ex_prog; ex_sub; ex_run]]) = false
  /\ map c_bin_name (c_subs (xrun propagate_gset_example [XOp Build])) = [Some ([112; 32] ++ ex_sub); Some [112; 32; 116]].
Proof. vm_compute. repeat split; reflexivity. Qed.
Example ex_finding_in_family : help_family 0 ex_prog ex_cmd = true.
Proof. vm_compute. reflexivity. Qed.
Example ex_fixed_outside_family : help_family 3 ex_prog propagate_gset_example = false.
Proof. vm_compute. reflexivity. Qed.

(** the witness of the finding is a member of the family, and is refuted there *)
Theorem finding_witness_in_family :
  exists b c argv, help_family 0 b c = true /\ parse_kind (build_op c) argv <> parse_kind c argv.
Proof.
  exists ex_prog, ex_cmd, [ex_prog; s_help; s_help; ex_sub]. split; [exact ex_finding_in_family|].
  assert (H1 : parse_kind (build_op ex_cmd) [ex_prog; s_help; s_help; ex_sub] = Some EDisplayHelp) by (vm_compute; reflexivity).
  assert (H2 : parse_kind ex_cmd [ex_prog; s_help; s_help; ex_sub] = Some EInvalidSubcommand) by (vm_compute; reflexivity).
  rewrite H1, H2. discriminate.
Qed.
(** the statement for plain histories ([ReentrancyModel.run]) *)
Corollary history_independence_build_run : forall h b c argv,
  good_name b = true -> (forall k, quiet_tree k b c = true) -> xhist_okb b c (map XOp h) = true ->
  argv_under b (xrun c (map XOp h)) argv = true -> argv_under b c argv = true ->
  parse_result (xrun c (map XOp h)) argv = parse_result c argv
  /\ parse_names (xrun c (map XOp h)) argv = parse_names c argv
  /\ err_of (fst (fst (parse_mut (xrun c (map XOp h)) argv))) = err_of (fst (fst (parse_mut c argv))).
Proof. intros h. apply history_independence_build. Qed.
Lemma xrun_run : forall h c, xrun c (map XOp h) = run c h.
Proof. induction h as [|o t IH]; intros c; [reflexivity|]. cbn [map xrun run xstep]. apply IH. Qed.
