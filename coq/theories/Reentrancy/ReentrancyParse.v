(** C11, parser level: the parser reads the subcommands of its level only through their
    names / aliases / flag names ("signature") and through [_build_subcommand]; hence two commands
    that agree in normal form to every depth give the same parser result, the same visited names and
    the same error.  Together with [ReentrancyProofs.history_normal_form]: history independence.

    Function equalities ([parse_loop c' = parse_loop c] ...) are used to rewrite under binders; they
    rest on [functional_extensionality_dep] (standard library), the only axiom of these theorems. *)
From ClapModel Require Import Base.Bytes Base.Machine Base.Utf8 Lex.OsStrExtModel.
From ClapModel Require Import Parse.Cmd Parse.Build Parse.Valid Parse.Matcher Parse.Errors Parse.Validator Parse.Parser.
From ClapModel Require Import Reentrancy.ReentrancyModel Reentrancy.ReentrancyProofs.
From ClapModel Require Export Reentrancy.ReentrancyExt.
From ClapModel Require Import ParseProofs.Dispatch.
From Coq Require Import ZArith List Bool FunctionalExtensionality.
From RecordUpdate Require Import RecordSet.
Import RecordSetNotations ListNotations.
Open Scope N_scope.

(** * the signature of a subcommand and what reads only it

    [sig], [rs], the pointwise congruence lemmas for the token loop and for the validator are in
    [ReentrancyExt] (fourth pass: no axiom); here are their instances for [rs c l'] (another subcommand
    list, marks kept). *)
Section Shallow.
Variables (c : cmd) (l' : list cmd).
Hypothesis Hs : map sig (c_subs c) = map sig l'.

Lemma sh_parse_loop toks ls st : parse_loop (rs c l') toks ls st = parse_loop c toks ls st.
Proof. rewrite rs_rsm. apply shm_parse_loop, Hs. Qed.
Lemma sh_possible_subcommand tok vaf : possible_subcommand (rs c l') tok vaf = possible_subcommand c tok vaf.
Proof. rewrite rs_rsm. apply shm_possible_subcommand, Hs. Qed.
Lemma sh_assert_app : assert_app (rs c l') = assert_app c.
Proof. rewrite rs_rsm. apply shm_assert_app, Hs. Qed.

(** the statement of the third pass, an equality of FUNCTIONS: the only place where
    [functional_extensionality_dep] is still used (pinned as [C11_parser_reads_signatures]) *)
Lemma sh_parse_loop_fun : parse_loop (rs c l') = parse_loop c.
Proof. extensionality toks. extensionality ls. extensionality st. apply sh_parse_loop. Qed.
End Shallow.

(** non-vacuity of the signature hypothesis: the subcommand list after [_build_subcommand] ran on every
    slot differs from the defined one (built, named) and has the same signatures *)
Example ex_sigs :
  map sig (c_subs ex_cmd) = map sig (map (prepare ex_cmd) (c_subs ex_cmd))
  /\ map (prepare ex_cmd) (c_subs ex_cmd) <> c_subs ex_cmd.
Proof. split; [vm_compute; reflexivity|]. intros H. apply (f_equal (map (fun s => s_built (c_set s)))) in H. vm_compute in H. discriminate. Qed.

(** the validator does not look at subcommands *)
Lemma sh_validate c l m : validate (rs c l) m = validate c m.
Proof. rewrite rs_rsm. apply shm_validate. Qed.

(** * agreement to every depth *)
(** sig is not changed by building or naming *)
Ltac sstage F := intros c; unfold sig, F; repeat match goal with |- context[if ?b then _ else _] => destruct b end; reflexivity.
Lemma sig_st1 : forall c, sig (st1 c) = sig c. Proof. sstage st1. Qed.
Lemma sig_st2 : forall c, sig (st2 c) = sig c. Proof. sstage st2. Qed.
Lemma sig_st3 : forall c, sig (st3 c) = sig c. Proof. sstage st3. Qed.
Lemma sig_st4 : forall c, sig (st4 c) = sig c. Proof. sstage st4. Qed.
Lemma sig_hv1 : forall c, sig (hv1 c) = sig c. Proof. sstage hv1. Qed.
Lemma sig_hv2 : forall c, sig (hv2 c) = sig c. Proof. sstage hv2. Qed.
Lemma sig_hv3 : forall c, sig (hv3 c) = sig c. Proof. sstage hv3. Qed.
Lemma sig_mark c : sig (bs_mark c) = sig c. Proof. reflexivity. Qed.
Lemma sig_deprecated c : sig (bs_deprecated c) = sig c. Proof. reflexivity. Qed.
Lemma sig_args c : sig (bs_args c) = sig c. Proof. reflexivity. Qed.
Lemma sig_globals c : sig (bs_globals c) = sig c. Proof. reflexivity. Qed.
Lemma sig_propagate c : sig (bs_propagate c) = sig c. Proof. reflexivity. Qed.
Lemma sig_build_self c : sig (build_self c) = sig c.
Proof.
  unfold build_self. destruct (s_built (c_set c)); [reflexivity|].
  rewrite sig_mark, sig_deprecated, sig_args, sig_globals.
  rewrite bs_hv_eq, sig_hv3, sig_hv2, sig_hv1, sig_propagate.
  rewrite bs_settings_eq, sig_st4, sig_st3, sig_st2, sig_st1. reflexivity.
Qed.
Lemma sig_U v w c : sig (U v w c) = sig c.
Proof. dc c; reflexivity. Qed.
Lemma sig_prepare p s : sig (prepare p s) = sig s.
Proof. rewrite prepare_U, sig_U. apply sig_build_self. Qed.
Lemma sig_set_subs (c : cmd) l : sig (c <| c_subs := l |>) = sig c.
Proof. dc c; reflexivity. Qed.
Lemma sig_norm_sub n p s : sig (norm_sub n p s) = sig s.
Proof. destruct n; cbn [norm_sub]; rewrite sig_set_subs; apply sig_prepare. Qed.

(** agreement to every depth *)
Definition agree (c1 c2 : cmd) : Prop := forall n, norm_children n c1 = norm_children n c2.

Lemma set_subs_inv (c1 c2 : cmd) x y :
  c1 <| c_subs := x |> = c2 <| c_subs := y |> -> x = y /\ c2 = rs c1 (c_subs c2).
Proof.
  intros H. split.
  - apply (f_equal c_subs) in H. exact H.
  - dc c1. destruct c2 as [n0 al0 sf0 lf0 sfa0 lfa0 args0 groups0 subs0 cset0 gset0 ver0 lver0 ext0 bin0 disp0 about0 labout0]. unfold rs.
    pose proof (f_equal c_name H) as E1. pose proof (f_equal c_aliases H) as E2.
    pose proof (f_equal c_short_flag H) as E3. pose proof (f_equal c_long_flag H) as E4.
    pose proof (f_equal c_short_flag_aliases H) as E5. pose proof (f_equal c_long_flag_aliases H) as E6.
    pose proof (f_equal c_args H) as E7. pose proof (f_equal c_groups H) as E8.
    pose proof (f_equal c_set H) as E9. pose proof (f_equal c_gset H) as E10.
    pose proof (f_equal c_version H) as E11. pose proof (f_equal c_long_version H) as E12.
    pose proof (f_equal c_ext_vp H) as E13. pose proof (f_equal c_bin_name H) as E14.
    pose proof (f_equal c_display_name H) as E15. pose proof (f_equal c_about H) as E16.
    pose proof (f_equal c_long_about H) as E17.
    change (n = n0) in E1. change (al = al0) in E2. change (sf = sf0) in E3. change (lf = lf0) in E4.
    change (sfa = sfa0) in E5. change (lfa = lfa0) in E6. change (args = args0) in E7. change (groups = groups0) in E8.
    change (cset = cset0) in E9. change (gset = gset0) in E10. change (ver = ver0) in E11. change (lver = lver0) in E12.
    change (ext = ext0) in E13. change (bin = bin0) in E14. change (disp = disp0) in E15. change (about = about0) in E16.
    change (labout = labout0) in E17. subst. reflexivity.
Qed.

Lemma map_eq_Forall2 {A B} (f g : nat -> A -> B) : forall l1 l2,
  (forall k, map (f k) l1 = map (g k) l2) -> Forall2 (fun a b => forall k, f k a = g k b) l1 l2.
Proof.
  induction l1 as [|a t IH]; intros [|b u] H.
  - constructor.
  - specialize (H O). discriminate.
  - specialize (H O). discriminate.
  - constructor.
    + intros k. specialize (H k). cbn [map] in H. apply cons_eq_inv in H. apply H.
    + apply IH. intros k. specialize (H k). cbn [map] in H. apply cons_eq_inv in H. apply H.
Qed.

Lemma Forall2_weaken {A B} (P Q : A -> B -> Prop) l1 l2 :
  (forall a b, P a b -> Q a b) -> Forall2 P l1 l2 -> Forall2 Q l1 l2.
Proof. intros H F. induction F; constructor; auto. Qed.

Definition kid_rel (c1 c2 s1 s2 : cmd) : Prop := sig s1 = sig s2 /\ agree (prepare c1 s1) (prepare c2 s2).

Lemma agree_inv c1 c2 : agree c1 c2 ->
  c2 = rs c1 (c_subs c2) /\ map sig (c_subs c1) = map sig (c_subs c2)
  /\ Forall2 (kid_rel c1 c2) (c_subs c1) (c_subs c2).
Proof.
  intros Ha. pose proof (Ha O) as H0. unfold norm_children in H0. apply set_subs_inv in H0. destruct H0 as [Hm Hown].
  split; [exact Hown|]. split.
  - apply (f_equal (map sig)) in Hm. rewrite !map_map in Hm.
    rewrite (map_ext _ sig (fun s => sig_norm_sub 0 c1 s)) in Hm.
    rewrite (map_ext _ sig (fun s => sig_norm_sub 0 c2 s)) in Hm. exact Hm.
  - assert (Hk : forall k, map (norm_sub k c1) (c_subs c1) = map (norm_sub k c2) (c_subs c2)).
    { intros k. pose proof (Ha k) as Hk. unfold norm_children in Hk. apply set_subs_inv in Hk. apply Hk. }
    apply map_eq_Forall2 in Hk.
    eapply Forall2_weaken; [|exact Hk]. intros s1 s2 H. split.
    + pose proof (H O) as E. apply (f_equal sig) in E. rewrite !sig_norm_sub in E. exact E.
    + intros k. exact (H (S k)).
Qed.

Lemma find_kids (R : cmd -> cmd -> Prop) (p : cmd -> bool) :
  (forall s1 s2, R s1 s2 -> p s1 = p s2) ->
  forall l1 l2, Forall2 R l1 l2 ->
  (find p l1 = None /\ find p l2 = None) \/ (exists s1 s2, find p l1 = Some s1 /\ find p l2 = Some s2 /\ R s1 s2).
Proof.
  intros Hp l1 l2 H. induction H as [|x y t u Hxy Htu IH]; [left; split; reflexivity|].
  cbn [find]. rewrite (Hp x y Hxy). destruct (p y); [right; exists x, y; auto | exact IH].
Qed.

(** * the parser respects agreement *)
Lemma sig_name s1 s2 : sig s1 = sig s2 -> c_name s1 = c_name s2.
Proof. intros H. apply sig_inv in H. apply H. Qed.

Lemma kids_find c1 c2 n : agree c1 c2 ->
  (find_subcommand c1 n = None /\ find_subcommand c2 n = None)
  \/ (exists s1 s2, find_subcommand c1 n = Some s1 /\ find_subcommand c2 n = Some s2 /\ c_name s1 = c_name s2).
Proof.
  intros Ha. destruct (agree_inv c1 c2 Ha) as (_ & _ & Hk). unfold find_subcommand.
  destruct (find_kids (kid_rel c1 c2) (fun s => aliases_to s n)
              ltac:(intros s1 s2 [Hs _]; revert Hs; generalize s1 s2; resp) _ _ Hk) as [H|(s1 & s2 & H1 & H2 & [Hs _])].
  - left. exact H.
  - right. exists s1, s2. repeat split; try assumption. apply sig_name, Hs.
Qed.
Lemma kids_build c1 c2 nm : agree c1 c2 ->
  (build_subcommand c1 nm = None /\ build_subcommand c2 nm = None)
  \/ (exists k1 k2, build_subcommand c1 nm = Some k1 /\ build_subcommand c2 nm = Some k2 /\ agree k1 k2).
Proof.
  intros Ha. destruct (agree_inv c1 c2 Ha) as (_ & _ & Hk). rewrite !build_subcommand_prepare.
  destruct (find_kids (kid_rel c1 c2) (fun s => beq (c_name s) nm)
              ltac:(intros s1 s2 [Hs _]; rewrite (sig_name _ _ Hs); reflexivity) _ _ Hk) as [[H1 H2]|(s1 & s2 & H1 & H2 & [_ Hag])].
  - left. rewrite H1, H2. split; reflexivity.
  - right. exists (prepare c1 s1), (prepare c2 s2). rewrite H1, H2. repeat split. exact Hag.
Qed.
Lemma agree_own c1 c2 : agree c1 c2 -> c2 = rs c1 (c_subs c2) /\ map sig (c_subs c1) = map sig (c_subs c2).
Proof. intros Ha. destruct (agree_inv c1 c2 Ha) as (H1 & H2 & _). split; assumption. Qed.

Lemma help_walk_agree : forall names c1 c2, agree c1 c2 -> help_walk c1 names = help_walk c2 names.
Proof.
  induction names as [|n rest IH]; intros c1 c2 Ha; destruct (agree_own c1 c2 Ha) as [Hown _].
  - cbn [help_walk]. rewrite Hown. reflexivity.
  - cbn [help_walk].
    destruct (kids_find c1 c2 n Ha) as [[H1 H2]|(s1 & s2 & H1 & H2 & Hn)]; rewrite H1, H2.
    + rewrite Hown. reflexivity.
    + rewrite Hn. destruct (kids_build c1 c2 (c_name s2) Ha) as [[B1 B2]|(k1 & k2 & B1 & B2 & Hk)]; rewrite B1, B2.
      * rewrite Hown. reflexivity.
      * apply IH, Hk.
Qed.

Lemma assert_app_agree c1 c2 : agree c1 c2 -> assert_app c1 = assert_app c2.
Proof. intros Ha. destruct (agree_own c1 c2 Ha) as [Hown Hs]. rewrite Hown. symmetry. apply sh_assert_app, Hs. Qed.

Theorem gmw_agree : forall fuel c1 c2 toks st, agree c1 c2 ->
  get_matches_with fuel c1 toks st = get_matches_with fuel c2 toks st.
Proof.
  induction fuel as [|f IH]; intros c1 c2 toks st Ha; [reflexivity|].
  destruct (agree_own c1 c2 Ha) as [Hown Hs].
  rewrite !gmw_unfold.
  assert (F : forall P, post c2 P = post c1 P) by (intros P; rewrite Hown; apply post_rs).
  rewrite F. f_equal. unfold parsed_of. apply rbind_cong.
  { rewrite Hown. symmetry. apply sh_parse_loop, Hs. }
  intros lr.
  destruct lr as [st1|name keep vaf st1 rest|name vals st1|names st1].
  - reflexivity.
  - unfold after_sub.
    replace (is_set s_args_negate_subs c2) with (is_set s_args_negate_subs c1) by (rewrite Hown; reflexivity).
    destruct (is_set s_args_negate_subs c1 && vaf); [rewrite Hown; reflexivity|].
    destruct (kids_find c1 c2 name Ha) as [[H1 H2]|(s1 & s2 & H1 & H2 & Hn)]; rewrite H1, H2; cbn [expect rbind]; [reflexivity|].
    rewrite Hn.
    destruct (kids_build c1 c2 (c_name s2) Ha) as [[B1 B2]|(k1 & k2 & B1 & B2 & Hk)]; rewrite B1, B2; [reflexivity|].
    rewrite (assert_app_agree k1 k2 Hk). destruct (assert_app k2); cbn [negb]; [|reflexivity].
    rewrite (IH k1 k2 _ _ Hk).
    destruct (agree_own k1 k2 Hk) as [Hkown _].
    replace (c_name k2) with (c_name k1) by (rewrite Hkown; reflexivity).
    replace (is_set s_ignore_errors c2) with (is_set s_ignore_errors c1) by (rewrite Hown; reflexivity).
    reflexivity.
  - rewrite Hown. reflexivity.
  - rewrite (help_walk_agree names c1 c2 Ha). reflexivity.
Qed.

(** * visited names, and the theorem about histories *)
Lemma visit_names_agree c1 c2 : agree c1 c2 -> visit_names (VNode c1) = visit_names (VNode c2).
Proof. intros Ha. destruct (agree_own c1 c2 Ha) as [Hown _]. rewrite Hown. dc c1; reflexivity. Qed.
Lemma visit_names_help_agree c1 c2 : agree c1 c2 -> visit_names (VHelp c1) = visit_names (VHelp c2).
Proof. intros Ha. destruct (agree_own c1 c2 Ha) as [Hown _]. rewrite Hown. dc c1; reflexivity. Qed.

Lemma help_trace_agree : forall names c1 c2, agree c1 c2 ->
  map visit_names (help_trace c1 names) = map visit_names (help_trace c2 names).
Proof.
  induction names as [|n rest IH]; intros c1 c2 Ha; [reflexivity|]. cbn [help_trace].
  destruct (kids_find c1 c2 n Ha) as [[H1 H2]|(s1 & s2 & H1 & H2 & Hn)]; rewrite H1, H2; [reflexivity|].
  rewrite Hn. destruct (kids_build c1 c2 (c_name s2) Ha) as [[B1 B2]|(k1 & k2 & B1 & B2 & Hk)]; rewrite B1, B2; [reflexivity|].
  cbn [map]. rewrite (visit_names_help_agree k1 k2 Hk), (IH k1 k2 Hk). reflexivity.
Qed.

Theorem trace_agree : forall fuel c1 c2 toks st, agree c1 c2 ->
  map visit_names (parse_trace fuel c1 toks st) = map visit_names (parse_trace fuel c2 toks st).
Proof.
  induction fuel as [|f IH]; intros c1 c2 toks st Ha; cbn [parse_trace map]; rewrite (visit_names_agree c1 c2 Ha); [reflexivity|].
  f_equal. destruct (agree_own c1 c2 Ha) as [Hown Hs].
  rewrite Hown at 1. rewrite (sh_parse_loop c1 (c_subs c2) Hs).
  destruct (parse_loop c1 toks (mkL PSValuesDone 1 false false) st) as [lr|e st'|s]; [|reflexivity|reflexivity].
  destruct lr as [st1|name keep vaf st1 rest|name vals st1|names st1]; [reflexivity| |reflexivity|].
  - replace (is_set s_args_negate_subs c2) with (is_set s_args_negate_subs c1) by (rewrite Hown; reflexivity).
    destruct (is_set s_args_negate_subs c1 && vaf); [reflexivity|].
    destruct (kids_find c1 c2 name Ha) as [[H1 H2]|(s1 & s2 & H1 & H2 & Hn)]; rewrite H1, H2; [reflexivity|].
    rewrite Hn.
    destruct (kids_build c1 c2 (c_name s2) Ha) as [[B1 B2]|(k1 & k2 & B1 & B2 & Hk)]; rewrite B1, B2; [reflexivity|].
    apply IH, Hk.
  - apply help_trace_agree, Ha.
Qed.

(** the parser result and the names along the parse, as [try_get_matches_from_mut] computes them *)
Definition parse_result (c : cmd) (argv : list bytes) : res ps :=
  let '(c1, toks) := set_bin c argv in get_matches_with (parse_fuel toks) (build_self c1) toks ps_new.
Definition parse_names (c : cmd) (argv : list bytes) : list vnames :=
  let '(c1, toks) := set_bin c argv in map visit_names (parse_trace (parse_fuel toks) (build_self c1) toks ps_new).
Definition err_of (o : outcome) : option error := match o with OErr e => Some e | _ => None end.
Definition is_ok (o : outcome) : bool := match o with OOk _ => true | _ => false end.

Lemma step_parse_obs c argv :
  snd (step c (ParseMut argv)) = OParse (fst (fst (parse_mut c argv))) (parse_names c argv).
Proof.
  unfold step, parse_names, parse_mut. destruct (set_bin c argv) as [c1 toks]. unfold do_parse_st.
  cbv beta iota zeta. reflexivity.
Qed.
Lemma parse_mut_err c argv :
  err_of (fst (fst (parse_mut c argv))) =
  match parse_result c argv with
  | RErr e _ => if is_set s_ignore_errors (build_self (fst (set_bin c argv))) && use_stderr (e_kind e) then None else Some e
  | _ => None
  end.
Proof.
  unfold parse_mut, parse_result. destruct (set_bin c argv) as [c1 toks]. unfold do_parse_st. cbv beta iota zeta. cbn [fst].
  destruct (get_matches_with (parse_fuel toks) (build_self c1) toks ps_new) as [st|e st|s]; [reflexivity| |destruct s; reflexivity].
  destruct (is_set s_ignore_errors (build_self c1) && use_stderr (e_kind e)); reflexivity.
Qed.

(** NoBinaryName is stable along a history *)
Lemma touch_nbn c path : is_set s_no_binary_name (touch c path) = is_set s_no_binary_name c.
Proof. destruct path; reflexivity. Qed.
Lemma sugg_nbn c path : is_set s_no_binary_name (sugg_build c path) = is_set s_no_binary_name c.
Proof. unfold sugg_build. destruct path; cbn [sugg_build_at]; destruct (negb (s_built (c_set c)) || _); reflexivity. Qed.
Lemma set_bin_nbn c argv : is_set s_no_binary_name (fst (set_bin c argv)) = is_set s_no_binary_name c.
Proof.
  unfold set_bin. destruct (is_set s_no_binary_name c) eqn:E; [exact E|]. destruct argv as [|x r]; [exact E|]. cbn [fst].
  destruct (c_bin_name c); [exact E|]. destruct (utf8_valid x && negb (is_nil x)); exact E.
Qed.
Lemma step_nbn c o : is_build o = false -> is_set s_no_binary_name (fst (step c o)) = is_set s_no_binary_name c.
Proof.
  intros Hb. destruct o as [argv| | | | | |path]; try discriminate.
  - destruct (step_parse_state c argv) as [path ->]. rewrite touch_nbn, build_self_nbn. apply set_bin_nbn.
  - apply build_self_nbn.
  - apply build_self_nbn.
  - apply build_self_nbn.
  - reflexivity.
  - apply sugg_nbn.
Qed.
Lemma run_nbn : forall h b c, hist_ok b c h = true -> is_set s_no_binary_name (run c h) = is_set s_no_binary_name c.
Proof.
  induction h as [|o t IH]; intros b c H; [reflexivity|].
  cbn [hist_ok] in H. apply andb_prop in H. destruct H as [H Ht]. apply andb_prop in H. destruct H as [_ Hb].
  cbn [run]. rewrite (IH b _ Ht). apply step_nbn. destruct (is_build o); [discriminate|reflexivity].
Qed.
Lemma set_bin_toks c c' argv :
  is_set s_no_binary_name c = is_set s_no_binary_name c' -> snd (set_bin c argv) = snd (set_bin c' argv).
Proof. intros H. unfold set_bin. rewrite H. destruct (is_set s_no_binary_name c'); [reflexivity|]. destruct argv; reflexivity. Qed.

Theorem history_independence : forall h b c argv,
  good_name b = true -> hist_ok b c h = true ->
  argv_under b (run c h) argv = true -> argv_under b c argv = true ->
  parse_result (run c h) argv = parse_result c argv
  /\ parse_names (run c h) argv = parse_names c argv
  /\ err_of (fst (fst (parse_mut (run c h) argv))) = err_of (fst (fst (parse_mut c argv))).
Proof.
  intros h b c argv Hg Hh Hu1 Hu2.
  assert (Ha : agree (root_prep b (run c h)) (root_prep b c)).
  { intros n. exact (history_normal_form h n b c Hg Hh). }
  pose proof (set_bin_under b _ argv Hg Hu1) as E1. pose proof (set_bin_under b c argv Hg Hu2) as E2.
  pose proof (set_bin_toks (run c h) c argv (run_nbn h b c Hh)) as Et.
  assert (R : parse_result (run c h) argv = parse_result c argv).
  { unfold parse_result. destruct (set_bin (run c h) argv) as [s1 t1]. destruct (set_bin c argv) as [s2 t2].
    cbn [fst snd] in *. subst t2. rewrite E1, E2. apply gmw_agree, Ha. }
  split; [exact R|]. split.
  - unfold parse_names. destruct (set_bin (run c h) argv) as [s1 t1]. destruct (set_bin c argv) as [s2 t2].
    cbn [fst snd] in *. subst t2. rewrite E1, E2. apply trace_agree, Ha.
  - rewrite !parse_mut_err, R, E1, E2.
    destruct (agree_own _ _ Ha) as [Hown _].
    replace (is_set s_ignore_errors (root_prep b (run c h))) with (is_set s_ignore_errors (root_prep b c)); [reflexivity|].
    rewrite Hown. reflexivity.
Qed.

Example ex_history_independence_hyps :
  good_name ex_prog = true /\ hist_ok ex_prog ex_cmd ex_hist = true
  /\ argv_under ex_prog (run ex_cmd ex_hist) [ex_prog; ex_sub; [45; 104]] = true
  /\ argv_under ex_prog ex_cmd [ex_prog; ex_sub; [45; 104]] = true.
Proof. vm_compute. repeat split; reflexivity. Qed.
