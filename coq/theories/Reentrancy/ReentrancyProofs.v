(** C11: proofs about the stateful layer ([ReentrancyModel]). *)
From ClapModel Require Import Base.Bytes Base.Machine Base.Utf8.
From ClapModel Require Import Parse.Cmd Parse.Build Parse.Valid Parse.Matcher Parse.Errors Parse.Validator Parse.Parser.
From ClapModel Require Import Reentrancy.ReentrancyModel.
From Coq Require Import ZArith List Bool.
From RecordUpdate Require Import RecordSet.
Import RecordSetNotations ListNotations.
Open Scope N_scope.

Ltac dc c := destruct c as [n al sf lf sfa lfa args groups subs cset gset ver lver ext bin disp about labout].

(** * the Built flag: the guarded steps run once *)
Lemma build_self_built c : s_built (c_set (build_self c)) = true.
Proof. unfold build_self. destruct (s_built (c_set c)) eqn:E; [exact E | reflexivity]. Qed.
Lemma build_self_fix c : s_built (c_set c) = true -> build_self c = c.
Proof. intros H. unfold build_self. rewrite H. reflexivity. Qed.
Lemma build_self_idempotent c : build_self (build_self c) = build_self c.
Proof. apply build_self_fix, build_self_built. Qed.

Lemma build_self_x_false c : build_self_x false c = build_self c.
Proof. reflexivity. Qed.
Lemma build_self_x_built e c : s_built (c_set (build_self_x e c)) = true.
Proof.
  destruct e; [|apply build_self_built].
  unfold build_self_x. destruct (s_built (c_set c)) eqn:E; [exact E | reflexivity].
Qed.
Lemma build_self_x_fix e c : s_built (c_set c) = true -> build_self_x e c = c.
Proof. intros H. destruct e; [|apply build_self_fix, H]. unfold build_self_x. rewrite H. reflexivity. Qed.
(** whatever was asked the second time ([expand_help_tree] or not), a built command is left alone *)
Lemma build_self_x_guard e e' c : build_self_x e' (build_self_x e c) = build_self_x e c.
Proof. apply build_self_x_fix, build_self_x_built. Qed.

Lemma build_recursive_x_guard : forall n e e' c,
  build_recursive_x n e' (build_recursive_x n e c) = build_recursive_x n e c.
Proof.
  induction n as [|k IH]; intros e e' c; [reflexivity|].
  cbn [build_recursive_x].
  set (c1 := build_self_x e c).
  assert (Hb : s_built (c_set (c1 <| c_subs := map (build_recursive_x k e) (c_subs c1) |>)) = true)
    by (exact (build_self_x_built e c)).
  rewrite (build_self_x_fix e' _ Hb).
  change (c_subs (c1 <| c_subs := map (build_recursive_x k e) (c_subs c1) |>))
    with (map (build_recursive_x k e) (c_subs c1)).
  rewrite map_map.
  rewrite (map_ext _ _ (fun s => IH e e' s)).
  dc c1; reflexivity.
Qed.
Lemma build_recursive_x_idempotent n e c :
  build_recursive_x n e (build_recursive_x n e c) = build_recursive_x n e c.
Proof. apply build_recursive_x_guard. Qed.

Lemma build_bin_names_done n c : is_set s_bin_name_built c = true -> build_bin_names n c = c.
Proof. intros H. destruct n; [reflexivity|]. cbn [build_bin_names]. rewrite H. reflexivity. Qed.
Lemma build_bin_names_flag k c : is_set s_bin_name_built (build_bin_names (S k) c) = true.
Proof. cbn [build_bin_names]. destruct (is_set s_bin_name_built c) eqn:E; [exact E | reflexivity]. Qed.
Lemma build_bin_names_idempotent n c : build_bin_names n (build_bin_names n c) = build_bin_names n c.
Proof.
  destruct n as [|k]; [reflexivity|]. apply build_bin_names_done, build_bin_names_flag.
Qed.

(** built down to depth [n] *)
Fixpoint built_to (n : nat) (c : cmd) : Prop :=
  match n with
  | O => True
  | S k => s_built (c_set c) = true /\ Forall (built_to k) (c_subs c)
  end.
Lemma build_recursive_x_built_to : forall n e c, built_to n (build_recursive_x n e c).
Proof.
  induction n as [|k IH]; intros e c; [exact I|]. cbn [build_recursive_x built_to]. split.
  - exact (build_self_x_built e c).
  - change (Forall (built_to k) (map (build_recursive_x k e) (c_subs (build_self_x e c)))).
    apply Forall_forall. intros x Hx. apply in_map_iff in Hx. destruct Hx as [y [<- _]]. apply IH.
Qed.
Lemma built_to_fix : forall n e c, built_to n c -> build_recursive_x n e c = c.
Proof.
  induction n as [|k IH]; intros e c H; [reflexivity|]. destruct H as [Hb Hs].
  cbn [build_recursive_x]. rewrite (build_self_x_fix e c Hb).
  assert (Hm : map (build_recursive_x k e) (c_subs c) = c_subs c).
  { clear Hb. induction (c_subs c) as [|x t IHt]; [reflexivity|]. inversion Hs; subst.
    cbn [map]. rewrite IH by assumption. rewrite IHt by assumption. reflexivity. }
  rewrite Hm. dc c; reflexivity.
Qed.
Lemma built_to_set_display p c n0 : built_to n0 c -> built_to n0 (set_display_if_none p c).
Proof.
  unfold set_display_if_none. destruct (c_display_name c); [auto|].
  destruct n0; [auto|]. intros [H1 H2]. split; assumption.
Qed.
Lemma build_bin_names_built_to : forall m n0 c, built_to n0 c -> built_to n0 (build_bin_names m c).
Proof.
  induction m as [|k IH]; intros n0 c H; [exact H|]. cbn [build_bin_names].
  destruct (is_set s_bin_name_built c); [exact H|].
  destruct n0 as [|j]; [exact I|]. destruct H as [Hb Hs]. split; [exact Hb|].
  match goal with |- Forall _ (c_subs (?X <| c_set := _ |>)) => change (Forall (built_to j) (c_subs X)) end.
  match goal with |- Forall _ (c_subs (c <| c_subs := ?l |>)) => change (Forall (built_to j) l) end.
  apply Forall_forall. intros x Hx. apply in_map_iff in Hx. destruct Hx as [y [<- Hy]].
  apply IH. apply built_to_set_display.
  rewrite Forall_forall in Hs. specialize (Hs y Hy).
  destruct (c_bin_name y); [exact Hs|]. destruct j; [exact I|]. destruct Hs; split; assumption.
Qed.
(** [Command::build] twice = once *)
Lemma build_op_with_idempotent n c : build_op_with n (build_op_with n c) = build_op_with n c.
Proof.
  unfold build_op_with.
  rewrite (built_to_fix n true (build_bin_names n (build_recursive_x n true c))).
  - apply build_bin_names_idempotent.
  - apply build_bin_names_built_to, build_recursive_x_built_to.
Qed.

(** * build timing is independent of the names: setting bin_name / display_name commutes with
    [_build_self] (the render calls build the root before any parse names it; [did_you_mean_flag]
    and [build] build subcommands before [_build_subcommand] names them) *)
Definition U (v w : option bytes) (c : cmd) : cmd := c <| c_bin_name := v |> <| c_display_name := w |>.

Lemma U_if v w (b : bool) x y : U v w (if b then x else y) = if b then U v w x else U v w y.
Proof. destruct b; reflexivity. Qed.
Lemma U_cset v w f c : U v w (set c_set f c) = set c_set f (U v w c).
Proof. dc c; reflexivity. Qed.
Lemma U_csubs v w f c : U v w (set c_subs f c) = set c_subs f (U v w c).
Proof. dc c; reflexivity. Qed.
Lemma U_cargs v w f c : U v w (set c_args f c) = set c_args f (U v w c).
Proof. dc c; reflexivity. Qed.
Lemma U_cgroups v w f c : U v w (set c_groups f c) = set c_groups f (U v w c).
Proof. dc c; reflexivity. Qed.
Lemma U_eta c : U (c_bin_name c) (c_display_name c) c = c.
Proof. dc c; reflexivity. Qed.
Lemma U_U v w v' w' c : U v w (U v' w' c) = U v w c.
Proof. dc c; reflexivity. Qed.

Ltac stage F := intros v w c; unfold F; cbv zeta; rewrite ?U_if; rewrite ?U_cset, ?U_csubs, ?U_cargs, ?U_cgroups;
  rewrite ?U_if; rewrite ?U_cset, ?U_csubs, ?U_cargs, ?U_cgroups; reflexivity.

Lemma U_mark : forall v w c, bs_mark (U v w c) = U v w (bs_mark c).
Proof. stage bs_mark. Qed.
Lemma U_propagate : forall v w c, bs_propagate (U v w c) = U v w (bs_propagate c).
Proof. stage bs_propagate. Qed.
Lemma U_deprecated : forall v w c, bs_deprecated (U v w c) = U v w (bs_deprecated c).
Proof. stage bs_deprecated. Qed.
Lemma U_args : forall v w c, bs_args (U v w c) = U v w (bs_args c).
Proof. stage bs_args. Qed.
Lemma U_globals : forall v w c, bs_globals (U v w c) = U v w (bs_globals c).
Proof. stage bs_globals. Qed.

(** [bs_settings] and [bs_help_version] as chains of single decisions *)
Definition st1 (c : cmd) := c <| c_set := settings_or (c_set c) (c_gset c) |>.
Definition st2 (c : cmd) := if is_set s_args_negate_subs c then c <| c_set := (c_set c) <| s_subs_negate_reqs := true |> |> else c.
Definition st3 (c : cmd) := if is_some (c_ext_vp c) then c <| c_set := (c_set c) <| s_allow_external := true |> |> else c.
Definition st4 (c : cmd) := if negb (has_subcommands c) then c <| c_set := (c_set c) <| s_disable_help_sub := true |> |> else c.
Lemma bs_settings_eq c : bs_settings c = st4 (st3 (st2 (st1 c))).
Proof. reflexivity. Qed.
Lemma U_st1 : forall v w c, st1 (U v w c) = U v w (st1 c). Proof. stage st1. Qed.
Lemma U_st2 : forall v w c, st2 (U v w c) = U v w (st2 c). Proof. stage st2. Qed.
Lemma U_st3 : forall v w c, st3 (U v w c) = U v w (st3 c). Proof. stage st3. Qed.
Lemma U_st4 : forall v w c, st4 (U v w c) = U v w (st4 c). Proof. stage st4. Qed.
Lemma U_settings : forall v w c, bs_settings (U v w c) = U v w (bs_settings c).
Proof. intros. rewrite !bs_settings_eq, U_st1, U_st2, U_st3, U_st4. reflexivity. Qed.
Definition hv1 (c : cmd) := if negb (is_set s_disable_help_flag c) then c <| c_args := c_args c ++ [help_arg] |> else c.
Definition hv2 (c : cmd) := if negb (is_disable_version_flag_set c) then c <| c_args := c_args c ++ [version_arg] |> else c.
Definition hv3 (c : cmd) := if negb (is_set s_disable_help_sub c)
  then c <| c_subs := c_subs c ++ [fix_help_unset (help_subcommand c)] |> else c.
Lemma bs_hv_eq c : bs_help_version c = hv3 (hv2 (hv1 c)).
Proof. reflexivity. Qed.
Lemma U_hv1 : forall v w c, hv1 (U v w c) = U v w (hv1 c). Proof. stage hv1. Qed.
Lemma U_hv2 : forall v w c, hv2 (U v w c) = U v w (hv2 c). Proof. stage hv2. Qed.
Lemma U_hv3 : forall v w c, hv3 (U v w c) = U v w (hv3 c). Proof. stage hv3. Qed.
Lemma U_hv : forall v w c, bs_help_version (U v w c) = U v w (bs_help_version c).
Proof. intros. rewrite !bs_hv_eq, U_hv1, U_hv2, U_hv3. reflexivity. Qed.

Theorem names_commute_with_build v w c : build_self (U v w c) = U v w (build_self c).
Proof.
  unfold build_self. change (s_built (c_set (U v w c))) with (s_built (c_set c)).
  destruct (s_built (c_set c)); [reflexivity|].
  rewrite U_settings, U_propagate, U_hv, U_globals, U_args, U_deprecated, U_mark. reflexivity.
Qed.

Lemma build_self_bin c : c_bin_name (build_self c) = c_bin_name c.
Proof. rewrite <- (U_eta c) at 1. rewrite names_commute_with_build. dc (build_self c); reflexivity. Qed.
Lemma build_self_disp c : c_display_name (build_self c) = c_display_name c.
Proof. rewrite <- (U_eta c) at 1. rewrite names_commute_with_build. dc (build_self c); reflexivity. Qed.

Ltac pstage F := intros c; unfold F; repeat match goal with |- context[if ?b then _ else _] => destruct b end; reflexivity.
Lemma name_st1 : forall c, c_name (st1 c) = c_name c. Proof. pstage st1. Qed.
Lemma name_st2 : forall c, c_name (st2 c) = c_name c. Proof. pstage st2. Qed.
Lemma name_st3 : forall c, c_name (st3 c) = c_name c. Proof. pstage st3. Qed.
Lemma name_st4 : forall c, c_name (st4 c) = c_name c. Proof. pstage st4. Qed.
Lemma name_hv1 : forall c, c_name (hv1 c) = c_name c. Proof. pstage hv1. Qed.
Lemma name_hv2 : forall c, c_name (hv2 c) = c_name c. Proof. pstage hv2. Qed.
Lemma name_hv3 : forall c, c_name (hv3 c) = c_name c. Proof. pstage hv3. Qed.
Lemma name_mark c : c_name (bs_mark c) = c_name c. Proof. reflexivity. Qed.
Lemma name_deprecated c : c_name (bs_deprecated c) = c_name c. Proof. reflexivity. Qed.
Lemma name_args c : c_name (bs_args c) = c_name c. Proof. reflexivity. Qed.
Lemma name_globals c : c_name (bs_globals c) = c_name c. Proof. reflexivity. Qed.
Lemma name_propagate c : c_name (bs_propagate c) = c_name c. Proof. reflexivity. Qed.
Lemma build_self_name c : c_name (build_self c) = c_name c.
Proof.
  unfold build_self. destruct (s_built (c_set c)); [reflexivity|].
  rewrite name_mark, name_deprecated, name_args, name_globals.
  rewrite bs_hv_eq, name_hv3, name_hv2, name_hv1, name_propagate.
  rewrite bs_settings_eq, name_st4, name_st3, name_st2, name_st1. reflexivity.
Qed.

(** NoBinaryName is not changed by building *)
Lemma nbn_st1 : forall c, is_set s_no_binary_name (st1 c) = is_set s_no_binary_name c.
Proof.
  intros c. unfold st1, is_set.
  change (c_set (c <| c_set := settings_or (c_set c) (c_gset c) |>)) with (settings_or (c_set c) (c_gset c)).
  change (c_gset (c <| c_set := settings_or (c_set c) (c_gset c) |>)) with (c_gset c).
  change (s_no_binary_name (settings_or (c_set c) (c_gset c)))
    with (s_no_binary_name (c_set c) || s_no_binary_name (c_gset c)).
  destruct (s_no_binary_name (c_set c)), (s_no_binary_name (c_gset c)); reflexivity.
Qed.
Lemma nbn_st2 : forall c, is_set s_no_binary_name (st2 c) = is_set s_no_binary_name c. Proof. pstage st2. Qed.
Lemma nbn_st3 : forall c, is_set s_no_binary_name (st3 c) = is_set s_no_binary_name c. Proof. pstage st3. Qed.
Lemma nbn_st4 : forall c, is_set s_no_binary_name (st4 c) = is_set s_no_binary_name c. Proof. pstage st4. Qed.
Lemma nbn_hv1 : forall c, is_set s_no_binary_name (hv1 c) = is_set s_no_binary_name c. Proof. pstage hv1. Qed.
Lemma nbn_hv2 : forall c, is_set s_no_binary_name (hv2 c) = is_set s_no_binary_name c. Proof. pstage hv2. Qed.
Lemma nbn_hv3 : forall c, is_set s_no_binary_name (hv3 c) = is_set s_no_binary_name c. Proof. pstage hv3. Qed.
Lemma nbn_mark c : is_set s_no_binary_name (bs_mark c) = is_set s_no_binary_name c. Proof. reflexivity. Qed.
Lemma nbn_deprecated c : is_set s_no_binary_name (bs_deprecated c) = is_set s_no_binary_name c. Proof. reflexivity. Qed.
Lemma nbn_args c : is_set s_no_binary_name (bs_args c) = is_set s_no_binary_name c. Proof. reflexivity. Qed.
Lemma nbn_globals c : is_set s_no_binary_name (bs_globals c) = is_set s_no_binary_name c. Proof. reflexivity. Qed.
Lemma nbn_propagate c : is_set s_no_binary_name (bs_propagate c) = is_set s_no_binary_name c. Proof. reflexivity. Qed.
Lemma build_self_nbn c : is_set s_no_binary_name (build_self c) = is_set s_no_binary_name c.
Proof.
  unfold build_self. destruct (s_built (c_set c)); [reflexivity|].
  rewrite nbn_mark, nbn_deprecated, nbn_args, nbn_globals.
  rewrite bs_hv_eq, nbn_hv3, nbn_hv2, nbn_hv1, nbn_propagate.
  rewrite bs_settings_eq, nbn_st4, nbn_st3, nbn_st2, nbn_st1. reflexivity.
Qed.

(** * [_build_subcommand] as a function of the slot: [prepare] *)
Definition new_disp (p sc : cmd) : option bytes :=
  match c_display_name sc with
  | Some d => Some d
  | None => Some (join_display (self_display p) (c_name sc))
  end.
Lemma set_names_U p sc : set_names p sc = U (Some (sub_bin p sc)) (new_disp p sc) sc.
Proof.
  unfold set_names, set_display_if_none, new_disp.
  change (c_display_name (sc <| c_bin_name := Some (sub_bin p sc) |>)) with (c_display_name sc).
  destruct (c_display_name sc) eqn:E; dc sc; cbn in E; subst; reflexivity.
Qed.
Lemma prepare_U p sc : prepare p sc = U (Some (sub_bin p sc)) (new_disp p sc) (build_self sc).
Proof. unfold prepare. rewrite set_names_U. apply names_commute_with_build. Qed.

Lemma build_subcommand_prepare c name :
  build_subcommand c name = option_map (prepare c) (find (fun s => beq (c_name s) name) (c_subs c)).
Proof.
  unfold build_subcommand. destruct (find _ (c_subs c)) as [sc|]; [|reflexivity].
  cbn [option_map]. f_equal.
Qed.

Lemma prepare_name p sc : c_name (prepare p sc) = c_name sc.
Proof. rewrite prepare_U. transitivity (c_name (build_self sc)); [dc (build_self sc); reflexivity|apply build_self_name]. Qed.
Lemma prepare_bin p sc : c_bin_name (prepare p sc) = Some (sub_bin p sc).
Proof. rewrite prepare_U. dc (build_self sc); reflexivity. Qed.
Lemma prepare_disp p sc : c_display_name (prepare p sc) = new_disp p sc.
Proof. rewrite prepare_U. dc (build_self sc); reflexivity. Qed.
Lemma prepare_built p sc : s_built (c_set (prepare p sc)) = true.
Proof. apply build_self_built. Qed.

(** a slot that is built and carries the names its parent gives it is a fixed point *)
Definition settled (p x : cmd) : Prop :=
  s_built (c_set x) = true /\ c_bin_name x = Some (sub_bin p x) /\ c_display_name x <> None.
Lemma settled_fix p x : settled p x -> prepare p x = x.
Proof.
  intros [Hb [Hn Hd]]. rewrite prepare_U, (build_self_fix x Hb).
  unfold new_disp. destruct (c_display_name x) eqn:E; [|congruence].
  rewrite <- Hn, <- E. apply U_eta.
Qed.
Lemma sub_bin_name p x y : c_name x = c_name y -> sub_bin p x = sub_bin p y.
Proof. unfold sub_bin. intros ->. reflexivity. Qed.
Lemma prepare_settled p sc : settled p (prepare p sc).
Proof.
  split; [apply prepare_built|]. split.
  - rewrite prepare_bin. f_equal. apply sub_bin_name. symmetry. apply prepare_name.
  - rewrite prepare_disp. unfold new_disp. destruct (c_display_name sc); discriminate.
Qed.
Theorem prepare_idempotent p sc : prepare p (prepare p sc) = prepare p sc.
Proof. apply settled_fix, prepare_settled. Qed.
Lemma settled_set_subs p x l : settled p x -> settled p (x <| c_subs := l |>).
Proof. intros H. dc x. exact H. Qed.

(** the parent is read through its three names only *)
Definition same_names (p p' : cmd) : Prop :=
  c_name p = c_name p' /\ c_bin_name p = c_bin_name p' /\ c_display_name p = c_display_name p'.
Lemma prepare_ext p p' sc : same_names p p' -> prepare p sc = prepare p' sc.
Proof.
  intros [H1 [H2 H3]]. rewrite !prepare_U. unfold sub_bin, new_disp, self_display. rewrite H1, H2, H3. reflexivity.
Qed.
Lemma same_names_set_subs p l : same_names (p <| c_subs := l |>) p.
Proof. dc p. repeat split. Qed.
Lemma same_names_refl p : same_names p p.
Proof. repeat split. Qed.

(** a subcommand built before it is named ends up the same *)
Theorem prepare_build_self p sc : prepare p (build_self sc) = prepare p sc.
Proof.
  rewrite !prepare_U, build_self_idempotent.
  unfold sub_bin, new_disp. rewrite build_self_name, build_self_disp. reflexivity.
Qed.
Lemma prepare_set_subs_built p x l :
  s_built (c_set x) = true -> prepare p (x <| c_subs := l |>) = (prepare p x) <| c_subs := l |>.
Proof.
  intros Hb. rewrite !prepare_U.
  rewrite (build_self_fix x Hb), (build_self_fix (x <| c_subs := l |>)) by (dc x; exact Hb).
  dc x; reflexivity.
Qed.

(** * the normal form absorbs the in-place mutations *)
Lemma map_upd_first {A B} (g : A -> B) (p : A -> bool) (f : A -> A) l :
  (forall x, g (f x) = g x) -> map g (upd_first p f l) = map g l.
Proof.
  intros H. induction l as [|x t IH]; [reflexivity|]. cbn [upd_first].
  destruct (p x); cbn [map]; [rewrite H; reflexivity | rewrite IH; reflexivity].
Qed.

Lemma norm_sub_ext : forall n p p' sc, same_names p p' -> norm_sub n p sc = norm_sub n p' sc.
Proof. intros n p p' sc H. destruct n; cbn [norm_sub]; rewrite (prepare_ext p p' sc H); reflexivity. Qed.

Lemma set_subs_eq (x : cmd) l l' : l = l' -> x <| c_subs := l |> = x <| c_subs := l' |>.
Proof. intros ->. reflexivity. Qed.
Lemma set_subs_twice (x : cmd) l l' : x <| c_subs := l |> <| c_subs := l' |> = x <| c_subs := l' |>.
Proof. dc x; reflexivity. Qed.

(** a settled slot whose subcommand list was edited: only the list matters *)
Lemma norm_sub_settled n p x l :
  settled p x ->
  norm_sub n p (x <| c_subs := l |>) =
  match n with
  | O => x <| c_subs := [] |>
  | S k => x <| c_subs := map (norm_sub k x) l |>
  end.
Proof.
  intros H. pose proof (settled_fix p _ (settled_set_subs p x l H)) as Hf.
  destruct n; cbn [norm_sub]; rewrite Hf.
  - apply set_subs_twice.
  - change (c_subs (x <| c_subs := l |>)) with l. rewrite set_subs_twice. apply set_subs_eq.
    apply map_ext. intros s. apply norm_sub_ext, same_names_set_subs.
Qed.
Lemma set_subs_same (x : cmd) : x <| c_subs := c_subs x |> = x.
Proof. dc x; reflexivity. Qed.

Theorem norm_sub_touch : forall n p sc path, norm_sub n p (touch (prepare p sc) path) = norm_sub n p sc.
Proof.
  induction n as [|k IH]; intros p sc path.
  - destruct path as [|m rest]; [cbn [touch norm_sub]; rewrite prepare_idempotent; reflexivity|].
    cbn [touch]. rewrite (norm_sub_settled 0 p _ _ (prepare_settled p sc)).
    cbn [norm_sub]. reflexivity.
  - destruct path as [|m rest].
    + cbn [touch norm_sub]. rewrite prepare_idempotent. reflexivity.
    + cbn [touch]. rewrite (norm_sub_settled (S k) p _ _ (prepare_settled p sc)).
      cbn [norm_sub]. apply set_subs_eq. apply map_upd_first. intros s. apply IH.
Qed.

Theorem norm_sub_build_self n p sc : norm_sub n p (build_self sc) = norm_sub n p sc.
Proof. destruct n; cbn [norm_sub]; rewrite prepare_build_self; reflexivity. Qed.

Lemma norm_sub_set_subs_built n p x l :
  s_built (c_set x) = true ->
  norm_sub n p (x <| c_subs := l |>) =
  match n with
  | O => (prepare p x) <| c_subs := [] |>
  | S k => (prepare p x) <| c_subs := map (norm_sub k (prepare p x)) l |>
  end.
Proof.
  intros Hb. destruct n; cbn [norm_sub]; rewrite (prepare_set_subs_built p x l Hb).
  - apply set_subs_twice.
  - change (c_subs ((prepare p x) <| c_subs := l |>)) with l. rewrite set_subs_twice. apply set_subs_eq.
    apply map_ext. intros s. apply norm_sub_ext, same_names_set_subs.
Qed.
Lemma norm_sub_unfold_built n p x :
  s_built (c_set x) = true ->
  norm_sub n p x =
  match n with
  | O => (prepare p x) <| c_subs := [] |>
  | S k => (prepare p x) <| c_subs := map (norm_sub k (prepare p x)) (c_subs x) |>
  end.
Proof. intros Hb. rewrite <- (set_subs_same x) at 1. apply norm_sub_set_subs_built, Hb. Qed.

Theorem norm_sub_sugg : forall n p sc path, norm_sub n p (sugg_build_at false sc path) = norm_sub n p sc.
Proof.
  induction n as [|k IH]; intros p sc path.
  - destruct path; cbn [sugg_build_at];
      (destruct (s_built (c_set sc)) eqn:Hb; [|reflexivity]);
      (destruct (c_bin_name sc); cbn [negb orb andb is_some]; [|reflexivity]);
      rewrite (norm_sub_set_subs_built 0 p sc _ Hb), (norm_sub_unfold_built 0 p sc Hb); reflexivity.
  - destruct path as [|m rest]; cbn [sugg_build_at];
      (destruct (s_built (c_set sc)) eqn:Hb; [|reflexivity]);
      (destruct (c_bin_name sc); cbn [negb orb andb is_some]; [|reflexivity]);
      rewrite (norm_sub_set_subs_built (S k) p sc _ Hb), (norm_sub_unfold_built (S k) p sc Hb); apply set_subs_eq.
    + rewrite map_map. apply map_ext. intros s. apply norm_sub_build_self.
    + apply map_upd_first. intros s. apply IH.
Qed.

(** * every operation preserves the normal form *)
Definition good_name (b : bytes) : bool := utf8_valid b && negb (is_nil b).

Lemma set_bin_U c v : c <| c_bin_name := v |> = U v (c_display_name c) c.
Proof. dc c; reflexivity. Qed.
Lemma build_self_set_bin c v : build_self (c <| c_bin_name := v |>) = (build_self c) <| c_bin_name := v |>.
Proof. rewrite !set_bin_U, names_commute_with_build, build_self_disp. reflexivity. Qed.

Definition root_named (b : bytes) (c : cmd) : cmd :=
  if is_set s_no_binary_name c then c
  else match c_bin_name c with Some _ => c | None => c <| c_bin_name := Some b |> end.
Lemma root_prep_eq b c : root_prep b c = build_self (root_named b c).
Proof. reflexivity. Qed.

Lemma root_prep_built b c : s_built (c_set (root_prep b c)) = true.
Proof. apply build_self_built. Qed.
Lemma root_prep_nbn b c : is_set s_no_binary_name (root_prep b c) = is_set s_no_binary_name c.
Proof.
  rewrite root_prep_eq, build_self_nbn. unfold root_named.
  destruct (is_set s_no_binary_name c) eqn:E; [exact E|].
  destruct (c_bin_name c); [exact E|]. exact E.
Qed.
Lemma root_prep_bin b c :
  is_set s_no_binary_name c = false -> c_bin_name (root_prep b c) <> None.
Proof.
  intros E. rewrite root_prep_eq, build_self_bin. unfold root_named. rewrite E.
  destruct (c_bin_name c) eqn:Eb; [rewrite Eb; discriminate|]. dc c; discriminate.
Qed.

Lemma root_prep_build_self b c : root_prep b (build_self c) = root_prep b c.
Proof.
  rewrite !root_prep_eq. unfold root_named. rewrite build_self_nbn, build_self_bin.
  destruct (is_set s_no_binary_name c); [apply build_self_idempotent|].
  destruct (c_bin_name c); [apply build_self_idempotent|].
  rewrite <- build_self_set_bin. apply build_self_idempotent.
Qed.

(** the prepared root with an edited subcommand list is a fixed point of [root_prep] *)
Lemma root_prep_fix b c l :
  root_prep b ((root_prep b c) <| c_subs := l |>) = (root_prep b c) <| c_subs := l |>.
Proof.
  set (R := root_prep b c).
  assert (Hb : s_built (c_set (R <| c_subs := l |>)) = true) by (exact (root_prep_built b c)).
  rewrite root_prep_eq. unfold root_named.
  change (is_set s_no_binary_name (R <| c_subs := l |>)) with (is_set s_no_binary_name R).
  change (c_bin_name (R <| c_subs := l |>)) with (c_bin_name R).
  destruct (is_set s_no_binary_name R) eqn:E; [apply build_self_fix, Hb|].
  unfold R in E. rewrite root_prep_nbn in E. pose proof (root_prep_bin b c E) as Hn. fold R in Hn.
  destruct (c_bin_name R); [apply build_self_fix, Hb | congruence].
Qed.

Lemma root_prep_set_subs_built b c l :
  s_built (c_set c) = true -> root_prep b (c <| c_subs := l |>) = (root_prep b c) <| c_subs := l |>.
Proof.
  intros Hb. rewrite !root_prep_eq. unfold root_named.
  change (is_set s_no_binary_name (c <| c_subs := l |>)) with (is_set s_no_binary_name c).
  change (c_bin_name (c <| c_subs := l |>)) with (c_bin_name c).
  destruct (is_set s_no_binary_name c).
  - rewrite (build_self_fix c Hb). apply build_self_fix. dc c; exact Hb.
  - destruct (c_bin_name c).
    + rewrite (build_self_fix c Hb). apply build_self_fix. dc c; exact Hb.
    + rewrite !build_self_fix by (dc c; exact Hb). dc c; reflexivity.
Qed.
Lemma root_prep_subs_built b c : s_built (c_set c) = true -> c_subs (root_prep b c) = c_subs c.
Proof.
  intros Hb. rewrite root_prep_eq. unfold root_named.
  destruct (is_set s_no_binary_name c); [rewrite (build_self_fix c Hb); reflexivity|].
  destruct (c_bin_name c); [rewrite (build_self_fix c Hb); reflexivity|].
  rewrite build_self_fix by (dc c; exact Hb). dc c; reflexivity.
Qed.

Lemma norm_children_set_subs n (r : cmd) l :
  norm_children n (r <| c_subs := l |>) = r <| c_subs := map (norm_sub n r) l |>.
Proof.
  unfold norm_children. change (c_subs (r <| c_subs := l |>)) with l. rewrite set_subs_twice.
  apply set_subs_eq. apply map_ext. intros s. apply norm_sub_ext, same_names_set_subs.
Qed.

Lemma norm_touch n b c path : norm n b (touch (root_prep b c) path) = norm n b c.
Proof.
  unfold norm. destruct path as [|m rest]; cbn [touch].
  - rewrite <- (set_subs_same (root_prep b c)) at 1. rewrite root_prep_fix, set_subs_same. reflexivity.
  - rewrite root_prep_fix, norm_children_set_subs. unfold norm_children. apply set_subs_eq.
    apply map_upd_first. intros s. apply norm_sub_touch.
Qed.

Lemma norm_build_self n b c : norm n b (build_self c) = norm n b c.
Proof. unfold norm. rewrite root_prep_build_self. reflexivity. Qed.

Lemma norm_sugg n b c path : norm n b (sugg_build c path) = norm n b c.
Proof.
  unfold sugg_build. destruct path as [|m rest]; cbn [sugg_build_at];
    (destruct (s_built (c_set c)) eqn:Hb; cbn [negb orb andb]; [|reflexivity]);
    unfold norm; rewrite (root_prep_set_subs_built b c _ Hb), norm_children_set_subs;
    unfold norm_children; rewrite (root_prep_subs_built b c Hb); apply set_subs_eq.
  - rewrite map_map. apply map_ext. intros s. apply norm_sub_build_self.
  - apply map_upd_first. intros s. apply norm_sub_sugg.
Qed.

(** the state after a parse: the prepared root, touched along some path *)
Lemma step_parse_state c argv :
  exists path, fst (step c (ParseMut argv)) = touch (build_self (fst (set_bin c argv))) path.
Proof.
  unfold step, parse_mut. destruct (set_bin c argv) as [c1 toks]. unfold do_parse_st.
  cbv beta iota zeta. cbn [fst]. eexists. reflexivity.
Qed.

Lemma set_bin_under b c argv :
  good_name b = true -> argv_under b c argv = true -> build_self (fst (set_bin c argv)) = root_prep b c.
Proof.
  intros Hg Hu. rewrite root_prep_eq. unfold set_bin, argv_under, root_named in *.
  destruct (is_set s_no_binary_name c); [reflexivity|]. cbn [orb] in Hu.
  destruct argv as [|x rest]; [discriminate|]. apply beq_eq in Hu. subst x. cbn [fst].
  destruct (c_bin_name c); [reflexivity|]. unfold good_name in Hg. rewrite Hg. reflexivity.
Qed.

Theorem ops_preserve_normal_form n b c o :
  good_name b = true -> op_under b c o = true -> is_build o = false ->
  norm n b (fst (step c o)) = norm n b c.
Proof.
  intros Hg Hu Hb. destruct o as [argv| | | | | |path]; try discriminate.
  - destruct (step_parse_state c argv) as [path ->].
    rewrite (set_bin_under b c argv Hg Hu). apply norm_touch.
  - apply norm_build_self.
  - apply norm_build_self.
  - apply norm_build_self.
  - reflexivity.
  - apply norm_sugg.
Qed.

(** histories of by-reference calls under one program name, without an explicit [build] *)
Fixpoint hist_ok (b : bytes) (c : cmd) (h : list op) : bool :=
  match h with
  | [] => true
  | o :: t => op_under b c o && negb (is_build o) && hist_ok b (fst (step c o)) t
  end.

Theorem history_normal_form : forall h n b c,
  good_name b = true -> hist_ok b c h = true -> norm n b (run c h) = norm n b c.
Proof.
  induction h as [|o t IH]; intros n b c Hg H; [reflexivity|].
  cbn [hist_ok] in H. apply andb_prop in H. destruct H as [H Ht]. apply andb_prop in H. destruct H as [Hu Hb].
  cbn [run]. rewrite (IH n b _ Hg Ht). apply ops_preserve_normal_form; try assumption.
  destruct (is_build o); [discriminate|reflexivity].
Qed.

(** the state after any such history, prepared for the next parse under [b], agrees with the
    fresh definition prepared the same way on everything down to depth [n] *)
Corollary history_next_parse_state h n b c argv :
  good_name b = true -> hist_ok b c h = true -> argv_under b (run c h) argv = true -> argv_under b c argv = true ->
  norm_children n (build_self (fst (set_bin (run c h) argv))) = norm_children n (build_self (fst (set_bin c argv))).
Proof.
  intros Hg H Hu1 Hu2. rewrite (set_bin_under b _ argv Hg Hu1), (set_bin_under b c argv Hg Hu2).
  exact (history_normal_form h n b c Hg H).
Qed.

(** * non-vacuity and the refuted part *)
Definition ex_prog : bytes := [112; 114; 111; 103].
Definition ex_sub : bytes := [115; 117; 98].
Definition ex_run : bytes := [114; 117; 110].
Definition ex_cmd : cmd :=
  (cmd_new [112]) <| c_version := Some [49] |>
    <| c_subs := [(cmd_new ex_sub) <| c_subs := [cmd_new ex_run] |>; cmd_new [116]] |>.
(** a failing parse into a nested subcommand, a render, the did_you_mean mutation, a parse of the sibling *)
Definition ex_hist : list op :=
  [ParseMut [ex_prog; ex_sub; ex_run; [45; 45; 98; 97; 100]]; RenderHelp; SuggBuild [ex_sub]; Clone;
   ParseMut [ex_prog; [116]]; RenderUsage].

Example ex_good_name : good_name ex_prog = true.
Proof. vm_compute. reflexivity. Qed.
Example ex_hist_ok : hist_ok ex_prog ex_cmd ex_hist = true.
Proof. vm_compute. reflexivity. Qed.
(** the history did mutate the tree: the nested subcommand carries its names now *)
Example ex_hist_mutates :
  option_map c_bin_name (find (name_is ex_sub) (c_subs (run ex_cmd ex_hist))) = Some (Some (ex_prog ++ [32] ++ ex_sub))
  /\ option_map c_bin_name (find (name_is ex_sub) (c_subs ex_cmd)) = Some None.
Proof. vm_compute. split; reflexivity. Qed.
Example ex_settled : settled ex_cmd (prepare ex_cmd (cmd_new ex_sub)).
Proof. apply prepare_settled. Qed.

Definition okind (o : outcome) : option ekind := match o with OErr e => Some (e_kind e) | _ => None end.
Definition parse_kind (c : cmd) (argv : list bytes) : option ekind := okind (fst (fst (parse_mut c argv))).

(** "explicitly built beforehand ... an error of the same kind" does not hold: [build] expands the
    help subcommand into a copy of the subcommand tree, so `help help sub` finds `sub` below `help` *)
Theorem built_beforehand_kind_refuted :
  exists c argv, parse_kind (build_op c) argv <> parse_kind c argv.
Proof.
  exists ex_cmd, [ex_prog; s_help; s_help; ex_sub].
  assert (H1 : parse_kind (build_op ex_cmd) [ex_prog; s_help; s_help; ex_sub] = Some EDisplayHelp) by (vm_compute; reflexivity).
  assert (H2 : parse_kind ex_cmd [ex_prog; s_help; s_help; ex_sub] = Some EInvalidSubcommand) by (vm_compute; reflexivity).
  rewrite H1, H2. discriminate.
Qed.
(** without the help subcommand the two agree on this command (sanity of the witness) *)
Example ex_built_same_kind_elsewhere :
  parse_kind (build_op ex_cmd) [ex_prog; s_help; ex_sub] = parse_kind ex_cmd [ex_prog; s_help; ex_sub]
  /\ parse_kind (build_op ex_cmd) [ex_prog; ex_sub; [45; 45; 98]] = parse_kind ex_cmd [ex_prog; ex_sub; [45; 45; 98]].
Proof. vm_compute. split; reflexivity. Qed.
