(** C11, third pass (4), partial: histories that contain [build()].

    The recorded finding C11-help-tree-after-build lives in exactly one place: [build()] calls
    [_build_recursive(expand_help_tree = true)], whose [_check_help_and_version(true)] gives the
    auto-generated `help` subcommand a copy of the subcommand tree.  The family is delimited here as
    a boolean on the DEFINITION: [nohelp_tree n c] = the help subcommand is disabled
    ([Command::disable_help_subcommand(true)], a global setting) at [c] and at every subcommand down to
    depth [n]; the finding needs a node outside it ([ex_cmd] of the refuted statement is outside).

    Proved (all [n], all fuels):
      - [expand_irrelevant]: at a node of the class [_build_self(true)] = [_build_self(false)];
      - [norm_sub_build_recursive] / [build_tree_normal_form]: inside the class the tree-building half
        of [build()] ([_build_recursive(true)], every fuel) preserves the normal form to every depth,
        i.e. building everything beforehand = building lazily;
      - without the class, for [expand_help_tree = false] ([build_tree_plain_normal_form]): the ONLY
        obstacle is the expansion.
    NOT proved (stays differential): the second half of [build()], [_build_bin_names_internal]
    (it sets the BinNameBuilt mark in every node and bin/display names where unset; the normal form
    overwrites bin names and computes the same display names, but the marks make the trees unequal as
    records, and "the parser never reads BinNameBuilt" is a separate traversal of the parser).
    Full statement, kept visible:
      forall h b c argv, nohelp_tree (every depth) c -> history h may contain Build ->
        parse_result (run c h) argv = parse_result c argv /\ names /\ error. *)
From ClapModel Require Import Base.Bytes Base.Machine Base.Utf8.
From ClapModel Require Import Parse.Cmd Parse.Build Parse.Valid Parse.Matcher Parse.Errors Parse.Validator Parse.Parser.
From ClapModel Require Import ParseProofs.Dispatch.
From ClapModel Require Import Reentrancy.ReentrancyModel Reentrancy.ReentrancyProofs.
From Coq Require Import ZArith List Bool.
From RecordUpdate Require Import RecordSet.
Import RecordSetNotations ListNotations.
Open Scope N_scope.

(** * the class *)
Fixpoint nohelp_tree (n : nat) (c : cmd) : bool :=
  s_disable_help_sub (c_gset c)
  && match n with O => true | S k => forallb (nohelp_tree k) (c_subs c) end.

Lemma nohelp_tree_root n c : nohelp_tree n c = true -> s_disable_help_sub (c_gset c) = true.
Proof. destruct n; cbn [nohelp_tree]; intros H; apply andb_prop in H; apply H. Qed.

(** * at a node of the class the expansion flag is irrelevant *)
Lemma gset_st1 : forall c, c_gset (st1 c) = c_gset c. Proof. pstage st1. Qed.
Lemma gset_st2 : forall c, c_gset (st2 c) = c_gset c. Proof. pstage st2. Qed.
Lemma gset_st3 : forall c, c_gset (st3 c) = c_gset c. Proof. pstage st3. Qed.
Lemma gset_st4 : forall c, c_gset (st4 c) = c_gset c. Proof. pstage st4. Qed.
Lemma gset_pre c : c_gset (bs_propagate (bs_settings c)) = c_gset c.
Proof.
  change (c_gset (bs_propagate (bs_settings c))) with (c_gset (bs_settings c)).
  rewrite bs_settings_eq, gset_st4, gset_st3, gset_st2, gset_st1. reflexivity.
Qed.

Lemma dhs_hv21 X : s_disable_help_sub (c_gset X) = true -> is_set s_disable_help_sub (hv2 (hv1 X)) = true.
Proof.
  intros H. unfold is_set. replace (c_gset (hv2 (hv1 X))) with (c_gset X); [rewrite H; apply orb_true_r|].
  unfold hv2, hv1. destruct (negb (is_set s_disable_help_flag X)); destruct (negb (is_disable_version_flag_set _)); reflexivity.
Qed.
Lemma hv_t_unfold X :
  bs_help_version_t X =
  if negb (is_set s_disable_help_sub (hv2 (hv1 X)))
  then (hv2 (hv1 X)) <| c_subs := c_subs (hv2 (hv1 X)) ++ [help_subcommand_t (hv2 (hv1 X))] |> else hv2 (hv1 X).
Proof. reflexivity. Qed.
Lemma hv_t_eq X : s_disable_help_sub (c_gset X) = true -> bs_help_version_t X = bs_help_version X.
Proof.
  intros H. rewrite hv_t_unfold, bs_hv_eq. unfold hv3. rewrite (dhs_hv21 X H). reflexivity.
Qed.

Theorem expand_irrelevant c : s_disable_help_sub (c_gset c) = true -> build_self_x true c = build_self c.
Proof.
  intros H. unfold build_self_x, build_self. destruct (s_built (c_set c)); [reflexivity|].
  rewrite hv_t_eq; [reflexivity|]. rewrite gset_pre. exact H.
Qed.

(** * recursive building is absorbed by the normal form *)
Lemma norm_sub_after_build_self_x n p e sc :
  (e = true -> s_disable_help_sub (c_gset sc) = true) ->
  norm_sub n p (build_self_x e sc) = norm_sub n p sc.
Proof.
  intros He. destruct e; [rewrite (expand_irrelevant sc (He eq_refl))|]; apply norm_sub_build_self.
Qed.

(** the class survives [_build_self] one level down: the subcommands of the built node are the given
    ones with settings or-ed in and global arguments appended *)
Lemma nohelp_tree_top_change k s s' :
  s_disable_help_sub (c_gset s') = true -> c_subs s' = c_subs s -> nohelp_tree k s = true -> nohelp_tree k s' = true.
Proof.
  intros Hg Hs H. destruct k; cbn [nohelp_tree] in *; rewrite Hg; cbn [andb]; [reflexivity|].
  rewrite Hs. apply andb_prop in H. apply H.
Qed.

Lemma propagate_subcommand_subs p s : c_subs (propagate_subcommand p s) = c_subs s.
Proof.
  unfold propagate_subcommand. destruct (s_propagate_version (c_set p)); [|reflexivity].
  dc s. destruct (c_version p), ver, (c_long_version p), lver; reflexivity.
Qed.
Lemma propagate_subcommand_gset p s :
  s_disable_help_sub (c_gset s) = true -> s_disable_help_sub (c_gset (propagate_subcommand p s)) = true.
Proof.
  intros H. unfold propagate_subcommand.
  match goal with |- s_disable_help_sub (c_gset (?X <| c_set := _ |> <| c_gset := settings_or (c_gset ?Y) _ |>)) = true =>
    change (s_disable_help_sub (c_gset Y) || s_disable_help_sub (c_gset p) = true); assert (E : c_gset Y = c_gset s) end.
  { destruct (s_propagate_version (c_set p)); [|reflexivity].
    dc s. destruct (c_version p), ver, (c_long_version p), lver; reflexivity. }
  rewrite E, H. reflexivity.
Qed.
Lemma fold_add_global_frame gl : forall sc,
  c_subs (fold_left add_global gl sc) = c_subs sc /\ c_gset (fold_left add_global gl sc) = c_gset sc.
Proof.
  induction gl as [|a t IH]; intros sc; cbn [fold_left]; [split; reflexivity|].
  destruct (IH (add_global sc a)) as [H1 H2]. rewrite H1, H2. unfold add_global.
  destruct (is_some _); split; reflexivity.
Qed.

Lemma nohelp_built_subs k c :
  nohelp_tree (S k) c = true -> Forall (fun s => nohelp_tree k s = true) (c_subs (build_self c)).
Proof.
  intros H. pose proof (nohelp_tree_root _ _ H) as Hg.
  cbn [nohelp_tree] in H. apply andb_prop in H. destruct H as [_ Hs].
  rewrite forallb_forall in Hs.
  destruct (s_built (c_set c)) eqn:Hb; [rewrite (build_self_fix c Hb); apply Forall_forall; exact Hs|].
  rewrite (build_self_subs c Hb). unfold pre_globals.
  set (X := bs_propagate (bs_settings c)).
  assert (HX : s_disable_help_sub (c_gset X) = true) by (unfold X; rewrite gset_pre; exact Hg).
  assert (Hsubs : c_subs (bs_help_version X) = map (propagate_subcommand (bs_settings c)) (c_subs c)).
  { rewrite bs_hv_eq. unfold hv3.
    rewrite (dhs_hv21 X HX). cbn [negb].
    transitivity (c_subs X).
    - unfold hv2, hv1. destruct (negb (is_set s_disable_help_flag X)); destruct (negb (is_disable_version_flag_set _)); reflexivity.
    - unfold X. change (c_subs (bs_propagate (bs_settings c))) with (map (propagate_subcommand (bs_settings c)) (c_subs (bs_settings c))).
      f_equal. rewrite bs_settings_eq. unfold st4, st3, st2, st1.
      repeat match goal with |- context[if ?b then _ else _] => destruct b end; reflexivity. }
  set (Y := bs_help_version X) in *.
  change (c_subs (bs_globals Y))
    with (map (fun sc => if beq (c_name sc) s_help && negb (is_set s_disable_help_sub Y) then sc
                         else fold_left add_global (filter a_global (c_args Y)) sc) (c_subs Y)).
  rewrite Hsubs, map_map. apply Forall_forall. intros x Hx. apply in_map_iff in Hx. destruct Hx as [s [<- Hin]].
  specialize (Hs s Hin).
  assert (Hp : nohelp_tree k (propagate_subcommand (bs_settings c) s) = true).
  { apply (nohelp_tree_top_change k s); [apply propagate_subcommand_gset, (nohelp_tree_root _ _ Hs) | apply propagate_subcommand_subs | exact Hs]. }
  destruct (beq _ _ && _); [exact Hp|].
  destruct (fold_add_global_frame (filter a_global (c_args Y)) (propagate_subcommand (bs_settings c) s)) as [F1 F2].
  apply (nohelp_tree_top_change k (propagate_subcommand (bs_settings c) s)); [rewrite F2; apply (nohelp_tree_root _ _ Hp) | exact F1 | exact Hp].
Qed.

Theorem norm_sub_build_recursive : forall n f e p sc,
  (e = true -> nohelp_tree f sc = true) ->
  norm_sub n p (build_recursive_x f e sc) = norm_sub n p sc.
Proof.
  induction n as [|k IH]; intros f e p sc He; (destruct f as [|f']; [reflexivity|]); cbn [build_recursive_x].
  - assert (Hr : e = true -> s_disable_help_sub (c_gset sc) = true) by (intros E; exact (nohelp_tree_root _ _ (He E))).
    rewrite (norm_sub_set_subs_built 0 p (build_self_x e sc) _ (build_self_x_built e sc)).
    rewrite <- (norm_sub_unfold_built 0 p (build_self_x e sc) (build_self_x_built e sc)).
    apply norm_sub_after_build_self_x, Hr.
  - assert (Hr : e = true -> s_disable_help_sub (c_gset sc) = true) by (intros E; exact (nohelp_tree_root _ _ (He E))).
    rewrite (norm_sub_set_subs_built (S k) p (build_self_x e sc) _ (build_self_x_built e sc)).
    rewrite <- (norm_sub_after_build_self_x (S k) p e sc Hr).
    rewrite (norm_sub_unfold_built (S k) p (build_self_x e sc) (build_self_x_built e sc)).
    apply set_subs_eq. rewrite map_map. apply map_ext_in. intros s Hin. apply IH.
    intros E. specialize (He E). subst e. rewrite (expand_irrelevant sc (Hr eq_refl)) in Hin.
    pose proof (nohelp_built_subs f' sc He) as Hall. rewrite Forall_forall in Hall. exact (Hall s Hin).
Qed.

(** the root: [_build_recursive(e)] of any fuel on the definition, then the next parse *)
Theorem build_tree_normal_form n b f e c :
  (e = true -> nohelp_tree f c = true) ->
  norm n b (build_recursive_x f e c) = norm n b c.
Proof.
  intros He. destruct f as [|f']; [reflexivity|]. cbn [build_recursive_x].
  assert (Hr : e = true -> s_disable_help_sub (c_gset c) = true) by (intros E; exact (nohelp_tree_root _ _ (He E))).
  assert (Hbx : build_self_x e c = build_self c) by (destruct e; [apply expand_irrelevant, Hr; reflexivity | reflexivity]).
  rewrite Hbx. unfold norm.
  rewrite (root_prep_set_subs_built b (build_self c) _ (build_self_built c)), root_prep_build_self.
  rewrite norm_children_set_subs. unfold norm_children. apply set_subs_eq.
  rewrite map_map.
  assert (Hsubs : c_subs (root_prep b c) = c_subs (build_self c)).
  { rewrite <- (root_prep_build_self b c). apply root_prep_subs_built, build_self_built. }
  rewrite Hsubs. apply map_ext_in. intros s Hin. apply norm_sub_build_recursive.
  intros E. specialize (He E). pose proof (nohelp_built_subs f' c He) as Hall. rewrite Forall_forall in Hall. exact (Hall s Hin).
Qed.

Corollary build_tree_plain_normal_form n b f c : norm n b (build_recursive_x f false c) = norm n b c.
Proof. apply build_tree_normal_form. discriminate. Qed.

(** * non-vacuity; the witness of the finding is outside the class *)
Definition ex_nohelp : cmd := ex_cmd <| c_gset := settings_none <| s_disable_help_sub := true |> |>.
Definition propagate_gset_example : cmd :=
  ex_nohelp <| c_subs := map (fun s => s <| c_gset := settings_none <| s_disable_help_sub := true |> |>
                                         <| c_subs := map (fun t => t <| c_gset := settings_none <| s_disable_help_sub := true |> |>) (c_subs s) |>)
                             (c_subs ex_nohelp) |>.
Example ex_in_class : nohelp_tree 3 propagate_gset_example = true.
Proof. vm_compute. reflexivity. Qed.
Example ex_finding_outside_class : nohelp_tree 0 ex_cmd = false.
Proof. vm_compute. reflexivity. Qed.
(** inside the class the witness of the finding gives the same kind *)
Example ex_no_finding_in_class :
  parse_kind (build_op propagate_gset_example) [ex_prog; s_help; s_help; ex_sub]
  = parse_kind propagate_gset_example [ex_prog; s_help; s_help; ex_sub].
Proof. vm_compute. reflexivity. Qed.
