(** C11, fourth pass (2): the parser and the validator read a command's subcommand list only through
    the subcommands' signatures, and never read the BinNameBuilt mark -- POINTWISE, without
    [functional_extensionality_dep].

    The third pass proved [parse_loop c' = parse_loop c] as an equality of functions and used the axiom to
    rewrite under the binders of [rbind] continuations.  Here every statement is [forall args, f c' args =
    f c args].  Technique: the bodies of [parse_loop], [short_loop] and [parse_short_arg] are restated with
    the calls that read the subcommand list ([possible_subcommand], [parse_long_arg], [parse_short_arg],
    [match_arg_error], [find_short_subcmd], the recursive call) as PARAMETERS ([loop_body], [short_body],
    [psa_body]; [parse_loop_unfold] etc. tie them to the model by [reflexivity], so a change of Parser.v
    breaks them), and a lock-step tactic ([lock1]) proves that the bodies respect pointwise equality of
    these parameters.  The validator functions take the command as a fixpoint parameter; they are handled
    for two ABSTRACT commands with equal [c_args], [c_groups] and the four settings the validator reads
    (Section V).  [rsm c l v v'] = [c] with another subcommand list and arbitrary BinNameBuilt marks in
    both setting words. *)
From ClapModel Require Import Base.Bytes Base.Machine Base.Utf8 Lex.OsStrExtModel.
From ClapModel Require Import Parse.Cmd Parse.Build Parse.Valid Parse.Matcher Parse.Errors Parse.Validator Parse.Parser.
From ClapModel Require Import ParseProofs.Dispatch.
From Coq Require Import ZArith List Bool.
From RecordUpdate Require Import RecordSet.
Import RecordSetNotations ListNotations.
Open Scope N_scope.

(** * the body of [parse_loop] *)
Section Body.
Variable c : cmd.
Variable PS : bytes -> bool -> option bytes.
Variable PLA : bytes -> bool -> option bytes -> pstate_t -> N -> bool -> ps -> res (ps * presult * bool).
Variable PSA : bytes -> pstate_t -> N -> bool -> ps -> res (ps * presult * bool).
Variable MAE : bytes -> bool -> bool -> error.
Variable REC : lstate -> ps -> res loop_res.

Definition loop_body (tok : bytes) (rest : list bytes) (ls : lstate) (st : ps) : res loop_res :=
    let positional_count := positional_count c in
    let contains_last := existsb a_last (c_args c) in
    let phase1 : res (option (res loop_res) * lstate * ps) :=
      if l_trailing ls then ROk (None, ls, st) else
      let try_sub := is_set s_sub_precedence c
                     || match l_pst ls with PSValuesDone => true | _ => false end in
      match (if try_sub then PS tok (l_vaf ls) else None) with
      | Some sc =>
          if beq sc s_help && negb (is_set s_disable_help_sub c)
          then ROk (Some (ROk (LHelpSub rest st)), ls, st)
          else ROk (Some (ROk (LSub sc false (l_vaf ls) st rest)), ls, st)
      | None =>
        let after_flag (x : ps * presult * bool) : res (option (res loop_res) * lstate * ps) :=
          let '(st1, pr, vaf1) := x in
          let ls1 := mkL (l_pst ls) (l_pos ls) vaf1 false in
          match pr with
          | PRValuesDone => ROk (Some (REC (mkL PSValuesDone (l_pos ls) vaf1 false) st1), ls1, st1)
          | PROpt i => ROk (Some (REC (mkL (PSOpt i) (l_pos ls) vaf1 false) st1), ls1, st1)
          | PRFlagSub n => ROk (Some (ROk (LSub n false vaf1 st1 rest)), ls1, st1)
          | PREqualsNotProvided a =>
              do st2 <- resolve_pending_ignore c st1; ROk (Some (RErr (mkerr c ENoEquals a) st2), ls1, st2)
          | PRNoMatchingArg a =>
              do st2 <- resolve_pending_ignore c st1; ROk (Some (RErr (mkerr c EUnknownArgument a) st2), ls1, st2)
          | PRUnneeded r a =>
              do st2 <- resolve_pending_ignore c st1; ROk (Some (RErr (mkerr c ETooManyValues a) st2), ls1, st2)
          | PRMaybeHyphen => ROk (None, ls1, st1)
          | PRNoArg => ROk (None, ls1, st1)
          | PRAttachedNotConsumed => RPanic 203
          end in
        if is_escape tok then
          do sa <- state_arg c (l_pst ls);
          if match sa with Some a => a_hyphen a | None => false end then ROk (None, ls, st)
          else ROk (Some (REC (mkL (l_pst ls) (l_pos ls) (l_vaf ls) true)
                                     (st <| mt := start_trailing (mt st) |>)), ls, st)
        else match to_long tok with
        | Some (f, ok, v) =>
            do x <- PLA f ok v (l_pst ls) (l_pos ls) (l_vaf ls) st;
            match snd (fst x) with PRNoArg => RPanic 153 | _ => after_flag x end
        | None =>
          match to_short tok with
          | Some r =>
              do x <- PSA r (l_pst ls) (l_pos ls) (l_vaf ls) st;
              match x with
              | (st1, PRFlagSub n, vaf1) =>
                  match fs_at st1 with
                  | Some a =>
                      do d <- expect 243 (checked_sub (cur_idx st1) a);
                      let st2 := st1 <| fs_skip := d + 1 |> in
                      ROk (Some (ROk (LSub n true vaf1 st2 (tok :: rest))), ls, st2)
                  | None => ROk (Some (ROk (LSub n false vaf1 st1 rest)), ls, st1)
                  end
              | (_, PRUnneeded _ _, _) => RPanic 282
              | (_, PRAttachedNotConsumed, _) => RPanic 282
              | _ => after_flag x
              end
          | None => ROk (None, ls, st)
          end
        end
      end in
    do p1 <- phase1;
    let '(early, ls, st) := p1 in
    match early with
    | Some r => r
    | None =>
      match (if l_trailing ls then PSValuesDone else l_pst ls) with
      | PSOpt i =>
          do a <- expect 290 (find_arg c i);
          if check_terminator a tok then
            REC (mkL PSValuesDone (l_pos ls) (l_vaf ls) (l_trailing ls)) st
          else
            do m1 <- expect 297 (pending_values_push (mt st) i None false (Some tok));
            do more <- expect 299 (needs_more_vals m1 a);
            REC (mkL (if more then PSOpt i else PSValuesDone) (l_pos ls) (l_vaf ls) (l_trailing ls))
                       (st <| mt := m1 |>)
      | _ =>
        let pc := l_pos ls in
        let is_second_to_last := (pc + 1 =? positional_count) in
        let low_index_mults := is_second_to_last
             && existsb (fun a => a_is_multiple a && negb (positional_count =? opt_default 0 (a_index a))) (positionals c)
             && match last (map Some (positionals c)) None with Some p => negb (a_last p) | None => false end in
        let is_terminated := match get_pos c pc with Some a => is_some (a_term a) | None => false end in
        let missing_pos := is_set s_allow_missing_pos c && is_second_to_last && negb (l_trailing ls) in
        do pc' <-
          (if (low_index_mults || missing_pos) && negb is_terminated then
             match rest with
             | n :: _ =>
                 match List.find (fun a => match a_index a with Some k => k =? pc | None => false end) (positionals c) with
                 | Some a => do na <- is_new_arg c n a;
                             ROk (if na || is_some (PS n (l_vaf ls)) then pc + 1 else pc)
                 | None => ROk (pc + 1)
                 end
             | [] => ROk (pc + 1)
             end
           else if l_trailing ls && (is_set s_allow_missing_pos c || contains_last) then ROk positional_count
           else ROk pc);
        match get_pos c pc' with
        | Some a =>
            if a_last a && negb (l_trailing ls) then
              do st1 <- resolve_pending_ignore c st;
              RErr (mkerr c EUnknownArgument tok) st1
            else
              let trailing := l_trailing ls || a_tva a in
              do st1 <- (if negb (match pending_arg_id (mt st) with Some i => beq i (a_id a) | None => false end)
                            || negb (a_multiple_values a)
                         then resolve_pending c st else ROk st);
              if check_terminator a tok then
                REC (mkL PSValuesDone (pc' + 1) true trailing) st1
              else
                do m1 <- expect 415 (pending_values_push (mt st1) (a_id a) (Some IIndex) trailing (Some tok));
                if negb (a_is_multiple a)
                then REC (mkL PSValuesDone (pc' + 1) true trailing) (st1 <| mt := m1 |>)
                else REC (mkL (PSPos (a_id a)) pc' true trailing) (st1 <| mt := m1 |>)
        | None =>
            if is_set s_allow_external c then
              if utf8_valid tok then ROk (LExternal tok rest st)
              else do st1 <- resolve_pending_ignore c st; RErr (mkerr c EInvalidUtf8 []) st1
            else do st1 <- resolve_pending_ignore c st;
                 RErr (MAE tok (l_vaf ls) (l_trailing ls)) st1
        end
      end
    end.
End Body.

Lemma parse_loop_unfold c tok rest ls st :
  parse_loop c (tok :: rest) ls st =
  loop_body c (possible_subcommand c) (parse_long_arg c) (parse_short_arg c) (match_arg_error c) (parse_loop c rest) tok rest ls st.
Proof. reflexivity. Qed.

(** * lock-step congruence *)
Lemma rbind_cong {A B} (m m' : res A) (k k' : A -> res B) :
  m = m' -> (forall x, k x = k' x) -> rbind m k = rbind m' k'.
Proof. intros -> H. destruct m'; cbn [rbind]; [apply H | reflexivity | reflexivity]. Qed.

Ltac lock1 :=
  lazymatch goal with
  | |- ?X = ?Y => first [ constr_eq X Y; reflexivity
    | lazymatch X with
      | rbind _ _ => apply rbind_cong; [ | intros ? ]
      | match ?x with _ => _ end =>
          lazymatch Y with match ?y with _ => _ end =>
            first [ constr_eq x y; destruct x
                  | let H := fresh "E" in assert (H : x = y); [ | rewrite H; clear H ] ] end
      | ROk _ => apply f_equal
      | Some _ => apply f_equal
      | (_, _) => apply f_equal2
      | RErr _ _ => apply f_equal2
      end ]
  end.

Section Ext.
Variable c : cmd.
Variables (PS PS' : bytes -> bool -> option bytes).
Variables (PLA PLA' : bytes -> bool -> option bytes -> pstate_t -> N -> bool -> ps -> res (ps * presult * bool)).
Variables (PSA PSA' : bytes -> pstate_t -> N -> bool -> ps -> res (ps * presult * bool)).
Variables (MAE MAE' : bytes -> bool -> bool -> error).
Variables (REC REC' : lstate -> ps -> res loop_res).
Hypothesis HPS : forall a b, PS a b = PS' a b.
Hypothesis HPLA : forall a1 a2 a3 a4 a5 a6 a7, PLA a1 a2 a3 a4 a5 a6 a7 = PLA' a1 a2 a3 a4 a5 a6 a7.
Hypothesis HPSA : forall a1 a2 a3 a4 a5, PSA a1 a2 a3 a4 a5 = PSA' a1 a2 a3 a4 a5.
Hypothesis HMAE : forall a b d, MAE a b d = MAE' a b d.
Hypothesis HREC : forall a b, REC a b = REC' a b.

Ltac atom := first [ apply HPS | apply HPLA | apply HPSA | apply HMAE | apply HREC ].
Ltac lock := repeat first [ atom | lock1 ].

Lemma loop_body_ext tok rest ls st :
  loop_body c PS PLA PSA MAE REC tok rest ls st = loop_body c PS' PLA' PSA' MAE' REC' tok rest ls st.
Proof.
  unfold loop_body. cbv beta zeta.
  lock. all: rewrite HPS; reflexivity.
Qed.
End Ext.

(** * the validator *)
Lemma fold_left_ext2 {A B} (f g : A -> B -> A) : (forall a x, f a x = g a x) -> forall l a, fold_left f l a = fold_left g l a.
Proof. intros H. induction l as [|x t IH]; intros a; [reflexivity|]. cbn [fold_left]. rewrite H. apply IH. Qed.
Lemma fold_right_ext2 {A B} (f g : B -> A -> A) : (forall x a, f x a = g x a) -> forall l a, fold_right f a l = fold_right g a l.
Proof. intros H. induction l as [|x t IH]; intros a; [reflexivity|]. cbn [fold_right]. rewrite H, IH. reflexivity. Qed.

Ltac lockv1 :=
  lazymatch goal with
  | |- ?X = ?Y => first [ constr_eq X Y; reflexivity
    | lazymatch X with
      | match ?x with _ => _ end =>
          lazymatch Y with match ?y with _ => _ end =>
            first [ constr_eq x y; destruct x
                  | let H := fresh "E" in assert (H : x = y); [ | rewrite H; clear H ] ] end
      | fold_left _ ?l ?a => apply fold_left_ext2; intros ? ?
      | fold_right _ ?a ?l => apply fold_right_ext2; intros ? ?
      | map _ ?l => apply map_ext; intros ?
      | first_err _ => apply f_equal
      | Some _ => apply f_equal
      | (_, _) => apply f_equal2
      end ]
  end.

Section V.
Variables c c' : cmd.
Hypothesis Hargs : c_args c' = c_args c.
Hypothesis Hgroups : c_groups c' = c_groups c.
Hypothesis H1 : is_set s_arg_required_else_help c' = is_set s_arg_required_else_help c.
Hypothesis H2 : is_set s_sub_required c' = is_set s_sub_required c.
Hypothesis H3 : is_set s_subs_negate_reqs c' = is_set s_subs_negate_reqs c.
Hypothesis H4 : is_set s_allow_missing_pos c' = is_set s_allow_missing_pos c.

Ltac pre0 := unfold find_arg, find_group, groups_for_arg, positionals, required_graph, requires_fuel;
  rewrite ?Hargs, ?Hgroups, ?H1, ?H2, ?H3, ?H4.
Ltac pre F := unfold F; pre0.

Lemma v_unroll_group_loop : forall fuel g a, unroll_group_loop c' fuel g a = unroll_group_loop c fuel g a.
Proof.
  induction fuel as [|f IH]; intros g a; [reflexivity|]. cbn [unroll_group_loop]. pre0.
  repeat first [ apply IH | lockv1 ].
Qed.
Lemma v_unroll_args_in_group g : unroll_args_in_group c' g = unroll_args_in_group c g.
Proof. unfold unroll_args_in_group. rewrite Hgroups. apply v_unroll_group_loop. Qed.
Lemma v_unroll_requires_loop func root : forall fuel r p a,
  unroll_requires_loop c' func root fuel r p a = unroll_requires_loop c func root fuel r p a.
Proof.
  induction fuel as [|f IH]; intros r p a; [reflexivity|]. cbn [unroll_requires_loop]. pre0.
  repeat first [ apply IH | lockv1 ].
Qed.
Lemma v_unroll_arg_requires func a : unroll_arg_requires c' func a = unroll_arg_requires c func a.
Proof. pre unroll_arg_requires. apply v_unroll_requires_loop. Qed.
Lemma v_gather_arg_direct_conflicts a : gather_arg_direct_conflicts c' a = gather_arg_direct_conflicts c a.
Proof. pre gather_arg_direct_conflicts. reflexivity. Qed.
Lemma v_gather_direct_conflicts i : gather_direct_conflicts c' i = gather_direct_conflicts c i.
Proof. pre gather_direct_conflicts. repeat first [ apply v_gather_arg_direct_conflicts | lockv1 ]. Qed.
Lemma v_conflicts_with_args m : conflicts_with_args c' m = conflicts_with_args c m.
Proof. pre conflicts_with_args. repeat first [ apply v_gather_direct_conflicts | lockv1 ]. Qed.
Lemma v_gather_conflicts p i : gather_conflicts c' p i = gather_conflicts c p i.
Proof. pre gather_conflicts. repeat first [ apply v_gather_direct_conflicts | lockv1 ]. Qed.
Lemma v_validate_exclusive m : validate_exclusive c' m = validate_exclusive c m.
Proof. pre validate_exclusive. reflexivity. Qed.
Lemma v_build_conflict_err n ids : build_conflict_err c' n ids = build_conflict_err c n ids.
Proof. pre build_conflict_err. repeat first [ apply v_unroll_args_in_group | lockv1 ]. Qed.
Lemma v_validate_conflicts m p : validate_conflicts c' m p = validate_conflicts c m p.
Proof. pre validate_conflicts. repeat first [ apply v_validate_exclusive | apply v_gather_conflicts | apply v_build_conflict_err | lockv1 ]. Qed.
Lemma v_gather_requires m r : gather_requires c' m r = gather_requires c m r.
Proof. pre gather_requires. repeat first [ apply v_unroll_arg_requires | lockv1 ]. Qed.
Lemma v_is_missing_required_ok p a : is_missing_required_ok c' p a = is_missing_required_ok c p a.
Proof. pre is_missing_required_ok. repeat first [ apply v_gather_conflicts | lockv1 ]. Qed.
Lemma v_missing_required m p : missing_required c' m p = missing_required c m p.
Proof.
  pre missing_required. cbv zeta.
  repeat first [ apply v_gather_requires | apply v_is_missing_required_ok | apply v_unroll_args_in_group | lockv1 ].
Qed.
Lemma v_validate m : validate c' m = validate c m.
Proof.
  pre validate. cbv zeta.
  repeat first [ apply v_conflicts_with_args | apply v_validate_conflicts | apply v_missing_required | lockv1 ].
Qed.
End V.

(** * the token loop *)
Definition sig (s : cmd) := (c_name s, c_aliases s, c_short_flag s, c_long_flag s, c_short_flag_aliases s, c_long_flag_aliases s).
Definition rs (c : cmd) (l : list cmd) : cmd := c <| c_subs := l |>.
Definition setm (v : bool) (s : settings) : settings := s <| s_bin_name_built := v |>.
(** [c] with another subcommand list and arbitrary BinNameBuilt marks *)
Definition rsm (c : cmd) (l : list cmd) (v v' : bool) : cmd :=
  c <| c_subs := l |> <| c_set := setm v (c_set c) |> <| c_gset := setm v' (c_gset c) |>.

Lemma sig_inv s s' : sig s = sig s' ->
  c_name s = c_name s' /\ c_aliases s = c_aliases s' /\ c_short_flag s = c_short_flag s' /\ c_long_flag s = c_long_flag s'
  /\ c_short_flag_aliases s = c_short_flag_aliases s' /\ c_long_flag_aliases s = c_long_flag_aliases s'.
Proof. unfold sig. intros H. inversion H. repeat split; assumption. Qed.
Definition respects {B} (g : cmd -> B) : Prop := forall s s', sig s = sig s' -> g s = g s'.
Lemma cons_eq_inv {A} (x y : A) t u : x :: t = y :: u -> x = y /\ t = u.
Proof. intros H; inversion H; auto. Qed.
Lemma filter_map_sigs {B} (g : cmd -> option B) : respects g -> forall l l', map sig l = map sig l' -> Cmd.filter_map g l = Cmd.filter_map g l'.
Proof.
  intros Hg. induction l as [|x t IH]; intros [|y u] H; try discriminate; [reflexivity|].
  cbn [map] in H. apply cons_eq_inv in H; destruct H as [Hx Ht]. cbn [Cmd.filter_map]. rewrite (Hg x y Hx). rewrite (IH u Ht). reflexivity.
Qed.
Lemma find_sigs {B} (p : cmd -> bool) (g : cmd -> B) : respects p -> respects g ->
  forall l l', map sig l = map sig l' -> opt_map g (find p l) = opt_map g (find p l').
Proof.
  intros Hp Hg. induction l as [|x t IH]; intros [|y u] H; try discriminate; [reflexivity|].
  cbn [map] in H. apply cons_eq_inv in H; destruct H as [Hx Ht]. cbn [find]. rewrite (Hp x y Hx). destruct (p y); [cbn; f_equal; apply Hg; assumption|].
  apply IH; assumption.
Qed.
Ltac resp := let s := fresh "s" in let s' := fresh "s'" in let H := fresh "H" in
  intros s s' H; apply sig_inv in H; destruct H as (H1 & H2 & H3 & H4 & H5 & H6);
  unfold aliases_to, all_aliases, short_flag_aliases_to, long_flag_aliases_to; rewrite ?H1, ?H2, ?H3, ?H4, ?H5, ?H6; reflexivity.

(** the bodies of [short_loop] and [parse_short_arg] with their subcommand-reading calls abstracted *)
Section SBody.
Variable c : cmd.
Variable FSS : N -> option bytes.
Variable REC : bytes -> presult -> bool -> ps -> res (ps * presult * bool).
Definition short_body (r : bytes) (ret : presult) (vaf : bool) (st : ps) : res (ps * presult * bool) :=
    match sf_next r with
    | None => ROk (st, ret, vaf)
    | Some (inr rest, _) => ROk (st, PRNoMatchingArg (DASH :: rest), vaf)
    | Some (inl ch, r') =>
        match get_short c ch with
        | Some a =>
            if negb (a_takes_value a) then
              do x <- react c (Some IShort) SCmdLine a [] None st;
              REC r' (snd x) true (fst x)
            else
              let val := match r' with [] => None | _ => Some r' end in
              let '(val, has_eq) := match val with
                                    | Some (61 :: v) => (Some v, true)
                                    | _ => (val, false) end in
              do x <- parse_opt_value c IShort val a has_eq st;
              match snd x with
              | PRAttachedNotConsumed => REC r' ret true (fst x)
              | y => ROk (fst x, y, true)
              end
        | None =>
            match FSS ch with
            | Some name =>
                do st1 <- resolve_pending c st;
                let st2 := ps_bump st1 in
                let at_ := match fs_at st2 with Some a => Some a | None => Some (cur_idx st2) end in
                let done := is_nil r' in
                ROk (st2 <| fs_at := if done then None else at_ |>, PRFlagSub name, vaf)
            | None => ROk (st, PRNoMatchingArg (DASH :: encode_utf8 ch), vaf)
            end
        end
    end.
Variable SL : nat -> bytes -> presult -> bool -> ps -> res (ps * presult * bool).
Definition psa_body (r : bytes) (pst : pstate_t) (pos_counter : N) (vaf : bool) (st : ps)
  : res (ps * presult * bool) :=
  do sa <- state_arg c pst;
  if match sa with Some a => a_hyphen a || (a_negnum a && sf_is_negative_number r) | None => false end
  then ROk (st, PRMaybeHyphen, vaf) else
  let pa := get_pos c pos_counter in
  if match pa with Some a => a_negnum a | None => false end && sf_is_negative_number r
  then ROk (st, PRMaybeHyphen, vaf) else
  if match pa with Some a => a_hyphen a && negb (a_last a) | None => false end
     && sf_any_unknown c (S (length r)) r
  then ROk (st, PRMaybeHyphen, vaf) else
  let skip := fs_skip st in
  let st0 := st <| fs_skip := 0 |> in
  do r0 <- expect 920 (sf_advance_by (N.to_nat (N.min skip (N.of_nat (S (length r))))) r);
  SL (S (length r0)) r0 PRNoArg vaf st0.
End SBody.

Lemma short_loop_unfold c f r ret vaf st :
  short_loop c (S f) r ret vaf st = short_body c (find_short_subcmd c) (short_loop c f) r ret vaf st.
Proof. reflexivity. Qed.
Lemma parse_short_arg_unfold c r pst pc vaf st :
  parse_short_arg c r pst pc vaf st = psa_body c (short_loop c) r pst pc vaf st.
Proof. reflexivity. Qed.

Lemma short_body_ext c FSS FSS' REC REC' :
  (forall ch, FSS ch = FSS' ch) -> (forall a b d e, REC a b d e = REC' a b d e) ->
  forall r ret vaf st, short_body c FSS REC r ret vaf st = short_body c FSS' REC' r ret vaf st.
Proof.
  intros HF HR r ret vaf st. unfold short_body. cbv beta zeta.
  repeat first [ apply HF | apply HR | lock1 ].
Qed.
Lemma psa_body_ext c SL SL' :
  (forall a b d e f, SL a b d e f = SL' a b d e f) ->
  forall r pst pc vaf st, psa_body c SL r pst pc vaf st = psa_body c SL' r pst pc vaf st.
Proof.
  intros HS r pst pc vaf st. unfold psa_body. cbv beta zeta.
  repeat first [ apply HS | lock1 ].
Qed.

Section Shallow.
Variables (c : cmd) (l' : list cmd) (v v' : bool).
Hypothesis Hs : map sig (c_subs c) = map sig l'.
Let c' := rsm c l' v v'.

Lemma shm_has_subcommands : has_subcommands c' = has_subcommands c.
Proof. unfold has_subcommands, c', rsm. change (c_subs _) with l' at 1.
  destruct (c_subs c), l'; try discriminate; reflexivity. Qed.

Lemma shm_possible_subcommand tok vaf : possible_subcommand c' tok vaf = possible_subcommand c tok vaf.
Proof.
  unfold possible_subcommand, find_subcommand.
  change (c_subs c') with l'.
  rewrite <- (filter_map_sigs (fun s => if is_prefix tok (c_name s) then Some (c_name s)
                                          else List.find (is_prefix tok) (all_aliases s)) ltac:(resp) _ _ Hs).
  rewrite <- (find_sigs (fun s => aliases_to s tok) c_name ltac:(resp) ltac:(resp) _ _ Hs).
  reflexivity.
Qed.
Lemma shm_possible_long_flag_subcommand l : possible_long_flag_subcommand c' l = possible_long_flag_subcommand c l.
Proof.
  unfold possible_long_flag_subcommand, find_long_subcmd.
  change (c_subs c') with l'.
  rewrite <- (filter_map_sigs (fun s => match c_long_flag s with
                        | None => None
                        | Some lf => if is_prefix l lf then Some (c_name s)
                                     else if existsb (fun p => is_prefix l (fst p)) (c_long_flag_aliases s)
                                          then Some (c_name s) else None end) ltac:(resp) _ _ Hs).
  rewrite <- (find_sigs (fun s => long_flag_aliases_to s l) c_name ltac:(resp) ltac:(resp) _ _ Hs).
  reflexivity.
Qed.
Lemma shm_find_short_subcmd ch : find_short_subcmd c' ch = find_short_subcmd c ch.
Proof.
  unfold find_short_subcmd. change (c_subs c') with l'.
  rewrite <- (find_sigs (fun s => short_flag_aliases_to s ch) c_name ltac:(resp) ltac:(resp) _ _ Hs). reflexivity.
Qed.
Lemma shm_match_arg_error tok vaf tr : match_arg_error c' tok vaf tr = match_arg_error c tok vaf tr.
Proof. unfold match_arg_error. rewrite shm_possible_subcommand, shm_has_subcommands. reflexivity. Qed.
Lemma shm_parse_long_arg a1 a2 a3 a4 a5 a6 a7 : parse_long_arg c' a1 a2 a3 a4 a5 a6 a7 = parse_long_arg c a1 a2 a3 a4 a5 a6 a7.
Proof. unfold parse_long_arg. rewrite shm_possible_long_flag_subcommand. reflexivity. Qed.
Lemma shm_short_loop : forall fuel r ret vaf st, short_loop c' fuel r ret vaf st = short_loop c fuel r ret vaf st.
Proof.
  induction fuel as [|f IH]; intros r ret vaf st; [reflexivity|].
  rewrite !short_loop_unfold.
  transitivity (short_body c (find_short_subcmd c') (short_loop c' f) r ret vaf st); [reflexivity|].
  apply short_body_ext; [apply shm_find_short_subcmd | apply IH].
Qed.
Lemma shm_parse_short_arg a1 a2 a3 a4 a5 : parse_short_arg c' a1 a2 a3 a4 a5 = parse_short_arg c a1 a2 a3 a4 a5.
Proof.
  rewrite !parse_short_arg_unfold.
  transitivity (psa_body c (short_loop c') a1 a2 a3 a4 a5); [reflexivity|].
  apply psa_body_ext. apply shm_short_loop.
Qed.
Lemma shm_parse_loop : forall toks ls st, parse_loop c' toks ls st = parse_loop c toks ls st.
Proof.
  induction toks as [|tok rest IH]; intros ls st; [reflexivity|].
  rewrite !parse_loop_unfold.
  transitivity (loop_body c (possible_subcommand c') (parse_long_arg c') (parse_short_arg c') (match_arg_error c') (parse_loop c' rest) tok rest ls st);
    [reflexivity|].
  apply loop_body_ext; [apply shm_possible_subcommand | apply shm_parse_long_arg | apply shm_parse_short_arg | apply shm_match_arg_error | apply IH].
Qed.
End Shallow.


(** * [assert_app], the validator and the rest of [get_matches_with] at [rsm c l v v'] *)
Lemma forallb_sigs (p : cmd -> bool) : respects p -> forall l l2, map sig l = map sig l2 -> forallb p l = forallb p l2.
Proof.
  intros Hp. induction l as [|x t IH]; intros [|y u] H; try discriminate; [reflexivity|].
  cbn [map] in H. apply cons_eq_inv in H; destruct H as [Hx Ht]. cbn [forallb]. rewrite (Hp x y Hx), (IH u Ht). reflexivity.
Qed.
Lemma flat_map_sigs {B} (g : cmd -> list B) : respects g -> forall l l2, map sig l = map sig l2 -> flat_map g l = flat_map g l2.
Proof.
  intros Hg. induction l as [|x t IH]; intros [|y u] H; try discriminate; [reflexivity|].
  cbn [map] in H. apply cons_eq_inv in H; destruct H as [Hx Ht]. cbn [flat_map]. rewrite (Hg x y Hx), (IH u Ht). reflexivity.
Qed.

Section Shallow2.
Variables (c : cmd) (l' : list cmd) (v v' : bool).
Hypothesis Hs : map sig (c_subs c) = map sig l'.
Let c' := rsm c l' v v'.
Lemma shm_assert_app : assert_app c' = assert_app c.
Proof.
  pose proof (shm_has_subcommands c l' v v' Hs) as Hh. fold c' in Hh.
  unfold assert_app, verify_positionals, all_subcommand_names. rewrite Hh.
  change (c_subs c') with l'.
  rewrite <- (forallb_sigs (fun sc => match c_long_flag sc with Some l => negb (starts_with_dash l) | None => true end) ltac:(resp) _ _ Hs).
  rewrite <- (flat_map_sigs (fun sc => (match c_long_flag sc with Some l => [(l, true, c_name sc)] | None => [] end)
                            ++ map (fun p => (fst p, true, c_name sc)) (c_long_flag_aliases sc)) ltac:(resp) _ _ Hs).
  rewrite <- (flat_map_sigs (fun sc => (match c_short_flag sc with Some s => [(s, true, c_name sc)] | None => [] end)
                            ++ map (fun p => (fst p, true, c_name sc)) (c_short_flag_aliases sc)) ltac:(resp) _ _ Hs).
  rewrite <- (flat_map_sigs (fun s => c_name s :: all_aliases s) ltac:(resp) _ _ Hs).
  reflexivity.
Qed.
End Shallow2.

(** the validator looks neither at the subcommands nor at the marks (no hypothesis on [l]) *)
Lemma shm_validate c l v v' m : validate (rsm c l v v') m = validate c m.
Proof. apply v_validate; reflexivity. Qed.

(** [rs c l] is the instance of [rsm] that keeps the marks *)
Lemma rs_rsm c l : rs c l = rsm c l (s_bin_name_built (c_set c)) (s_bin_name_built (c_gset c)).
Proof.
  destruct c as [n al sf lf sfa lfa args groups subs cset gset ver lver ext bin disp about labout].
  destruct cset, gset. reflexivity.
Qed.

(** * what [get_matches_with] does with the result of the token loop and the subcommand ([Dispatch.post]:
    pending occurrence, env, defaults, validator) *)
Lemma post_rsm c l v v' parsed : post (rsm c l v v') parsed = post c parsed.
Proof.
  destruct parsed as [st|e st|s]; unfold post; [|reflexivity|reflexivity].
  apply rbind_cong; [reflexivity|intros st1].
  apply rbind_cong; [reflexivity|intros st2].
  apply rbind_cong; [reflexivity|intros st3].
  rewrite shm_validate. reflexivity.
Qed.
Lemma post_rs c l parsed : post (rs c l) parsed = post c parsed.
Proof. rewrite rs_rsm. apply post_rsm. Qed.
