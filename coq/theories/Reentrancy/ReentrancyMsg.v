(** C11, third pass (3): the name-dependent lines of the messages.

    What a message of a level shows besides the level's own help text:
      - the version line [Command::_render_version]: [display_name.unwrap_or(name) ver\n];
      - the head of the usage line [Usage::create_*usage*]: [get_usage_name_fallback()] =
        [usage_name], else [bin_name], else [name].  [usage_name] is assigned by [_build_subcommand]
        from the parent's CURRENT [bin_name], a string [mid] rendered from the parent's own definition
        (its required arguments) and the subcommand's names; it is not a field of the shared record,
        so it is computed here along the visited levels exactly as [_build_subcommand] computes it,
        for an ARBITRARY function [mid] of the parent's own definition.
    Both are functions of the own definitions of the visited levels ([ReentrancyDym.parse_levels]),
    hence the same on a fresh, a cloned and a reused definition. *)
From ClapModel Require Import Base.Bytes Base.Machine Base.Utf8.
From ClapModel Require Import Parse.Cmd Parse.Build Parse.Valid Parse.Matcher Parse.Errors Parse.Validator Parse.Parser.
From ClapModel Require Import Reentrancy.ReentrancyModel Reentrancy.ReentrancyProofs Reentrancy.ReentrancyParse.
From ClapModel Require Import Reentrancy.ReentrancyDym.
From Coq Require Import ZArith List Bool.
From RecordUpdate Require Import RecordSet.
Import RecordSetNotations ListNotations.
Open Scope N_scope.

(** [Command::_render_version] *)
Definition render_version (use_long : bool) (c : cmd) : bytes :=
  let ver := if use_long
             then match c_long_version c with Some v => v | None => opt_default [] (c_version c) end
             else match c_version c with Some v => v | None => opt_default [] (c_long_version c) end in
  opt_default (c_name c) (c_display_name c) ++ [32] ++ ver ++ [10].

(** [get_bin_name_fallback] *)
Definition bin_name_fallback (c : cmd) : bytes := opt_default (c_name c) (c_bin_name c).

(** [sc_names] of [_build_subcommand]: [name], or [{name|--long|-s}] for a flag subcommand *)
Definition sc_names (sc : cmd) : bytes :=
  let base := c_name sc
              ++ match c_long_flag sc with Some l => [124; 45; 45] ++ l | None => [] end
              ++ match c_short_flag sc with Some s => [124; 45] ++ encode_utf8 s | None => [] end in
  if is_some (c_long_flag sc) || is_some (c_short_flag sc) then [123] ++ base ++ [125] else base.

(** the [usage_name] that [_build_subcommand] stores in [k] when it is entered from [p] *)
Definition usage_name_at (mid : cmd -> bytes) (p k : cmd) : bytes :=
  match c_bin_name p with
  | Some b => b ++ mid (rs p []) ++ sc_names k
  | None => sc_names k
  end.

Record lines := mkLines { ln_parser_level : bool; ln_usage_head : bytes; ln_version : bytes; ln_long_version : bytes }.

(** the lines of every visited level; the parent of a level is the level visited before it
    (the parser levels form a chain, and the `help <path>` walk continues it) *)
Fixpoint level_lines (mid : cmd -> bytes) (parent : option cmd) (l : list (bool * cmd)) : list lines :=
  match l with
  | [] => []
  | (is_parser, k) :: t =>
      mkLines is_parser
              (match parent with None => bin_name_fallback k | Some p => usage_name_at mid p k end)
              (render_version false k) (render_version true k)
      :: level_lines mid (Some k) t
  end.

Definition parse_lines (mid : cmd -> bytes) (c : cmd) (argv : list bytes) : list lines :=
  level_lines mid None (parse_levels c argv).

(** the stored [bin_name] of a visited subcommand level is what [_build_subcommand] assigned from its
    parent's current name: the representation of [usage_name] by [bin_name] is consistent *)
Lemma prepared_bin_is_usage_name_plain p s :
  c_long_flag s = None -> c_short_flag s = None ->
  c_bin_name (prepare p s) = Some (usage_name_at (fun _ => [32]) p (prepare p s))
  \/ (c_bin_name p = None /\ c_bin_name (prepare p s) = Some (c_name s)).
Proof.
  intros Hl Hs. rewrite prepare_bin. unfold sub_bin, usage_name_at, sc_names.
  assert (Hsig : sig (prepare p s) = sig s) by apply sig_prepare.
  apply sig_inv in Hsig. destruct Hsig as (H1 & _ & H3 & H4 & _).
  rewrite H3, H4, Hl, Hs, H1. cbn [is_some orb].
  destruct (c_bin_name p) as [b|]; [left | right; split]; try reflexivity.
  rewrite !app_nil_r. reflexivity.
Qed.

(** * reused = cloned = fresh *)
Theorem history_messages : forall mid h b c argv,
  good_name b = true -> xhist_ok b c h = true ->
  argv_under b (xrun c h) argv = true -> argv_under b c argv = true ->
  parse_lines mid (xrun c h) argv = parse_lines mid c argv
  /\ err_of (fst (fst (parse_mut (xrun c h) argv))) = err_of (fst (fst (parse_mut c argv))).
Proof.
  intros mid h b c argv Hg Hh Hu1 Hu2.
  destruct (history_independence_dym h b c argv Hg Hh Hu1 Hu2) as (_ & _ & He & Hl).
  split; [|exact He]. unfold parse_lines. rewrite Hl. reflexivity.
Qed.

(** a clone is a definition in the same state: it renders what the original renders *)
Lemma clone_same_state c : fst (xstep c (XOp Clone)) = c.
Proof. reflexivity. Qed.

(** * non-vacuity: after the history of [ReentrancyDym] (failing, mutating parses) *)
Definition ex_mid : cmd -> bytes := fun _ => [32].
Definition w_version : bytes := [45; 45; 118; 101; 114; 115; 105; 111; 110].

Example ex_version_line :
  map ln_version (parse_lines ex_mid (xrun ex_gcmd ex_xhist) [ex_prog; w_version]) = [[112; 32; 49; 10]]
  /\ option_map e_kind (err_of (fst (fst (parse_mut (xrun ex_gcmd ex_xhist) [ex_prog; w_version])))) = Some EDisplayVersion.
Proof. vm_compute. split; reflexivity. Qed.
Example ex_usage_heads :
  map ln_usage_head (parse_lines ex_mid (xrun ex_gcmd ex_xhist) [ex_prog; ex_sub; ex_run; [45; 45; 98; 97; 100]])
  = [ex_prog; ex_prog ++ [32] ++ ex_sub; ex_prog ++ [32] ++ ex_sub ++ [32] ++ ex_run].
Proof. vm_compute. reflexivity. Qed.
Example ex_history_messages_hyps :
  good_name ex_prog = true /\ xhist_ok ex_prog ex_gcmd ex_xhist = true
  /\ argv_under ex_prog (xrun ex_gcmd ex_xhist) [ex_prog; w_version] = true
  /\ argv_under ex_prog ex_gcmd [ex_prog; w_version] = true.
Proof. vm_compute. repeat split; reflexivity. Qed.
