(** C11, third pass (3): the name-dependent lines of the messages.

    What a message of a level shows besides the level's own help text:
      - the version line [Command::_render_version]: [display_name.unwrap_or(name) ver\n];
      - the head of the usage line [Usage::create_*usage*]: [get_usage_name_fallback()] =
        [usage_name], else [bin_name], else [name].  [usage_name] is assigned by [_build_subcommand]
        from the parent's CURRENT [bin_name], a string [mid] rendered from the parent's own definition
        (its required arguments) and the subcommand's names; it is not a field of the shared record,
        so it is computed here along the visited levels exactly as [_build_subcommand] computes it,
        for an ARBITRARY function [mid] of the parent's own definition.
    Both are functions of the own definitions of the visited levels ([ReentrancyDym.parse_levels]),
    hence the same on a fresh, a cloned and a reused definition. *)
From ClapModel Require Import Base.Bytes Base.Machine Base.Utf8.
From ClapModel Require Import Parse.Cmd Parse.Build Parse.Valid Parse.Matcher Parse.Errors Parse.Validator Parse.Parser.
From ClapModel Require Import Reentrancy.ReentrancyModel Reentrancy.ReentrancyProofs Reentrancy.ReentrancyParse.
From ClapModel Require Import Reentrancy.ReentrancyDym.
From ClapModel Require Help.UsageModel.
From Coq Require Import ZArith List Bool.
From RecordUpdate Require Import RecordSet.
Import RecordSetNotations ListNotations.
Open Scope N_scope.

(** [Command::_render_version] *)
Definition render_version (use_long : bool) (c : cmd) : bytes :=
  let ver := if use_long
             then match c_long_version c with Some v => v | None => opt_default [] (c_version c) end
             else match c_version c with Some v => v | None => opt_default [] (c_long_version c) end in
  opt_default (c_name c) (c_display_name c) ++ [32] ++ ver ++ [10].

(** [get_bin_name_fallback] *)
Definition bin_name_fallback (c : cmd) : bytes := opt_default (c_name c) (c_bin_name c).

(** [sc_names] of [_build_subcommand]: [name], or [{name|--long|-s}] for a flag subcommand *)
Definition sc_names (sc : cmd) : bytes :=
  let base := c_name sc
              ++ match c_long_flag sc with Some l => [124; 45; 45] ++ l | None => [] end
              ++ match c_short_flag sc with Some s => [124; 45] ++ encode_utf8 s | None => [] end in
  if is_some (c_long_flag sc) || is_some (c_short_flag sc) then [123] ++ base ++ [125] else base.

(** the [usage_name] that [_build_subcommand] stores in [k] when it is entered from [p] *)
Definition usage_name_at (mid : cmd -> bytes) (p k : cmd) : bytes :=
  match c_bin_name p with
  | Some b => b ++ mid (rs p []) ++ sc_names k
  | None => sc_names k
  end.

Record lines := mkLines { ln_parser_level : bool; ln_usage_head : bytes; ln_version : bytes; ln_long_version : bytes }.

(** the lines of every visited level; the parent of a level is the level visited before it
    (the parser levels form a chain, and the `help <path>` walk continues it) *)
Fixpoint level_lines (mid : cmd -> bytes) (parent : option cmd) (l : list (bool * cmd)) : list lines :=
  match l with
  | [] => []
  | (is_parser, k) :: t =>
      mkLines is_parser
              (match parent with None => bin_name_fallback k | Some p => usage_name_at mid p k end)
              (render_version false k) (render_version true k)
      :: level_lines mid (Some k) t
  end.

Definition parse_lines (mid : cmd -> bytes) (c : cmd) (argv : list bytes) : list lines :=
  level_lines mid None (parse_levels c argv).

(** the stored [bin_name] of a visited subcommand level is what [_build_subcommand] assigned from its
    parent's current name: the representation of [usage_name] by [bin_name] is consistent *)
Lemma prepared_bin_is_usage_name_plain p s :
  c_long_flag s = None -> c_short_flag s = None ->
  c_bin_name (prepare p s) = Some (usage_name_at (fun _ => [32]) p (prepare p s))
  \/ (c_bin_name p = None /\ c_bin_name (prepare p s) = Some (c_name s)).
Proof.
  intros Hl Hs. rewrite prepare_bin. unfold sub_bin, usage_name_at, sc_names.
  assert (Hsig : sig (prepare p s) = sig s) by apply sig_prepare.
  apply sig_inv in Hsig. destruct Hsig as (H1 & _ & H3 & H4 & _).
  rewrite H3, H4, Hl, Hs, H1. cbn [is_some orb].
  destruct (c_bin_name p) as [b|]; [left | right; split]; try reflexivity.
  rewrite !app_nil_r. reflexivity.
Qed.

(** * reused = cloned = fresh *)
Theorem history_messages : forall mid h b c argv,
  good_name b = true -> xhist_ok b c h = true ->
  argv_under b (xrun c h) argv = true -> argv_under b c argv = true ->
  parse_lines mid (xrun c h) argv = parse_lines mid c argv
  /\ err_of (fst (fst (parse_mut (xrun c h) argv))) = err_of (fst (fst (parse_mut c argv))).
Proof.
  intros mid h b c argv Hg Hh Hu1 Hu2.
  destruct (history_independence_dym h b c argv Hg Hh Hu1 Hu2) as (_ & _ & He & Hl).
  split; [|exact He]. unfold parse_lines. rewrite Hl. reflexivity.
Qed.

(** a clone is a definition in the same state: it renders what the original renders *)
Lemma clone_same_state c : fst (xstep c (XOp Clone)) = c.
Proof. reflexivity. Qed.

(** * non-vacuity: after the history of [ReentrancyDym] (failing, mutating parses) *)
Definition ex_mid : cmd -> bytes := fun _ => [32].
Definition w_version : bytes := [45; 45; 118; 101; 114; 115; 105; 111; 110].

Example ex_version_line :
  map ln_version (parse_lines ex_mid (xrun ex_gcmd ex_xhist) [ex_prog; w_version]) = [[112; 32; 49; 10]]
  /\ option_map e_kind (err_of (fst (fst (parse_mut (xrun ex_gcmd ex_xhist) [ex_prog; w_version])))) = Some EDisplayVersion.
Proof. vm_compute. split; reflexivity. Qed.
Example ex_usage_heads :
  map ln_usage_head (parse_lines ex_mid (xrun ex_gcmd ex_xhist) [ex_prog; ex_sub; ex_run; [45; 45; 98; 97; 100]])
  = [ex_prog; ex_prog ++ [32] ++ ex_sub; ex_prog ++ [32] ++ ex_sub ++ [32] ++ ex_run].
Proof. vm_compute. reflexivity. Qed.
Example ex_history_messages_hyps :
  good_name ex_prog = true /\ xhist_ok ex_prog ex_gcmd ex_xhist = true
  /\ argv_under ex_prog (xrun ex_gcmd ex_xhist) [ex_prog; w_version] = true
  /\ argv_under ex_prog ex_gcmd [ex_prog; w_version] = true.
Proof. vm_compute. repeat split; reflexivity. Qed.

(** * fourth pass (3): the [mid] part of [usage_name] -- the required-arguments text that [_build_subcommand]
    (and [_build_bin_names_internal]) put between the parent's bin name and the subcommand's names:
    [Usage::get_required_usage_from(&[], None, true)] of the PARENT, unless SubcommandsNegateReqs /
    ArgsNegateSubcommands.  The requirement graph and its unrolling are the shared ones ([Validator.required_graph],
    C12's [UsageModel.unrolled_reqs] = [unroll_arg_requires] with the matcher-free predicate); the two texts per
    argument are parameters ([Arg::stylized(Some(true))], the member text of [format_group]: C12 models them
    byte-exactly on its help records, the parser's [arg] record has no value names).  The example below was
    replayed on the real crate: `Usage: prog --req <req> <file> sub [COMMAND]`. *)
Section Mid.
(** per-argument texts: [Arg::stylized(styles, Some(true)).to_string()] and the member text of
    [Command::format_group] ([name_no_brackets] for a positional, [Display] otherwise) *)
Variables (sty mem : arg -> bytes).

(** [FlatSet<StyledStr>::insert] *)
Definition fs_insert (x : bytes) (l : list bytes) : list bytes := if existsb (beq x) l then l else l ++ [x].
(** [Command::format_group] *)
Definition format_group_p (p : cmd) (g : id) : option bytes :=
  match unroll_args_in_group p g with
  | None => None
  | Some ms => Some ([60] ++ intercalate [124] (map mem (Cmd.filter_map (find_arg p) ms)) ++ [62])
  end.
(** second loop of [get_required_usage_from(&[], None, true)]: required groups and their members *)
Fixpoint gru_groups (p : cmd) (reqs : list id) (groups : list bytes) (members : list id)
  : option (list bytes * list id) :=
  match reqs with
  | [] => Some (groups, members)
  | req :: t =>
      if is_some (find_group p req) then
        match unroll_args_in_group p req, format_group_p p req with
        | Some gm, Some elem => gru_groups p t (fs_insert elem groups) (UsageModel.idset_extend gm members)
        | _, _ => None
        end
      else if is_some (find_arg p req) then gru_groups p t groups members
      else None                                     (* debug_assert!(self.cmd.find(req).is_some()) *)
  end.
(** third loop: the required arguments outside the listed groups; [incl_last] = true, no matcher *)
Fixpoint gru_split (p : cmd) (members : list id) (reqs : list id) (opts : list bytes) (poss : list (option bytes))
  : option (list bytes * list (option bytes)) :=
  match reqs with
  | [] => Some (opts, poss)
  | req :: t =>
      match find_arg p req with
      | Some a =>
          if mem_id (a_id a) members then gru_split p members t opts poss else
          match a_index a with
          | Some i => gru_split p members t opts (UsageModel.vec_set (N.to_nat i) (sty a) poss)
          | None => gru_split p members t (fs_insert (sty a) opts) poss
          end
      | None => if is_some (find_group p req) then gru_split p members t opts poss
                else None                            (* debug_assert!(self.cmd.find_group(req).is_some()) *)
      end
  end.
(** [Usage::get_required_usage_from(&[], None, true)]; [None] = a panic site of the usage code (C12) *)
Definition required_usage (p : cmd) : option (list bytes) :=
  match UsageModel.unrolled_reqs p (required_graph p) with
  | None => None
  | Some reqs =>
      match gru_groups p reqs [] [] with
      | None => None
      | Some gm =>
          match gru_split p (snd gm) reqs [] [] with
          | None => None
          | Some sp => Some (fst sp ++ fst gm ++ UsageModel.vec_flatten (snd sp))
          end
      end
  end.
(** [mid_string] of [_build_subcommand] / [_build_bin_names_internal] *)
Definition mid_string (p : cmd) : bytes :=
  if negb (is_set s_subs_negate_reqs p) && negb (is_set s_args_negate_subs p)
  then match required_usage p with
       | Some reqs => [32] ++ concat (map (fun s => s ++ [32]) reqs)
       | None => [32]
       end
  else [32].

(** it is rendered from the parent's OWN definition: arguments, groups, two settings *)
Section Own.
Variables p p' : cmd.
Hypothesis Hargs : c_args p' = c_args p.
Hypothesis Hgroups : c_groups p' = c_groups p.
Hypothesis H1 : is_set s_subs_negate_reqs p' = is_set s_subs_negate_reqs p.
Hypothesis H2 : is_set s_args_negate_subs p' = is_set s_args_negate_subs p.
Lemma own_find_arg i : find_arg p' i = find_arg p i. Proof. unfold find_arg. rewrite Hargs. reflexivity. Qed.
Lemma own_find_group i : find_group p' i = find_group p i. Proof. unfold find_group. rewrite Hgroups. reflexivity. Qed.
Lemma own_unrolled_reqs : forall g, UsageModel.unrolled_reqs p' g = UsageModel.unrolled_reqs p g.
Proof.
  induction g as [|a t IH]; [reflexivity|]. cbn [UsageModel.unrolled_reqs].
  rewrite (v_unroll_arg_requires p p' Hargs), IH. reflexivity.
Qed.
Lemma own_format_group g : format_group_p p' g = format_group_p p g.
Proof.
  unfold format_group_p. rewrite (v_unroll_args_in_group p p' Hargs Hgroups).
  destruct (unroll_args_in_group p g) as [ms|]; [|reflexivity].
  assert (E : Cmd.filter_map (find_arg p') ms = Cmd.filter_map (find_arg p) ms).
  { induction ms as [|m t IH]; [reflexivity|]. cbn [Cmd.filter_map]. rewrite own_find_arg, IH. reflexivity. }
  rewrite E. reflexivity.
Qed.
Lemma own_gru_groups : forall reqs groups members, gru_groups p' reqs groups members = gru_groups p reqs groups members.
Proof.
  induction reqs as [|r t IH]; intros groups members; [reflexivity|]. cbn [gru_groups].
  rewrite own_find_group, own_find_arg, (v_unroll_args_in_group p p' Hargs Hgroups), own_format_group.
  destruct (is_some (find_group p r)).
  - destruct (unroll_args_in_group p r); [|reflexivity]. destruct (format_group_p p r); [apply IH|reflexivity].
  - destruct (is_some (find_arg p r)); [apply IH|reflexivity].
Qed.
Lemma own_gru_split members : forall reqs opts poss, gru_split p' members reqs opts poss = gru_split p members reqs opts poss.
Proof.
  induction reqs as [|r t IH]; intros opts poss; [reflexivity|]. cbn [gru_split].
  rewrite own_find_arg, own_find_group. destruct (find_arg p r) as [a|].
  - destruct (mem_id (a_id a) members); [apply IH|]. destruct (a_index a); apply IH.
  - destruct (is_some (find_group p r)); [apply IH|reflexivity].
Qed.
Lemma own_mid_string : mid_string p' = mid_string p.
Proof.
  unfold mid_string, required_usage. rewrite H1, H2.
  replace (required_graph p') with (required_graph p) by (unfold required_graph; rewrite Hargs, Hgroups; reflexivity).
  rewrite own_unrolled_reqs.
  destruct (UsageModel.unrolled_reqs p (required_graph p)) as [reqs|]; [|reflexivity].
  rewrite own_gru_groups. destruct (gru_groups p reqs [] []) as [gm|]; [|reflexivity].
  rewrite own_gru_split. reflexivity.
Qed.
End Own.
Corollary mid_string_rs p l : mid_string (rs p l) = mid_string p.
Proof. apply own_mid_string; reflexivity. Qed.
Corollary mid_string_rsm p l v v' : mid_string (rsm p l v v') = mid_string p.
Proof. apply own_mid_string; reflexivity. Qed.

(** the usage_name [_build_subcommand] stores, with the real [mid] *)
Definition real_usage_name (p k : cmd) : bytes :=
  match c_bin_name p with
  | Some b => b ++ mid_string p ++ sc_names k
  | None => sc_names k
  end.
Lemma usage_name_at_real p k : usage_name_at mid_string p k = real_usage_name p k.
Proof. unfold usage_name_at, real_usage_name. rewrite mid_string_rs. reflexivity. Qed.

Theorem history_messages_real : forall h b c argv,
  good_name b = true -> xhist_ok b c h = true ->
  argv_under b (xrun c h) argv = true -> argv_under b c argv = true ->
  parse_lines mid_string (xrun c h) argv = parse_lines mid_string c argv
  /\ err_of (fst (fst (parse_mut (xrun c h) argv))) = err_of (fst (fst (parse_mut c argv))).
Proof. intros h. apply history_messages. Qed.
End Mid.

(** * non-vacuity: a root with a required option and a required positional; the usage head of `sub` shows them *)
Definition w_req : bytes := [114; 101; 113].
Definition w_file : bytes := [102; 105; 108; 101].
Definition ex_req : arg := (arg_new w_req) <| a_long := Some w_req |> <| a_required := true |> <| a_num := Some r_single |>.
Definition ex_file : arg := (arg_new w_file) <| a_required := true |> <| a_num := Some r_single |>.
Definition ex_rcmd : cmd := ex_cmd <| c_args := [ex_req; ex_file] |>.
Definition ex_sty (a : arg) : bytes :=
  match a_long a with Some l => [45; 45] ++ l ++ [32; 60] ++ a_id a ++ [62] | None => [60] ++ a_id a ++ [62] end.
Definition ex_rhist : list xop :=
  [XParse true [ex_prog; [45; 45; 122; 122; 122]]; XOp RenderUsage; XParse false [ex_prog; ex_sub; ex_run]].
Example ex_real_usage_heads :
  map ln_usage_head (parse_lines (mid_string ex_sty a_id) (xrun ex_rcmd ex_rhist) [ex_prog; ex_sub; ex_run; [45; 45; 98]])
  = [ex_prog;
     ex_prog ++ [32] ++ [45; 45] ++ w_req ++ [32; 60] ++ w_req ++ [62; 32; 60] ++ w_file ++ [62; 32] ++ ex_sub;
     ex_prog ++ [32] ++ ex_sub ++ [32] ++ ex_run]
  /\ xhist_ok ex_prog ex_rcmd ex_rhist = true /\ good_name ex_prog = true.
Proof. vm_compute. repeat split; reflexivity. Qed.
