(** C11: the stateful layer.  One [Command] value that is mutated in place by the by-reference
    entry points of builder/command.rs:

      [try_get_matches_from_mut]  (bin_name from argv[0] if unset, [_do_parse] -> [_build_self(false)];
                                   while parsing, [Parser::parse_subcommand] -> [_build_subcommand]
                                   mutates the chosen subcommand *in place*: bin_name / usage_name are
                                   overwritten, display_name is set if unset, the child is built)
      [build]                     ([_build_recursive(true)] + [_build_bin_names_internal])
      [render_help] / [render_long_help] / [render_usage]   ([_build_self(false)] only)
      [clone]
      and the hidden mutation of a failing parse: [Parser::did_you_mean_error] ->
      [suggestions::did_you_mean_flag] calls [_build_self(false)] on every subcommand of the level
      that rejected an unknown long flag ([SuggBuild]).

    The state is the [cmd] tree itself ([Parse.Cmd]); [Parse.Build.build_subcommand] returns the
    built child functionally, [touch] below writes it back.  usage_name is not a field of the
    shared record: it is assigned at exactly the two sites that assign bin_name, from the same
    parent bin name, so it is represented by bin_name (the rendered usage line is compared by the
    differential run).  Multicall is not modelled. *)
From ClapModel Require Import Base.Bytes Base.Machine Base.Utf8.
From ClapModel Require Import Parse.Cmd Parse.Build Parse.Valid Parse.Matcher Parse.Errors Parse.Validator Parse.Parser.
From Coq Require Import ZArith.
From RecordUpdate Require Import RecordSet.
Import RecordSetNotations.
Open Scope N_scope.

(** * [_check_help_and_version(expand_help_tree)] *)

(** [_copy_subtree_for_help] *)
Fixpoint copy_subtree_for_help (c : cmd) : cmd :=
  match c with
  | mkCmd name _ _ _ _ _ _ _ subs cset gset _ _ _ _ _ about _ =>
      let flags := settings_none <| s_disable_help_flag := true |> <| s_disable_version_flag := true |> in
      (cmd_new name)
        <| c_set := flags <| s_hidden := s_hidden cset || s_hidden gset |> |>
        <| c_gset := flags |>
        <| c_subs := (fix go (l : list cmd) : list cmd :=
                        match l with [] => [] | s :: t => copy_subtree_for_help s :: go t end) subs |>
        <| c_about := about |>
  end.

Definition help_help_subcmd : cmd :=
  (cmd_new s_help) <| c_about := Some s_help_about |>
    <| c_set := settings_none <| s_disable_help_flag := true |> <| s_disable_version_flag := true |> |>.

(** the help subcommand of the [expand_help_tree] path before [_propagate_subcommand]
    (the other path is [Build.help_subcommand]) *)
Definition help_subcmd_base_t (parent : cmd) : cmd :=
  let g := settings_none <| s_disable_help_sub := true |> in
  (cmd_new s_help) <| c_about := Some s_help_about |> <| c_set := g |> <| c_gset := g |>
    <| c_subs := map copy_subtree_for_help (c_subs parent) ++ [help_help_subcmd] |>.

Definition help_subcommand_t (parent : cmd) : cmd :=
  let h := propagate_subcommand parent (help_subcmd_base_t parent) in
  let h := h <| c_version := None |> <| c_long_version := None |>
             <| c_set := (c_set h) <| s_disable_help_flag := true |> <| s_disable_version_flag := true |> |>
             <| c_gset := (c_gset h) <| s_propagate_version := false |> |> in
  fix_help_unset h.

(** [_check_help_and_version(true)]; [_check_help_and_version(false)] is [Build.bs_help_version] *)
Definition bs_help_version_t (c : cmd) : cmd :=
  let c := if negb (is_set s_disable_help_flag c) then c <| c_args := c_args c ++ [help_arg] |> else c in
  let c := if negb (is_disable_version_flag_set c) then c <| c_args := c_args c ++ [version_arg] |> else c in
  if negb (is_set s_disable_help_sub c)
  then c <| c_subs := c_subs c ++ [help_subcommand_t c] |> else c.

(** [_build_self(expand_help_tree)]: with [false] it is the shared [Build.build_self] *)
Definition build_self_x (expand : bool) (c : cmd) : cmd :=
  if expand then
    if s_built (c_set c) then c
    else bs_mark (bs_deprecated (bs_args (bs_globals (bs_help_version_t (bs_propagate (bs_settings c))))))
  else build_self c.

(** [_build_recursive(expand_help_tree)] *)
Fixpoint build_recursive_x (fuel : nat) (expand : bool) (c : cmd) : cmd :=
  match fuel with
  | O => c
  | S f => let c := build_self_x expand c in c <| c_subs := map (build_recursive_x f expand) (c_subs c) |>
  end.

(** * names *)
Definition join_name (prefix name : bytes) : bytes := prefix ++ (if is_nil prefix then [] else [32]) ++ name.
Definition join_display (prefix name : bytes) : bytes := prefix ++ (if is_nil prefix then [] else [45]) ++ name.
Definition self_display (p : cmd) : bytes := opt_default (c_name p) (c_display_name p).

Definition set_display_if_none (p sc : cmd) : cmd :=
  match c_display_name sc with
  | Some _ => sc
  | None => sc <| c_display_name := Some (join_display (self_display p) (c_name sc)) |>
  end.

(** the name part of [_build_subcommand]: bin_name (and usage_name) overwritten from the parent's
    bin name *as it is now*, display_name only if unset *)
Definition sub_bin (p sc : cmd) : bytes :=
  match c_bin_name p with Some b => b ++ [32] ++ c_name sc | None => c_name sc end.
Definition set_names (p sc : cmd) : cmd :=
  set_display_if_none p (sc <| c_bin_name := Some (sub_bin p sc) |>).
(** what [_build_subcommand] leaves in the parent's [subcommands] slot *)
Definition prepare (p sc : cmd) : cmd := build_self (set_names p sc).

(** [_build_bin_names_internal] *)
Fixpoint build_bin_names (fuel : nat) (c : cmd) : cmd :=
  match fuel with
  | O => c
  | S f =>
      if is_set s_bin_name_built c then c else
      let self_bin := opt_default (c_name c) (c_bin_name c) in
      let c1 := c <| c_subs := map (fun sc =>
                      let sc := match c_bin_name sc with
                                | Some _ => sc
                                | None => sc <| c_bin_name := Some (join_name self_bin (c_name sc)) |> end in
                      build_bin_names f (set_display_if_none c sc)) (c_subs c) |> in
      c1 <| c_set := (c_set c1) <| s_bin_name_built := true |> |>
  end.

(** fuel for the two tree walks of [build]: the built tree is at most two levels deeper than the definition *)
Definition build_fuel (c : cmd) : nat := (depth c + depth c + 4)%nat.
(** [Command::build] *)
Definition build_op_with (fuel : nat) (c : cmd) : cmd := build_bin_names fuel (build_recursive_x fuel true c).
Definition build_op (c : cmd) : cmd := build_op_with (build_fuel c) c.

(** * in-place mutation of the subcommand slots *)
Fixpoint upd_first {A} (p : A -> bool) (f : A -> A) (l : list A) : list A :=
  match l with
  | [] => []
  | x :: t => if p x then f x :: t else x :: upd_first p f t
  end.
Definition name_is (n : bytes) (s : cmd) : bool := beq (c_name s) n.

(** the tree after [_build_subcommand] ran along [path] (canonical names from the root) *)
Fixpoint touch (c : cmd) (path : list bytes) : cmd :=
  match path with
  | [] => c
  | n :: rest => c <| c_subs := upd_first (name_is n) (fun s => touch (prepare c s) rest) (c_subs c) |>
  end.

(** [did_you_mean_flag]: every subcommand of the (built) level at [path] gets [_build_self(false)];
    the walk only passes through built, named levels (the parser has been there) *)
Fixpoint sugg_build_at (root : bool) (c : cmd) (path : list bytes) : cmd :=
  if negb (s_built (c_set c)) || (negb root && negb (is_some (c_bin_name c))) then c else
  match path with
  | [] => c <| c_subs := map build_self (c_subs c) |>
  | n :: rest => c <| c_subs := upd_first (name_is n) (fun s => sugg_build_at false s rest) (c_subs c) |>
  end.
Definition sugg_build (c : cmd) (path : list bytes) : cmd := sugg_build_at true c path.

(** * the commands visited by one parse: the [Parser] levels entered through [parse_subcommand]
    ([VNode], each one written back by [touch]) and the levels walked by [parse_help_subcommand]
    on its private clone ([VHelp], not written back) *)
Inductive visit := VNode (c : cmd) | VHelp (c : cmd).

Fixpoint help_trace (sc : cmd) (names : list bytes) : list visit :=
  match names with
  | [] => []
  | n :: rest =>
      match find_subcommand sc n with
      | Some s => match build_subcommand sc (c_name s) with
                  | Some s' => VHelp s' :: help_trace s' rest
                  | None => [] end
      | None => []
      end
  end.

Fixpoint parse_trace (fuel : nat) (c : cmd) (toks : list bytes) (st0 : ps) : list visit :=
  VNode c ::
  match fuel with
  | O => []
  | S fuel' =>
      match parse_loop c toks (mkL PSValuesDone 1 false false) st0 with
      | ROk (LSub name keep_state vaf st rest) =>
          if is_set s_args_negate_subs c && vaf then [] else
          match find_subcommand c name with
          | None => []
          | Some sc0 =>
              match build_subcommand c (c_name sc0) with
              | None => []
              | Some sc =>
                  let sub_st0 := if keep_state then mkPs matcher_new (cur_idx st) (fs_at st) (fs_skip st) else ps_new in
                  parse_trace fuel' sc rest sub_st0
              end
          end
      | ROk (LHelpSub names st) => help_trace c names
      | _ => []
      end
  end.

Definition visit_cmd (v : visit) : cmd := match v with VNode c | VHelp c => c end.
Definition is_vnode (v : visit) : bool := match v with VNode _ => true | VHelp _ => false end.
(** canonical names of the subcommands entered below the root *)
Definition trace_path (tr : list visit) : list bytes :=
  map (fun v => c_name (visit_cmd v)) (filter is_vnode (tl tr)).

(** what the messages of a level are made of besides the level's own definition *)
Definition vnames := (bool * bytes * option bytes * option bytes)%type.
Definition visit_names (v : visit) : vnames :=
  let c := visit_cmd v in (is_vnode v, c_name c, c_bin_name c, c_display_name c).

(** * [try_get_matches_from_mut] *)

(** a bound on the number of parser levels that does not depend on the state: every
    [parse_subcommand] consumes a token or at least one byte of a short cluster *)
Definition parse_fuel (toks : list bytes) : nat :=
  S (S (fold_left (fun n t => (n + S (length t))%nat) toks O)).

(** the argv[0] block (no multicall).  [Path::file_name] is the identity on the plain names the
    generators use *)
Definition set_bin (c : cmd) (argv : list bytes) : cmd * list bytes :=
  if is_set s_no_binary_name c then (c, argv)
  else match argv with
       | [] => (c, [])
       | bin :: rest =>
           (match c_bin_name c with
            | Some _ => c
            | None => if utf8_valid bin && negb (is_nil bin) then c <| c_bin_name := Some bin |> else c end, rest)
       end.

(** [_do_parse] on the state: the result, the visited levels, the state afterwards.
    [get_used_global_args] runs on [self] after the parser returned, i.e. on the mutated tree. *)
Definition do_parse_st (c0 : cmd) (toks : list bytes) : outcome * list visit * cmd :=
  let c := build_self c0 in
  let fuel := parse_fuel toks in
  let tr := parse_trace fuel c toks ps_new in
  let c' := touch c (trace_path tr) in
  let finish (st : ps) : outcome :=
    let m := into_inner (mt st) in
    let globals := used_global_args (S (matches_depth m)) c' m in
    OOk (fst (fill_in_global_values (S (matches_depth m)) globals m [])) in
  let out := match get_matches_with fuel c toks ps_new with
             | ROk st => finish st
             | RErr e st => if is_set s_ignore_errors c && use_stderr (e_kind e) then finish st else OErr e
             | RPanic 0 => OOutOfFuel
             | RPanic s => OPanicked s
             end in
  (out, tr, c').

Definition parse_mut (c : cmd) (argv : list bytes) : outcome * list visit * cmd :=
  let '(c1, toks) := set_bin c argv in do_parse_st c1 toks.

(** * operations and observations *)
Inductive op :=
| ParseMut (argv : list bytes) | Build | RenderHelp | RenderLongHelp | RenderUsage | Clone
| SuggBuild (path : list bytes).

Inductive obs :=
| OParse (o : outcome) (names : list vnames)
| ORender (names : vnames) (args : list id) (subs : list bytes)
| OUnit.

Definition render_obs (c : cmd) : obs :=
  ORender (visit_names (VNode c)) (map a_id (c_args c)) (map c_name (c_subs c)).

Definition step (c : cmd) (o : op) : cmd * obs :=
  match o with
  | ParseMut argv => let '(out, tr, c') := parse_mut c argv in (c', OParse out (map visit_names tr))
  | Build => (build_op c, OUnit)
  | RenderHelp | RenderLongHelp | RenderUsage => let c' := build_self c in (c', render_obs c')
  | Clone => (c, OUnit)
  | SuggBuild path => (sugg_build c path, OUnit)
  end.

Fixpoint run (c : cmd) (h : list op) : cmd :=
  match h with [] => c | o :: t => run (fst (step c o)) t end.
Fixpoint run_obs (c : cmd) (h : list op) : list (obs * cmd) :=
  match h with [] => [] | o :: t => let r := step c o in (snd r, fst r) :: run_obs (fst r) t end.

(** * the normal form: the tree as it would be if every subcommand had been reached by a parse
    under program name [b], cut below depth [n] *)
Definition root_prep (b : bytes) (c : cmd) : cmd :=
  build_self (if is_set s_no_binary_name c then c
              else match c_bin_name c with Some _ => c | None => c <| c_bin_name := Some b |> end).

Fixpoint norm_sub (n : nat) (p sc : cmd) : cmd :=
  let sc' := prepare p sc in
  match n with
  | O => sc' <| c_subs := [] |>
  | S k => sc' <| c_subs := map (norm_sub k sc') (c_subs sc') |>
  end.
Definition norm_children (n : nat) (c : cmd) : cmd := c <| c_subs := map (norm_sub n c) (c_subs c) |>.
Definition norm (n : nat) (b : bytes) (c : cmd) : cmd := norm_children n (root_prep b c).

(** histories "under the same program name [b]" *)
Definition argv_under (b : bytes) (c : cmd) (argv : list bytes) : bool :=
  is_set s_no_binary_name c || match argv with x :: _ => beq x b | [] => false end.
Definition op_under (b : bytes) (c : cmd) (o : op) : bool :=
  match o with ParseMut argv => argv_under b c argv | _ => true end.
Definition is_build (o : op) : bool := match o with Build => true | _ => false end.
