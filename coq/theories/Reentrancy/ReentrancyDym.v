(** C11, third pass (1): the failing parse that mutates.

    [Parser::did_you_mean_error] -> [suggestions::did_you_mean_flag] calls [_build_self(false)] on
    EVERY subcommand of the level that rejected an unknown long flag, when no long flag of that
    level is similar enough.  [ReentrancyModel.sugg_build] is that mutation as an operation of its
    own; here it is folded into the parse that causes it:

      [parse_mut_dym fires c argv] = [parse_mut c argv], and if [fires], the subcommands of the
      deepest parser level reached (the level at [trace_path]: the level that raised the error, also
      when an ancestor with [ignore_errors] swallowed it) are built in place.

    [fires] stands for "the parse ended in [did_you_mean_error] (an unknown long flag) and
    [did_you_mean(arg, longs)] was empty": the similarity [strsim::jaro] is not part of the shared
    parser model, and every theorem below holds for both values -- whatever the similarity says, and
    also if the mutation happened after a parse of any other shape.  [unknown_arg_result] recognises
    the shape on the parser result of the examples.

    - [sugg_after_touch] / [dym_state]: on the parse's own path the guards of [sugg_build_at] never
      block: the state is the touched tree with every subcommand of the failing level built
      (built, but NOT named: that is what a later [_build_subcommand] must still do).
    - [history_independence_dym]: for every finite history of such parses (failing or not, mutating
      or not), renders, clones, under one program name, the next parse gives the parser result, the
      visited names and the error of the fresh definition.
    - [trace_own_agree] / [history_levels_dym]: every level visited by that parse carries the same
      own definition (arguments including the inherited global arguments, in order; settings;
      version; bin / display name) as on the fresh definition. *)
From ClapModel Require Import Base.Bytes Base.Machine Base.Utf8.
From ClapModel Require Import Parse.Cmd Parse.Build Parse.Valid Parse.Matcher Parse.Errors Parse.Validator Parse.Parser.
From ClapModel Require Import Reentrancy.ReentrancyModel Reentrancy.ReentrancyProofs Reentrancy.ReentrancyParse.
From Coq Require Import ZArith List Bool.
From RecordUpdate Require Import RecordSet.
Import RecordSetNotations ListNotations.
Open Scope N_scope.

(** * the model: a parse with the hidden mutation folded in *)
Definition unknown_arg_result (r : res ps) : bool :=
  match r with
  | RErr e _ => match e_kind e with EUnknownArgument => true | _ => false end
  | _ => false
  end.

Definition parse_mut_dym (fires : bool) (c : cmd) (argv : list bytes) : outcome * list visit * cmd :=
  let '(out, tr, c') := parse_mut c argv in
  (out, tr, if fires then sugg_build c' (trace_path tr) else c').

Inductive xop :=
| XParse (fires : bool) (argv : list bytes)
| XOp (o : op).

Definition xstep (c : cmd) (x : xop) : cmd * obs :=
  match x with
  | XParse fires argv => let '(out, tr, c') := parse_mut_dym fires c argv in (c', OParse out (map visit_names tr))
  | XOp o => step c o
  end.
Fixpoint xrun (c : cmd) (h : list xop) : cmd :=
  match h with [] => c | x :: t => xrun (fst (xstep c x)) t end.

Definition xop_under (b : bytes) (c : cmd) (x : xop) : bool :=
  match x with XParse _ argv => argv_under b c argv | XOp o => op_under b c o end.
Definition xis_build (x : xop) : bool := match x with XOp o => is_build o | XParse _ _ => false end.
Fixpoint xhist_ok (b : bytes) (c : cmd) (h : list xop) : bool :=
  match h with
  | [] => true
  | x :: t => xop_under b c x && negb (xis_build x) && xhist_ok b (fst (xstep c x)) t
  end.

(** the observation of such a parse is the observation of the plain parse *)
Lemma xstep_parse_obs fires c argv : snd (xstep c (XParse fires argv)) = snd (step c (ParseMut argv)).
Proof.
  unfold xstep, step, parse_mut_dym. destruct (parse_mut c argv) as [[out tr] c']. reflexivity.
Qed.
Lemma step_parse_fst c argv : fst (step c (ParseMut argv)) = snd (parse_mut c argv).
Proof. unfold step. destruct (parse_mut c argv) as [[out tr] c']. reflexivity. Qed.
Lemma xstep_parse_state fires c argv :
  fst (xstep c (XParse fires argv)) =
  if fires
  then sugg_build (fst (step c (ParseMut argv))) (trace_path (snd (fst (parse_mut c argv))))
  else fst (step c (ParseMut argv)).
Proof.
  rewrite step_parse_fst. unfold xstep, parse_mut_dym. destruct (parse_mut c argv) as [[out tr] c']. cbn [fst snd].
  destruct fires; reflexivity.
Qed.

(** * on the parse's own path the mutation reaches the failing level *)
Fixpoint touch_build (c : cmd) (path : list bytes) : cmd :=
  match path with
  | [] => c <| c_subs := map build_self (c_subs c) |>
  | n :: rest => c <| c_subs := upd_first (name_is n) (fun s => touch_build (prepare c s) rest) (c_subs c) |>
  end.

Lemma upd_first_twice {A} (p : A -> bool) (f g : A -> A) l :
  (forall x, p (f x) = p x) -> upd_first p g (upd_first p f l) = upd_first p (fun x => g (f x)) l.
Proof.
  intros H. induction l as [|a t IH]; [reflexivity|]. cbn [upd_first].
  destruct (p a) eqn:E; cbn [upd_first].
  - rewrite H, E. reflexivity.
  - rewrite E, IH. reflexivity.
Qed.
Lemma upd_first_ext {A} (p : A -> bool) (f g : A -> A) l :
  (forall x, f x = g x) -> upd_first p f l = upd_first p g l.
Proof.
  intros H. induction l as [|a t IH]; [reflexivity|]. cbn [upd_first].
  destruct (p a); [rewrite H | rewrite IH]; reflexivity.
Qed.

Lemma touch_cset c path : c_set (touch c path) = c_set c.
Proof. destruct path; reflexivity. Qed.
Lemma touch_bin c path : c_bin_name (touch c path) = c_bin_name c.
Proof. destruct path; reflexivity. Qed.
Lemma touch_name c path : c_name (touch c path) = c_name c.
Proof. destruct path; reflexivity. Qed.

Theorem sugg_after_touch : forall path root c,
  s_built (c_set c) = true -> (root = true \/ is_some (c_bin_name c) = true) ->
  sugg_build_at root (touch c path) path = touch_build c path.
Proof.
  induction path as [|n rest IH]; intros root c Hb Hr.
  - cbn [touch sugg_build_at touch_build]. rewrite Hb.
    destruct Hr as [-> | ->]; cbn [negb orb andb]; [reflexivity|].
    destruct root; reflexivity.
  - cbn [touch touch_build sugg_build_at].
    change (c_set (c <| c_subs := upd_first (name_is n) (fun s => touch (prepare c s) rest) (c_subs c) |>)) with (c_set c).
    change (c_bin_name (c <| c_subs := upd_first (name_is n) (fun s => touch (prepare c s) rest) (c_subs c) |>)) with (c_bin_name c).
    rewrite Hb.
    assert (G : (negb true || negb root && negb (is_some (c_bin_name c))) = false).
    { destruct Hr as [-> | ->]; [reflexivity|]. destruct root; reflexivity. }
    rewrite G.
    change (c_subs (c <| c_subs := upd_first (name_is n) (fun s => touch (prepare c s) rest) (c_subs c) |>))
      with (upd_first (name_is n) (fun s => touch (prepare c s) rest) (c_subs c)).
    rewrite set_subs_twice. apply set_subs_eq.
    rewrite upd_first_twice.
    + apply upd_first_ext. intros s. apply IH.
      * apply prepare_built.
      * right. rewrite prepare_bin. reflexivity.
    + intros s. unfold name_is. rewrite touch_name, prepare_name. reflexivity.
Qed.

(** the state after a parse that failed this way *)
Theorem dym_state c argv :
  snd (parse_mut_dym true c argv)
  = touch_build (build_self (fst (set_bin c argv))) (trace_path (snd (fst (parse_mut c argv)))).
Proof.
  unfold parse_mut_dym.
  unfold parse_mut. destruct (set_bin c argv) as [c1 toks]. unfold do_parse_st. cbv beta iota zeta. cbn [fst snd andb].
  unfold sugg_build. apply sugg_after_touch; [apply build_self_built | left; reflexivity].
Qed.

(** in that state every subcommand of the failing level is built *)
Fixpoint node_at (c : cmd) (path : list bytes) : option cmd :=
  match path with
  | [] => Some c
  | n :: rest => match find (name_is n) (c_subs c) with Some s => node_at s rest | None => None end
  end.
Lemma find_upd_first {A} (p : A -> bool) (f : A -> A) l :
  (forall x, p (f x) = p x) -> find p (upd_first p f l) = option_map f (find p l).
Proof.
  intros H. induction l as [|a t IH]; [reflexivity|]. cbn [upd_first find].
  destruct (p a) eqn:E; cbn [find].
  - rewrite H, E. reflexivity.
  - rewrite E. exact IH.
Qed.
Lemma touch_build_name : forall path c, c_name (touch_build c path) = c_name c.
Proof. destruct path; reflexivity. Qed.
Theorem touch_build_level_built : forall path c k,
  node_at (touch_build c path) path = Some k -> Forall (fun s => s_built (c_set s) = true) (c_subs k).
Proof.
  induction path as [|n rest IH]; intros c k H.
  - cbn [touch_build node_at] in H. inversion H; subst k.
    change (Forall (fun s => s_built (c_set s) = true) (map build_self (c_subs c))).
    apply Forall_forall. intros x Hx. apply in_map_iff in Hx. destruct Hx as [y [<- _]]. apply build_self_built.
  - cbn [touch_build node_at] in H.
    change (c_subs (c <| c_subs := upd_first (name_is n) (fun s => touch_build (prepare c s) rest) (c_subs c) |>))
      with (upd_first (name_is n) (fun s => touch_build (prepare c s) rest) (c_subs c)) in H.
    rewrite find_upd_first in H.
    + destruct (find (name_is n) (c_subs c)) as [s|]; cbn [option_map] in H; [|discriminate].
      apply (IH _ _ H).
    + intros s. unfold name_is. rewrite touch_build_name, prepare_name. reflexivity.
Qed.

(** * every operation, the mutating parse included, preserves the normal form *)
Lemma xstep_normal_form n b c x :
  good_name b = true -> xop_under b c x = true -> xis_build x = false ->
  norm n b (fst (xstep c x)) = norm n b c.
Proof.
  intros Hg Hu Hb. destruct x as [fires argv|o].
  - rewrite xstep_parse_state.
    destruct fires; [rewrite norm_sugg|];
      exact (ops_preserve_normal_form n b c (ParseMut argv) Hg Hu eq_refl).
  - exact (ops_preserve_normal_form n b c o Hg Hu Hb).
Qed.
Lemma xstep_nbn c x : xis_build x = false -> is_set s_no_binary_name (fst (xstep c x)) = is_set s_no_binary_name c.
Proof.
  intros Hb. destruct x as [fires argv|o].
  - rewrite xstep_parse_state. destruct fires; [rewrite sugg_nbn|]; exact (step_nbn c (ParseMut argv) eq_refl).
  - exact (step_nbn c o Hb).
Qed.

Theorem xhistory_normal_form : forall h n b c,
  good_name b = true -> xhist_ok b c h = true -> norm n b (xrun c h) = norm n b c.
Proof.
  induction h as [|x t IH]; intros n b c Hg H; [reflexivity|].
  cbn [xhist_ok] in H. apply andb_prop in H. destruct H as [H Ht]. apply andb_prop in H. destruct H as [Hu Hb].
  cbn [xrun]. rewrite (IH n b _ Hg Ht). apply xstep_normal_form; try assumption.
  destruct (xis_build x); [discriminate|reflexivity].
Qed.
Lemma xrun_nbn : forall h b c, xhist_ok b c h = true -> is_set s_no_binary_name (xrun c h) = is_set s_no_binary_name c.
Proof.
  induction h as [|x t IH]; intros b c H; [reflexivity|].
  cbn [xhist_ok] in H. apply andb_prop in H. destruct H as [H Ht]. apply andb_prop in H. destruct H as [_ Hb].
  cbn [xrun]. rewrite (IH b _ Ht). apply xstep_nbn. destruct (xis_build x); [discriminate|reflexivity].
Qed.

(** * the own definition of every visited level *)
Definition visit_own (v : visit) : bool * cmd := (is_vnode v, rs (visit_cmd v) []).

Lemma rs_rs (c : cmd) l l' : rs (rs c l) l' = rs c l'.
Proof. unfold rs. apply set_subs_twice. Qed.
Lemma own_agree c1 c2 : agree c1 c2 -> rs c1 [] = rs c2 [].
Proof. intros Ha. destruct (agree_own c1 c2 Ha) as [Hown _]. rewrite Hown, rs_rs. reflexivity. Qed.

Lemma visit_own_node k : visit_own (VNode k) = (true, rs k []).
Proof. reflexivity. Qed.
Lemma visit_own_help k : visit_own (VHelp k) = (false, rs k []).
Proof. reflexivity. Qed.

Lemma help_trace_own_agree : forall names c1 c2, agree c1 c2 ->
  map visit_own (help_trace c1 names) = map visit_own (help_trace c2 names).
Proof.
  induction names as [|n rest IH]; intros c1 c2 Ha; [reflexivity|]. cbn [help_trace].
  destruct (kids_find c1 c2 n Ha) as [[H1 H2]|(s1 & s2 & H1 & H2 & Hn)]; rewrite H1, H2; [reflexivity|].
  rewrite Hn. destruct (kids_build c1 c2 (c_name s2) Ha) as [[B1 B2]|(k1 & k2 & B1 & B2 & Hk)]; rewrite B1, B2; [reflexivity|].
  cbn [map]. rewrite !visit_own_help, (own_agree k1 k2 Hk), (IH k1 k2 Hk). reflexivity.
Qed.

Theorem trace_own_agree : forall fuel c1 c2 toks st, agree c1 c2 ->
  map visit_own (parse_trace fuel c1 toks st) = map visit_own (parse_trace fuel c2 toks st).
Proof.
  induction fuel as [|f IH]; intros c1 c2 toks st Ha; cbn [parse_trace map];
    rewrite !visit_own_node, (own_agree c1 c2 Ha); [reflexivity|].
  f_equal. destruct (agree_own c1 c2 Ha) as [Hown Hs].
  rewrite Hown at 1. rewrite (sh_parse_loop c1 (c_subs c2) Hs).
  destruct (parse_loop c1 toks (mkL PSValuesDone 1 false false) st) as [lr|e st'|s]; [|reflexivity|reflexivity].
  destruct lr as [st1|name keep vaf st1 rest|name vals st1|names st1]; [reflexivity| |reflexivity|].
  - replace (is_set s_args_negate_subs c2) with (is_set s_args_negate_subs c1) by (rewrite Hown; reflexivity).
    destruct (is_set s_args_negate_subs c1 && vaf); [reflexivity|].
    destruct (kids_find c1 c2 name Ha) as [[H1 H2]|(s1 & s2 & H1 & H2 & Hn)]; rewrite H1, H2; [reflexivity|].
    rewrite Hn.
    destruct (kids_build c1 c2 (c_name s2) Ha) as [[B1 B2]|(k1 & k2 & B1 & B2 & Hk)]; rewrite B1, B2; [reflexivity|].
    apply IH, Hk.
  - apply help_trace_own_agree, Ha.
Qed.

Definition parse_levels (c : cmd) (argv : list bytes) : list (bool * cmd) :=
  let '(c1, toks) := set_bin c argv in map visit_own (parse_trace (parse_fuel toks) (build_self c1) toks ps_new).

(** * independence of the next parse from a state with the fresh normal form *)
Theorem independence_of_norm X b c argv :
  good_name b = true ->
  (forall n, norm n b X = norm n b c) ->
  is_set s_no_binary_name X = is_set s_no_binary_name c ->
  argv_under b X argv = true -> argv_under b c argv = true ->
  parse_result X argv = parse_result c argv
  /\ parse_names X argv = parse_names c argv
  /\ err_of (fst (fst (parse_mut X argv))) = err_of (fst (fst (parse_mut c argv)))
  /\ parse_levels X argv = parse_levels c argv.
Proof.
  intros Hg Hn Hnbn Hu1 Hu2.
  assert (Ha : agree (root_prep b X) (root_prep b c)) by (intros n; exact (Hn n)).
  pose proof (set_bin_under b X argv Hg Hu1) as E1. pose proof (set_bin_under b c argv Hg Hu2) as E2.
  pose proof (set_bin_toks X c argv Hnbn) as Et.
  assert (R : parse_result X argv = parse_result c argv).
  { unfold parse_result. destruct (set_bin X argv) as [s1 t1]. destruct (set_bin c argv) as [s2 t2].
    cbn [fst snd] in *. subst t2. rewrite E1, E2. apply gmw_agree, Ha. }
  split; [exact R|]. split; [|split].
  - unfold parse_names. destruct (set_bin X argv) as [s1 t1]. destruct (set_bin c argv) as [s2 t2].
    cbn [fst snd] in *. subst t2. rewrite E1, E2. apply trace_agree, Ha.
  - rewrite !parse_mut_err, R, E1, E2.
    destruct (agree_own _ _ Ha) as [Hown _].
    replace (is_set s_ignore_errors (root_prep b X)) with (is_set s_ignore_errors (root_prep b c)); [reflexivity|].
    rewrite Hown. reflexivity.
  - unfold parse_levels. destruct (set_bin X argv) as [s1 t1]. destruct (set_bin c argv) as [s2 t2].
    cbn [fst snd] in *. subst t2. rewrite E1, E2. apply trace_own_agree, Ha.
Qed.

(** * histories that contain failing parses which build subcommands behind the caller's back *)
Theorem history_independence_dym : forall h b c argv,
  good_name b = true -> xhist_ok b c h = true ->
  argv_under b (xrun c h) argv = true -> argv_under b c argv = true ->
  parse_result (xrun c h) argv = parse_result c argv
  /\ parse_names (xrun c h) argv = parse_names c argv
  /\ err_of (fst (fst (parse_mut (xrun c h) argv))) = err_of (fst (fst (parse_mut c argv)))
  /\ parse_levels (xrun c h) argv = parse_levels c argv.
Proof.
  intros h b c argv Hg Hh Hu1 Hu2.
  apply (independence_of_norm (xrun c h) b c argv Hg); try assumption.
  - intros n. exact (xhistory_normal_form h n b c Hg Hh).
  - exact (xrun_nbn h b c Hh).
Qed.

(** * non-vacuity: a root with a global flag; `prog --zzz` fails with UnknownArgument, the mutation
    builds `sub`, `t` and `help` without naming them; the next parse `prog sub --verbose` names `sub`
    and accepts the inherited global *)
Definition w_verbose : bytes := [118; 101; 114; 98; 111; 115; 101].
Definition ex_global : arg :=
  (arg_new w_verbose) <| a_long := Some w_verbose |> <| a_global := true |> <| a_action := Some ASetTrue |>.
Definition ex_gcmd : cmd := ex_cmd <| c_args := [ex_global] |>.
Definition ex_bad : list bytes := [ex_prog; [45; 45; 122; 122; 122]].
Definition ex_next : list bytes := [ex_prog; ex_sub; 45 :: 45 :: w_verbose].
Definition ex_xhist : list xop := [XParse true ex_bad; XOp RenderUsage; XParse false ex_next; XParse true ex_bad].

Example ex_bad_shape : unknown_arg_result (parse_result ex_gcmd ex_bad) = true.
Proof. vm_compute. reflexivity. Qed.
Example ex_xhist_ok : xhist_ok ex_prog ex_gcmd ex_xhist = true.
Proof. vm_compute. reflexivity. Qed.
(** the mutation is real and is not the plain parse's: the subcommands are built, not named *)
Example ex_dym_mutates :
  map (fun s => (s_built (c_set s), c_bin_name s)) (c_subs (fst (xstep ex_gcmd (XParse true ex_bad))))
    = [(true, None); (true, None); (true, None)]
  /\ map (fun s => (s_built (c_set s), c_bin_name s)) (c_subs (fst (xstep ex_gcmd (XParse false ex_bad))))
    = [(false, None); (false, None); (false, None)].
Proof. vm_compute. split; reflexivity. Qed.
(** the next parse names the subcommand built behind its back and sees the global argument *)
Example ex_dym_then_named :
  parse_names (fst (xstep ex_gcmd (XParse true ex_bad))) ex_next
    = [(true, [112], Some ex_prog, None); (true, ex_sub, Some (ex_prog ++ [32] ++ ex_sub), Some ([112; 45] ++ ex_sub))]
  /\ is_ok (fst (fst (parse_mut (fst (xstep ex_gcmd (XParse true ex_bad))) ex_next))) = true.
Proof. vm_compute. split; reflexivity. Qed.
Example ex_history_independence_dym_hyps :
  good_name ex_prog = true /\ xhist_ok ex_prog ex_gcmd ex_xhist = true
  /\ argv_under ex_prog (xrun ex_gcmd ex_xhist) ex_next = true /\ argv_under ex_prog ex_gcmd ex_next = true.
Proof. vm_compute. repeat split; reflexivity. Qed.
(** the visited level `sub` carries the inherited global *)
Example ex_levels_global :
  map (fun p => map a_id (c_args (snd p))) (parse_levels (xrun ex_gcmd ex_xhist) ex_next)
    = [[w_verbose; s_help; s_version]; [w_verbose; s_help]].
Proof. vm_compute. reflexivity. Qed.
