(** C11, third pass (1b): the final propagation of global values runs on the MUTATED tree.

    [_do_parse] calls [get_used_global_args] on [self] after the parser returned, i.e. on the tree in
    which the visited subcommands have been named and built in place, and [propagate_globals] /
    [fill_in_global_values] then walk the list of ids it collected.  The matches of every level are
    insertion-ordered maps, so the ORDER of that list is observable ([ArgMatches::ids()]).

    - [gmw_chain_ok]: the recorded subcommand chain of the parser result follows exactly the nodes
      that the same parse touched ([trace_path]): each of them is settled (built, named by its parent),
      or it is the last one (an external subcommand that happens to carry a subcommand's name).
    - [uga_agree]: on such a chain [get_used_global_args] of two trees that agree in normal form to
      every depth returns the SAME LIST (same ids, same order, same multiplicities).
    - [outcome_of_norm] / [history_outcome]: hence after every finite history (failing, mutating parses
      included) the complete outcome of the next parse -- the matches of every level after the
      propagation of global values, with the order of their ids -- or the error -- is that of the fresh
      definition.  Class: the subcommand names and aliases of the root are pairwise distinct (one
      conjunct of [assert_app]; every deeper level the parser enters has passed [assert_app]). *)
From ClapModel Require Import Base.Bytes Base.Machine Base.Utf8.
From ClapModel Require Import Parse.Cmd Parse.Build Parse.Valid Parse.Matcher Parse.Errors Parse.Validator Parse.Parser.
From ClapModel Require Import ParseProofs.Dispatch ParseProofs.Chain.
From ClapModel Require Import Reentrancy.ReentrancyModel Reentrancy.ReentrancyProofs Reentrancy.ReentrancyParse.
From ClapModel Require Import Reentrancy.ReentrancyDym.
From Coq Require Import ZArith List Bool.
From RecordUpdate Require Import RecordSet.
Import RecordSetNotations ListNotations.
Open Scope N_scope.

(** * the ids of the global arguments of a command do not depend on whether it is built or named *)
Definition gsig (c : cmd) : list id := map a_id (filter a_global (c_args c)).

Lemma gsig_pos : forall l l',
  map a_id l = map a_id l' -> map a_global l = map a_global l' ->
  map a_id (filter a_global l) = map a_id (filter a_global l').
Proof.
  induction l as [|a t IH]; intros [|a' t'] Hi Hg; cbn [map] in *; try discriminate; [reflexivity|].
  inversion Hi as [[Hi1 Hi2]]. inversion Hg as [[Hg1 Hg2]]. cbn [filter]. rewrite <- Hg1.
  destruct (a_global a); cbn [map]; [rewrite Hi1; f_equal|]; apply IH; assumption.
Qed.

Lemma args_st1 : forall c, c_args (st1 c) = c_args c. Proof. pstage st1. Qed.
Lemma args_st2 : forall c, c_args (st2 c) = c_args c. Proof. pstage st2. Qed.
Lemma args_st3 : forall c, c_args (st3 c) = c_args c. Proof. pstage st3. Qed.
Lemma args_st4 : forall c, c_args (st4 c) = c_args c. Proof. pstage st4. Qed.
Lemma args_hv3 : forall c, c_args (hv3 c) = c_args c. Proof. pstage hv3. Qed.
Lemma gfilter_hv1 c : filter a_global (c_args (hv1 c)) = filter a_global (c_args c).
Proof.
  unfold hv1. destruct (negb (is_set s_disable_help_flag c)); [|reflexivity].
  change (c_args (c <| c_args := c_args c ++ [help_arg] |>)) with (c_args c ++ [help_arg]).
  rewrite filter_app. cbn [filter]. change (a_global help_arg) with false. apply app_nil_r.
Qed.
Lemma gfilter_hv2 c : filter a_global (c_args (hv2 c)) = filter a_global (c_args c).
Proof.
  unfold hv2. destruct (negb (is_disable_version_flag_set c)); [|reflexivity].
  change (c_args (c <| c_args := c_args c ++ [version_arg] |>)) with (c_args c ++ [version_arg]).
  rewrite filter_app. cbn [filter]. change (a_global version_arg) with false. apply app_nil_r.
Qed.

Lemma gsig_build_self s : gsig (build_self s) = gsig s.
Proof.
  destruct (s_built (c_set s)) eqn:Hb; [rewrite (build_self_fix s Hb); reflexivity|].
  destruct (build_self_args_ids s Hb) as [H1 H2].
  unfold gsig. rewrite (gsig_pos _ _ H1 H2).
  unfold pre_globals. rewrite bs_hv_eq, args_hv3, gfilter_hv2, gfilter_hv1.
  change (c_args (bs_propagate (bs_settings s))) with (c_args (bs_settings s)).
  rewrite bs_settings_eq, args_st4, args_st3, args_st2, args_st1. reflexivity.
Qed.
Lemma gsig_U v w c : gsig (U v w c) = gsig c.
Proof. dc c; reflexivity. Qed.
Lemma gsig_prepare p s : gsig (prepare p s) = gsig s.
Proof. rewrite prepare_U, gsig_U. apply gsig_build_self. Qed.

(** * pairwise distinct names and aliases: lookup by name-or-alias of a NAME finds the subcommand of that name *)
Lemma mem_id_app x l1 l2 : mem_id x (l1 ++ l2) = mem_id x l1 || mem_id x l2.
Proof. unfold mem_id. apply existsb_app. Qed.
Lemma nodup_app_r : forall l1 l2, nodup_ids (l1 ++ l2) = true -> nodup_ids l2 = true.
Proof.
  induction l1 as [|x t IH]; intros l2 H; [exact H|]. cbn [app nodup_ids] in H.
  apply andb_prop in H. destruct H as [_ H]. apply IH, H.
Qed.
Lemma nodup_app_disjoint : forall l1 l2 x, nodup_ids (l1 ++ l2) = true -> mem_id x l1 = true -> mem_id x l2 = true -> False.
Proof.
  induction l1 as [|y t IH]; intros l2 x H H1 H2; [discriminate|].
  cbn [app nodup_ids] in H. apply andb_prop in H. destruct H as [Hy H].
  unfold mem_id in H1. cbn [existsb] in H1. apply orb_prop in H1. destruct H1 as [E|H1].
  - apply beq_eq in E. subst y. rewrite mem_id_app, H2, orb_true_r in Hy. discriminate.
  - exact (IH l2 x H H1 H2).
Qed.

Definition all_names (l : list cmd) : list bytes := flat_map (fun s => c_name s :: all_aliases s) l.

Lemma name_in_all_names : forall l s, In s l -> mem_id (c_name s) (all_names l) = true.
Proof.
  induction l as [|a t IH]; intros s Hin; [destruct Hin|]. unfold all_names. cbn [flat_map].
  change (mem_id (c_name s) ((c_name a :: all_aliases a) ++ all_names t) = true).
  rewrite mem_id_app. destruct Hin as [->|Hin].
  - unfold mem_id at 1. cbn [existsb]. rewrite beq_refl. reflexivity.
  - rewrite (IH s Hin). apply orb_true_r.
Qed.

Lemma nodup_find : forall l N s,
  nodup_ids (all_names l) = true -> find (name_is N) l = Some s -> find (fun x => aliases_to x N) l = Some s.
Proof.
  induction l as [|a t IH]; intros N s Hn Hf; [discriminate|].
  unfold all_names in Hn. cbn [flat_map] in Hn.
  change (nodup_ids ((c_name a :: all_aliases a) ++ all_names t) = true) in Hn.
  cbn [find] in *. unfold aliases_to at 1. unfold name_is at 1 in Hf.
  destruct (beq (c_name a) N) eqn:E; [exact Hf|]. cbn [orb].
  destruct (existsb (beq N) (all_aliases a)) eqn:Ea.
  - exfalso. apply find_some_in in Hf. destruct Hf as [Hin Hs]. unfold name_is in Hs. apply beq_eq in Hs.
    apply (nodup_app_disjoint _ _ N Hn).
    + unfold mem_id. cbn [existsb]. rewrite Ea. apply orb_true_r.
    + rewrite <- Hs. apply name_in_all_names, Hin.
  - apply IH; [exact (nodup_app_r _ _ Hn) | exact Hf].
Qed.

Lemma find_upd_first2 {A} (p q : A -> bool) (F : A -> A) : forall l s,
  (forall x, p (F x) = p x) -> find q l = Some s -> find p l = Some s ->
  find p (upd_first q F l) = Some (F s).
Proof.
  intros l s HF. induction l as [|a t IH]; intros Hq Hp; [discriminate|].
  cbn [find upd_first] in *. destruct (q a) eqn:Eq.
  - inversion Hq; subst a. cbn [find]. rewrite HF.
    destruct (p s) eqn:Ep; [reflexivity|]. apply find_some_in in Hp. destruct Hp as [_ Hp]. congruence.
  - cbn [find]. destruct (p a) eqn:Ep.
    + inversion Hp; subst a. apply find_some_in in Hq. destruct Hq as [_ Hq]. congruence.
    + apply IH; assumption.
Qed.

Lemma assert_app_nodup c : assert_app c = true -> nodup_ids (all_subcommand_names c) = true.
Proof.
  unfold assert_app. intros H.
  apply andb_prop in H. destruct H as [H _]. apply andb_prop in H. destruct H as [H _].
  apply andb_prop in H. destruct H as [_ H]. exact H.
Qed.

(** * the recorded chain follows the touched nodes *)
Fixpoint chain_ok (fuel : nat) (c : cmd) (s : option (bytes * matches)) : Prop :=
  match fuel with
  | O => True
  | S f =>
      match s with
      | None => True
      | Some (name, sm) =>
          match find_subcommand c name with
          | None => True
          | Some sc => ms_sub sm = None \/ (settled c sc /\ chain_ok f sc (ms_sub sm))
          end
      end
  end.
Lemma chain_ok_none fu c : chain_ok fu c None.
Proof. destruct fu; exact I. Qed.

Lemma touch_disp c path : c_display_name (touch c path) = c_display_name c.
Proof. destruct path; reflexivity. Qed.
Lemma sig_touch c path : sig (touch c path) = sig c.
Proof. destruct path; [reflexivity|]. cbn [touch]. apply sig_set_subs. Qed.

Lemma trace_path_cons c f sc r s :
  trace_path (VNode c :: parse_trace f sc r s) = c_name sc :: trace_path (parse_trace f sc r s).
Proof. destruct f; reflexivity. Qed.

Lemma post_transfer (P : option (bytes * matches) -> Prop) c parsed :
  holds (fun st => P (mt_sub (mt st))) (fun st => P (mt_sub (mt st))) parsed ->
  holds (fun st => P (mt_sub (mt st))) (fun st => P (mt_sub (mt st))) (post c parsed).
Proof.
  intros H. destruct parsed as [st|e st|x].
  - cbn [holds] in H. eapply holds_weaken.
    + apply (post_keeps_sub c (mt_sub (mt st)) (ROk st)). reflexivity.
    + intros a Ha. unfold S_ in Ha. rewrite Ha. exact H.
    + intros a Ha. unfold S_ in Ha. rewrite Ha. exact H.
  - cbn [holds] in H. eapply holds_weaken.
    + apply (post_keeps_sub c (mt_sub (mt st)) (RErr e st)). reflexivity.
    + intros a Ha. unfold S_ in Ha. rewrite Ha. exact H.
    + intros a Ha. unfold S_ in Ha. rewrite Ha. exact H.
  - exact I.
Qed.

Theorem gmw_chain_ok : forall fuel c toks st0 fu,
  mt_sub (mt st0) = None -> nodup_ids (all_subcommand_names c) = true ->
  holds (fun st => chain_ok fu (touch c (trace_path (parse_trace fuel c toks st0))) (mt_sub (mt st)))
        (fun st => chain_ok fu (touch c (trace_path (parse_trace fuel c toks st0))) (mt_sub (mt st)))
        (get_matches_with fuel c toks st0).
Proof.
  induction fuel as [|f IH]; intros c toks st0 fu H0 Hnd; [exact I|].
  rewrite gmw_unfold.
  apply (post_transfer (fun s => chain_ok fu (touch c (trace_path (parse_trace (S f) c toks st0))) s)).
  unfold parsed_of. cbn [parse_trace].
  pose proof (loop_keeps_sub c toks (mkL PSValuesDone 1 false false) st0) as Hl.
  destruct (parse_loop c toks (mkL PSValuesDone 1 false false) st0) as [lr|e st'|x]; cbn [rbind holds] in *.
  2: { rewrite Hl, H0. apply chain_ok_none. }
  2: { exact I. }
  destruct lr as [st1|name keep vaf st1 rest|name vals st1|names st1]; cbn [lr_st] in Hl.
  - cbn [holds]. rewrite Hl, H0. apply chain_ok_none.
  - unfold after_sub.
    destruct (is_set s_args_negate_subs c && vaf); [cbn [holds]; rewrite Hl, H0; apply chain_ok_none|].
    destruct (find_subcommand c name) as [sc0|]; cbn [expect rbind]; [|exact I].
    rewrite build_subcommand_prepare.
    destruct (find (fun s => beq (c_name s) (c_name sc0)) (c_subs c)) as [s'|] eqn:Ef; cbn [option_map].
    2: { cbn [holds]. rewrite Hl, H0. apply chain_ok_none. }
    set (sc := prepare c s').
    destruct (assert_app sc) eqn:Ea; cbn [negb]; [|exact I].
    change (if keep then mkPs matcher_new (cur_idx st1) (fs_at st1) (fs_skip st1) else ps_new) with (sub_init keep st1).
    rewrite trace_path_cons.
    set (p' := trace_path (parse_trace f sc rest (sub_init keep st1))).
    assert (Hinit : mt_sub (mt (sub_init keep st1)) = None) by (unfold sub_init; destruct keep; reflexivity).
    assert (Hname : c_name sc = c_name sc0).
    { unfold sc. rewrite prepare_name. apply find_some_in in Ef. destruct Ef as [_ Ef]. apply beq_eq in Ef. exact Ef. }
    (* what the recorded chain looks like once the child has returned *)
    assert (Hrec : forall sub_st,
              chain_ok (Nat.pred fu) (touch sc p') (mt_sub (mt sub_st)) ->
              chain_ok fu (touch c (c_name sc :: p')) (mt_sub (mt (record_sub st1 (c_name sc) sub_st)))).
    { intros sub_st Hc. destruct fu as [|fu']; [exact I|]. cbn [Nat.pred] in Hc.
      change (mt_sub (mt (record_sub st1 (c_name sc) sub_st))) with (Some (c_name sc, into_inner (mt sub_st))).
      cbn [chain_ok touch]. unfold find_subcommand.
      change (c_subs (c <| c_subs := upd_first (name_is (c_name sc)) (fun s => touch (prepare c s) p') (c_subs c) |>))
        with (upd_first (name_is (c_name sc)) (fun s => touch (prepare c s) p') (c_subs c)).
      assert (Hq : find (name_is (c_name sc)) (c_subs c) = Some s') by (rewrite Hname; exact Ef).
      rewrite (find_upd_first2 (fun s => aliases_to s (c_name sc)) (name_is (c_name sc))
                 (fun s => touch (prepare c s) p') (c_subs c) s').
      - right. split.
        + fold sc. destruct (prepare_settled c s') as [Hb [Hn Hd]]. fold sc in Hb, Hn, Hd.
          split; [rewrite touch_cset; exact Hb|]. split.
          * rewrite touch_bin, Hn. unfold sub_bin. cbn [touch].
            change (c_bin_name (c <| c_subs := upd_first (name_is (c_name sc)) (fun s => touch (prepare c s) p') (c_subs c) |>))
              with (c_bin_name c).
            rewrite touch_name. reflexivity.
          * rewrite touch_disp. exact Hd.
        + fold sc. exact Hc.
      - intros x. assert (Hs : sig (touch (prepare c x) p') = sig x) by (rewrite sig_touch; apply sig_prepare).
        revert Hs. generalize (touch (prepare c x) p') x. resp.
      - exact Hq.
      - apply nodup_find; [exact Hnd | exact Hq]. }
    pose proof (IH sc rest (sub_init keep st1) (Nat.pred fu) Hinit (assert_app_nodup sc Ea)) as Hsub. fold p' in Hsub.
    destruct (get_matches_with f sc rest (sub_init keep st1)) as [sub_st|e sub_st|x]; cbn [holds] in Hsub |- *.
    + apply Hrec, Hsub.
    + destruct (is_set s_ignore_errors c); cbn [holds]; [apply Hrec, Hsub|].
      rewrite Hl, H0. apply chain_ok_none.
    + exact I.
  - pose proof (external_verbatim c name vals st1) as He.
    destruct (external_matches c name vals st1) as [st2|e st2|x]; cbn [holds] in He |- *; [| |exact I].
    + subst st2. destruct fu as [|fu']; [exact I|]. cbn [chain_ok touch trace_path tl filter map mt_sub mt].
      change (mt_sub (mt (st1 <| mt := mt st1 <| mt_sub := Some (name, Matches [(ext_id, ext_marg vals)] None) |> |>)))
        with (Some (name, Matches [(ext_id, ext_marg vals)] None)).
      cbn [chain_ok]. destruct (find_subcommand c name); [left; reflexivity | exact I].
    + subst st2. rewrite Hl, H0. apply chain_ok_none.
  - cbn [holds]. rewrite Hl, H0. apply chain_ok_none.
Qed.

(** * [get_used_global_args] on a settled chain is a function of the normal form *)
Lemma kids_find_rel c1 c2 n : agree c1 c2 ->
  (find_subcommand c1 n = None /\ find_subcommand c2 n = None)
  \/ (exists s1 s2, find_subcommand c1 n = Some s1 /\ find_subcommand c2 n = Some s2 /\ kid_rel c1 c2 s1 s2).
Proof.
  intros Ha. destruct (agree_inv c1 c2 Ha) as (_ & _ & Hk). unfold find_subcommand.
  destruct (find_kids (kid_rel c1 c2) (fun s => aliases_to s n)
              ltac:(intros s1 s2 [Hs _]; revert Hs; generalize s1 s2; resp) _ _ Hk) as [H|(s1 & s2 & H1 & H2 & Hr)].
  - left. exact H.
  - right. exists s1, s2. auto.
Qed.

Lemma uga_leaf f s sm : ms_sub sm = None -> used_global_args f s sm = match f with O => [] | S _ => gsig s ++ [] end.
Proof. intros E. destruct f; [reflexivity|]. cbn [used_global_args]. rewrite E. reflexivity. Qed.

Theorem uga_agree : forall f c1 c2 m, agree c1 c2 ->
  chain_ok f c1 (ms_sub m) -> chain_ok f c2 (ms_sub m) ->
  used_global_args f c1 m = used_global_args f c2 m.
Proof.
  induction f as [|f IH]; intros c1 c2 m Ha H1 H2; [reflexivity|].
  cbn [used_global_args chain_ok] in *.
  destruct (agree_own c1 c2 Ha) as [Hown _].
  replace (c_args c2) with (c_args c1) by (rewrite Hown; reflexivity). f_equal.
  destruct (ms_sub m) as [[name sm]|]; [|reflexivity].
  destruct (kids_find_rel c1 c2 name Ha) as [[E1 E2]|(s1 & s2 & E1 & E2 & [Hs Hag])]; rewrite E1, E2 in *; [reflexivity|].
  assert (Hleaf : ms_sub sm = None -> used_global_args f s1 sm = used_global_args f s2 sm).
  { intros E. rewrite !(uga_leaf f _ sm E). destruct f; [reflexivity|]. f_equal.
    rewrite <- (gsig_prepare c1 s1), <- (gsig_prepare c2 s2). unfold gsig.
    destruct (agree_own _ _ Hag) as [Ho _]. rewrite Ho. reflexivity. }
  destruct H1 as [E|[Hs1 Hc1]]; [exact (Hleaf E)|].
  destruct H2 as [E|[Hs2 Hc2]]; [exact (Hleaf E)|].
  rewrite (settled_fix c1 s1 Hs1), (settled_fix c2 s2 Hs2) in Hag.
  exact (IH s1 s2 sm Hag Hc1 Hc2).
Qed.

(** * the complete outcome *)
Lemma root_prep_touch_fix b c path : root_prep b (touch (root_prep b c) path) = touch (root_prep b c) path.
Proof.
  destruct path as [|m rest]; cbn [touch].
  - rewrite <- (set_subs_same (root_prep b c)) at 1. rewrite root_prep_fix. apply set_subs_same.
  - apply root_prep_fix.
Qed.

Definition finish_on (c' : cmd) (st : ps) : outcome :=
  let m := into_inner (mt st) in
  OOk (fst (fill_in_global_values (S (matches_depth m)) (used_global_args (S (matches_depth m)) c' m) m [])).

Lemma parse_mut_outcome c argv :
  fst (fst (parse_mut c argv)) =
  let c1 := build_self (fst (set_bin c argv)) in
  let toks := snd (set_bin c argv) in
  let c' := touch c1 (trace_path (parse_trace (parse_fuel toks) c1 toks ps_new)) in
  match parse_result c argv with
  | ROk st => finish_on c' st
  | RErr e st => if is_set s_ignore_errors c1 && use_stderr (e_kind e) then finish_on c' st else OErr e
  | RPanic 0 => OOutOfFuel
  | RPanic s => OPanicked s
  end.
Proof.
  unfold parse_mut, parse_result. destruct (set_bin c argv) as [c1 toks]. unfold do_parse_st. cbv beta iota zeta. cbn [fst snd].
  reflexivity.
Qed.

Lemma all_subcommand_names_sigs c1 c2 :
  map sig (c_subs c1) = map sig (c_subs c2) -> all_subcommand_names c1 = all_subcommand_names c2.
Proof.
  intros Hs. unfold all_subcommand_names.
  apply (flat_map_sigs (fun s => c_name s :: all_aliases s)); [resp | exact Hs].
Qed.

Theorem outcome_of_norm X b c argv :
  good_name b = true ->
  (forall n, norm n b X = norm n b c) ->
  is_set s_no_binary_name X = is_set s_no_binary_name c ->
  argv_under b X argv = true -> argv_under b c argv = true ->
  nodup_ids (all_subcommand_names (root_prep b c)) = true ->
  fst (fst (parse_mut X argv)) = fst (fst (parse_mut c argv)).
Proof.
  intros Hg Hn Hnbn Hu1 Hu2 Hnd.
  destruct (independence_of_norm X b c argv Hg Hn Hnbn Hu1 Hu2) as (R & _ & _ & _).
  assert (Ha : agree (root_prep b X) (root_prep b c)) by (intros n; exact (Hn n)).
  pose proof (set_bin_under b X argv Hg Hu1) as E1. pose proof (set_bin_under b c argv Hg Hu2) as E2.
  pose proof (set_bin_toks X c argv Hnbn) as Et.
  rewrite !parse_mut_outcome. cbv zeta. rewrite E1, E2, Et, R.
  set (toks := snd (set_bin c argv)).
  set (pX := trace_path (parse_trace (parse_fuel toks) (root_prep b X) toks ps_new)).
  set (pc := trace_path (parse_trace (parse_fuel toks) (root_prep b c) toks ps_new)).
  destruct (agree_own _ _ Ha) as [Hown Hsigs].
  assert (HndX : nodup_ids (all_subcommand_names (root_prep b X)) = true).
  { rewrite (all_subcommand_names_sigs _ _ Hsigs). exact Hnd. }
  assert (Ha' : agree (touch (root_prep b X) pX) (touch (root_prep b c) pc)).
  { intros n. pose proof (norm_touch n b X pX) as T1. pose proof (norm_touch n b c pc) as T2.
    unfold norm in T1, T2. rewrite root_prep_touch_fix in T1, T2. rewrite T1, T2. exact (Hn n). }
  assert (Hfin : forall st,
            (parse_result c argv = ROk st \/ exists e, parse_result c argv = RErr e st) ->
            finish_on (touch (root_prep b X) pX) st = finish_on (touch (root_prep b c) pc) st).
  { intros st Hst. unfold finish_on. cbv zeta.
    rewrite (uga_agree _ _ _ (into_inner (mt st)) Ha'); [reflexivity| |].
    - pose proof (gmw_chain_ok (parse_fuel toks) (root_prep b X) toks ps_new (S (matches_depth (into_inner (mt st)))) eq_refl HndX) as HX.
      fold pX in HX. unfold parse_result in R, Hst.
      destruct (set_bin X argv) as [x1 t1]. destruct (set_bin c argv) as [x2 t2]. cbn [fst snd] in *. subst t1. subst toks.
      rewrite E1 in R. rewrite E2 in R, Hst. rewrite R in HX.
      destruct Hst as [Hst|[e Hst]]; rewrite Hst in HX; exact HX.
    - pose proof (gmw_chain_ok (parse_fuel toks) (root_prep b c) toks ps_new (S (matches_depth (into_inner (mt st)))) eq_refl Hnd) as Hc.
      fold pc in Hc. unfold parse_result in Hst.
      destruct (set_bin c argv) as [x2 t2]. cbn [fst snd] in *. subst toks.
      rewrite E2 in Hst.
      destruct Hst as [Hst|[e Hst]]; rewrite Hst in Hc; exact Hc. }
  replace (is_set s_ignore_errors (root_prep b X)) with (is_set s_ignore_errors (root_prep b c)) by (rewrite Hown; reflexivity).
  destruct (parse_result c argv) as [st|e st|s] eqn:Er.
  - apply Hfin. left. reflexivity.
  - destruct (is_set s_ignore_errors (root_prep b c) && use_stderr (e_kind e)); [|reflexivity].
    apply Hfin. right. exists e. reflexivity.
  - reflexivity.
Qed.

Lemma all_subcommand_names_U v w c : all_subcommand_names (U v w c) = all_subcommand_names c.
Proof. dc c; reflexivity. Qed.
Lemma root_prep_names b c : all_subcommand_names (root_prep b c) = all_subcommand_names (build_self c).
Proof.
  rewrite root_prep_eq. unfold root_named. destruct (is_set s_no_binary_name c); [reflexivity|].
  destruct (c_bin_name c); [reflexivity|]. rewrite set_bin_U, names_commute_with_build. apply all_subcommand_names_U.
Qed.

(** the subcommand names and aliases of the (built) root are pairwise distinct: a conjunct of the
    debug assertions of [_build_self] *)
Definition root_names_distinct (c : cmd) : bool := nodup_ids (all_subcommand_names (build_self c)).

Theorem history_outcome : forall h b c argv,
  good_name b = true -> xhist_ok b c h = true ->
  argv_under b (xrun c h) argv = true -> argv_under b c argv = true ->
  root_names_distinct c = true ->
  fst (fst (parse_mut (xrun c h) argv)) = fst (fst (parse_mut c argv)).
Proof.
  intros h b c argv Hg Hh Hu1 Hu2 Hnd.
  apply (outcome_of_norm (xrun c h) b c argv Hg); try assumption.
  - intros n. exact (xhistory_normal_form h n b c Hg Hh).
  - exact (xrun_nbn h b c Hh).
  - rewrite root_prep_names. exact Hnd.
Qed.

(** the ids of every level of the reported matches, in the order [ArgMatches::ids()] yields them *)
Fixpoint ids_levels (fuel : nat) (m : matches) : list (list id) :=
  match fuel with
  | O => []
  | S f => map fst (ms_args m) :: match ms_sub m with Some (_, sm) => ids_levels f sm | None => [] end
  end.
Definition outcome_ids (o : outcome) : option (list (list id)) :=
  match o with OOk m => Some (ids_levels (matches_depth m) m) | _ => None end.

Corollary history_ids_order : forall h b c argv,
  good_name b = true -> xhist_ok b c h = true ->
  argv_under b (xrun c h) argv = true -> argv_under b c argv = true ->
  root_names_distinct c = true ->
  outcome_ids (fst (fst (parse_mut (xrun c h) argv))) = outcome_ids (fst (fst (parse_mut c argv))).
Proof. intros. f_equal. apply (history_outcome h b c argv); assumption. Qed.

(** a valid definition is in the class *)
Lemma assert_app_U v w c : assert_app (U v w c) = assert_app c.
Proof. dc c; reflexivity. Qed.
Lemma valid_root_names_distinct c : valid c = true -> root_names_distinct c = true.
Proof.
  unfold valid, root_names_distinct. cbv zeta. cbn [valid_tree]. intros H.
  apply andb_prop in H. destruct H as [H _]. apply assert_app_nodup, H.
Qed.

(** * non-vacuity: two valued global options given at the root, read two levels down; the history
    contains two failing, mutating parses.  The root reports the ids in command-line order, the
    subcommand levels inherit them in the order [get_used_global_args] collected them (definition order) *)
Definition w_alpha : bytes := [97; 108; 112; 104; 97].
Definition w_beta : bytes := [98; 101; 116; 97].
Definition gopt (n : bytes) : arg := (arg_new n) <| a_long := Some n |> <| a_global := true |> <| a_action := Some ASet |>.
Definition ex_g2 : cmd := ex_cmd <| c_args := [gopt w_alpha; gopt w_beta] |>.
Definition dd (s : bytes) : bytes := 45 :: 45 :: s.
Definition ex_zzz : bytes := dd [122; 122; 122].
Definition ex_line2 : list bytes := [ex_prog; dd w_beta; [49]; dd w_alpha; [50]; ex_sub; ex_run].
Definition ex_h2 : list xop :=
  [XParse true [ex_prog; ex_zzz]; XParse false [ex_prog; ex_sub; dd w_alpha; [51]]; XOp RenderHelp;
   XParse true [ex_prog; ex_sub; ex_zzz]].

Example ex_history_outcome_hyps :
  good_name ex_prog = true /\ xhist_ok ex_prog ex_g2 ex_h2 = true
  /\ argv_under ex_prog (xrun ex_g2 ex_h2) ex_line2 = true /\ argv_under ex_prog ex_g2 ex_line2 = true
  /\ root_names_distinct ex_g2 = true /\ valid ex_g2 = true.
Proof. vm_compute. repeat split; reflexivity. Qed.
Example ex_ids_order :
  outcome_ids (fst (fst (parse_mut (xrun ex_g2 ex_h2) ex_line2)))
  = Some [[w_beta; w_alpha]; [w_alpha; w_beta]; [w_alpha; w_beta]].
Proof. vm_compute. reflexivity. Qed.
(** the recorded chain of that parse follows the touched nodes (hypotheses of [uga_agree]) *)
Example ex_chain_ok :
  match parse_result ex_g2 ex_line2 with
  | ROk st => mt_sub (mt st) <> None
  | _ => False
  end.
Proof. vm_compute. discriminate. Qed.
