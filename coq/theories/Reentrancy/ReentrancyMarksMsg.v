(** C11, fourth pass (1)+(3): the name-dependent message lines for histories that contain [build()].
    The own definitions of the visited levels are equal modulo the marks ([trace_own_agreem]); the lines
    (version line, usage head with the real [mid_string]) read nothing that [clr] changes ([level_lines_clr]). *)
From ClapModel Require Import Base.Bytes Base.Machine Base.Utf8.
From ClapModel Require Import Parse.Cmd Parse.Build Parse.Valid Parse.Matcher Parse.Errors Parse.Validator Parse.Parser.
From ClapModel Require Import ParseProofs.Dispatch.
From ClapModel Require Import Reentrancy.ReentrancyModel Reentrancy.ReentrancyProofs Reentrancy.ReentrancyParse Reentrancy.ReentrancyDym Reentrancy.ReentrancyBuild Reentrancy.ReentrancyMarks Reentrancy.ReentrancyMsg.
From Coq Require Import ZArith List Bool.
From RecordUpdate Require Import RecordSet.
Import RecordSetNotations ListNotations.
Open Scope N_scope.

(** * the message lines of histories that contain [build()] *)
Definition visit_ownm (v : visit) : bool * cmd := (is_vnode v, clr (rs (visit_cmd v) [])).
Lemma own_agreem c1 c2 : agreem c1 c2 -> clr (rs c1 []) = clr (rs c2 []).
Proof.
  intros Ha. destruct (clr_inv _ _ (Ha O)) as [H _]. apply clr_eq; [|reflexivity]. exact H.
Qed.
Lemma visit_ownm_node k : visit_ownm (VNode k) = (true, clr (rs k [])).
Proof. reflexivity. Qed.
Lemma visit_ownm_help k : visit_ownm (VHelp k) = (false, clr (rs k [])).
Proof. reflexivity. Qed.
Lemma help_trace_own_agreem : forall names c1 c2, agreem c1 c2 ->
  map visit_ownm (help_trace c1 names) = map visit_ownm (help_trace c2 names).
Proof.
  induction names as [|n rest IH]; intros c1 c2 Ha; [reflexivity|]. cbn [help_trace].
  destruct (kids_findm c1 c2 n Ha) as [[H1 H2]|(s1 & s2 & H1 & H2 & Hn)]; rewrite H1, H2; [reflexivity|].
  rewrite Hn. destruct (kids_buildm c1 c2 (c_name s2) Ha) as [[B1 B2]|(k1 & k2 & B1 & B2 & Hk)]; rewrite B1, B2; [reflexivity|].
  cbn [map]. rewrite !visit_ownm_help, (own_agreem k1 k2 Hk), (IH k1 k2 Hk). reflexivity.
Qed.
Theorem trace_own_agreem : forall fuel c1 c2 toks st, agreem c1 c2 ->
  map visit_ownm (parse_trace fuel c1 toks st) = map visit_ownm (parse_trace fuel c2 toks st).
Proof.
  induction fuel as [|f IH]; intros c1 c2 toks st Ha; cbn [parse_trace map];
    rewrite !visit_ownm_node, (own_agreem c1 c2 Ha); [reflexivity|].
  f_equal. destruct (agreem_own c1 c2 Ha) as [(v & v' & Hown) Hs].
  rewrite Hown at 1. rewrite (shm_parse_loop c1 (c_subs c2) v v' Hs).
  destruct (parse_loop c1 toks (mkL PSValuesDone 1 false false) st) as [lr|e st'|s]; [|reflexivity|reflexivity].
  destruct lr as [st1|name keep vaf st1 rest|name vals st1|names st1]; [reflexivity| |reflexivity|].
  - replace (is_set s_args_negate_subs c2) with (is_set s_args_negate_subs c1) by (rewrite Hown; reflexivity).
    destruct (is_set s_args_negate_subs c1 && vaf); [reflexivity|].
    destruct (kids_findm c1 c2 name Ha) as [[H1 H2]|(s1 & s2 & H1 & H2 & Hn)]; rewrite H1, H2; [reflexivity|].
    rewrite Hn.
    destruct (kids_buildm c1 c2 (c_name s2) Ha) as [[B1 B2]|(k1 & k2 & B1 & B2 & Hk)]; rewrite B1, B2; [reflexivity|].
    apply IH, Hk.
  - apply help_trace_own_agreem, Ha.
Qed.

(** the lines read nothing that [clr] changes *)
Lemma level_lines_clr sty mem : forall l parent,
  level_lines (mid_string sty mem) (option_map clr parent) (map (fun p => (fst p, clr (snd p))) l)
  = level_lines (mid_string sty mem) parent l.
Proof.
  induction l as [|[isp k] t IH]; intros parent; [reflexivity|]. cbn [map level_lines fst snd].
  rewrite <- (IH (Some k)). cbn [option_map]. f_equal.
  rewrite (clr_unfold k).
  destruct parent as [p|]; cbn [option_map]; [|reflexivity].
  rewrite (clr_unfold p). unfold usage_name_at.
  change (c_bin_name (rsm p (map clr (c_subs p)) false false)) with (c_bin_name p).
  rewrite !mid_string_rs, mid_string_rsm. reflexivity.
Qed.

Lemma parse_lines_clr sty mem c argv :
  parse_lines (mid_string sty mem) c argv
  = level_lines (mid_string sty mem) None
      (let '(c1, toks) := set_bin c argv in map visit_ownm (parse_trace (parse_fuel toks) (build_self c1) toks ps_new)).
Proof.
  unfold parse_lines, parse_levels. destruct (set_bin c argv) as [c1 toks].
  rewrite <- (level_lines_clr sty mem _ None). cbn [option_map]. rewrite map_map. reflexivity.
Qed.

Theorem history_messages_build : forall sty mem h b c argv,
  good_name b = true -> (forall k, quiet_tree k b c = true) -> xhist_okb b c h = true ->
  argv_under b (xrun c h) argv = true -> argv_under b c argv = true ->
  parse_lines (mid_string sty mem) (xrun c h) argv = parse_lines (mid_string sty mem) c argv
  /\ err_of (fst (fst (parse_mut (xrun c h) argv))) = err_of (fst (fst (parse_mut c argv))).
Proof.
  intros sty mem h b c argv Hg Hq Hh Hu1 Hu2.
  split; [|exact (proj2 (proj2 (history_independence_build h b c argv Hg Hq Hh Hu1 Hu2)))].
  pose proof (xhistory_normal_form_build h b c c Hg Hq (fun _ => eq_refl) Hh) as Hn.
  assert (Ha : agreem (root_prep b (xrun c h)) (root_prep b c)) by (intros n; exact (Hn n)).
  pose proof (set_bin_under b _ argv Hg Hu1) as E1. pose proof (set_bin_under b c argv Hg Hu2) as E2.
  pose proof (set_bin_toks (xrun c h) c argv (xrun_nbn_b h c)) as Et.
  rewrite !parse_lines_clr. f_equal.
  destruct (set_bin (xrun c h) argv) as [s1 t1]. destruct (set_bin c argv) as [s2 t2].
  cbn [fst snd] in *. subst t2. rewrite E1, E2. apply trace_own_agreem, Ha.
Qed.

Example ex_build_messages :
  map ln_usage_head (parse_lines (mid_string ex_sty a_id) (xrun (propagate_gset_example <| c_args := [ex_req; ex_file] |>) ex_bhist) [ex_prog; ex_sub; ex_run; [45; 45; 98]])
  = [ex_prog;
     ex_prog ++ [32] ++ [45; 45] ++ w_req ++ [32; 60] ++ w_req ++ [62; 32; 60] ++ w_file ++ [62; 32] ++ ex_sub;
     ex_prog ++ [32] ++ ex_sub ++ [32] ++ ex_run]
  /\ nohelp_all (propagate_gset_example <| c_args := [ex_req; ex_file] |>) = true
  /\ xhist_okb ex_prog (propagate_gset_example <| c_args := [ex_req; ex_file] |>) ex_bhist = true.
Proof. vm_compute. repeat split; reflexivity. Qed.
