(** Byte strings and small list utilities shared by every model.

    An OS string (Unix: arbitrary bytes) is a [list N] whose elements are < 256.
    A Rust [&str] is the same type together with [utf8_valid] (see Utf8.v). *)
From Coq Require Export List NArith Lia Bool Arith PeanoNat.
Export ListNotations.
Open Scope N_scope.

Definition byte := N.
Definition bytes := list N.

Definition bytes_ok (s : bytes) : bool := forallb (fun b => b <? 256) s.

Fixpoint beq (a b : bytes) : bool :=
  match a, b with
  | [], [] => true
  | x :: a', y :: b' => (x =? y) && beq a' b'
  | _, _ => false
  end.

Lemma beq_eq a : forall b, beq a b = true <-> a = b.
Proof.
  induction a as [|x a IH]; intros [|y b]; simpl; split; intros H;
    try reflexivity; try discriminate.
  - apply andb_true_iff in H. destruct H as [H1 H2].
    apply N.eqb_eq in H1. apply IH in H2. subst. reflexivity.
  - inversion H; subst. rewrite N.eqb_refl. simpl. apply IH. reflexivity.
Qed.

Lemma beq_refl a : beq a a = true.
Proof. apply beq_eq. reflexivity. Qed.

Lemma beq_neq a b : beq a b = false <-> a <> b.
Proof.
  split.
  - intros H E. apply beq_eq in E. congruence.
  - intros H. destruct (beq a b) eqn:E; [|reflexivity]. apply beq_eq in E. contradiction.
Qed.

(** [starts_with h n]: [n] is a prefix of [h] (slice::starts_with). *)
Fixpoint starts_with (h n : bytes) : bool :=
  match n with
  | [] => true
  | b :: n' => match h with
               | [] => false
               | c :: h' => (c =? b) && starts_with h' n'
               end
  end.

Lemma starts_with_spec h n : starts_with h n = true <-> exists t, h = n ++ t.
Proof.
  revert h. induction n as [|b n IH]; intros h; cbn [starts_with app].
  - split; [intros _; exists h; reflexivity | intros _; destruct h; reflexivity].
  - destruct h as [|c h].
    + split; [discriminate | intros [t Ht]; discriminate].
    + split.
      * cbn [starts_with]. intros H. apply andb_true_iff in H. destruct H as [H1 H2].
        apply N.eqb_eq in H1. apply IH in H2. destruct H2 as [t Ht].
        exists t. subst. reflexivity.
      * intros [t Ht]. inversion Ht; subst. cbn [starts_with]. rewrite N.eqb_refl. cbn [andb].
        apply IH. exists t. reflexivity.
Qed.

Lemma starts_with_app n t : starts_with (n ++ t) n = true.
Proof. apply starts_with_spec. exists t. reflexivity. Qed.

Lemma starts_with_length h n : starts_with h n = true -> (length n <= length h)%nat.
Proof.
  intros H. apply starts_with_spec in H. destruct H as [t ->].
  rewrite app_length. lia.
Qed.

Lemma starts_with_skipn h n : starts_with h n = true -> h = n ++ skipn (length n) h.
Proof.
  intros H. apply starts_with_spec in H. destruct H as [t ->].
  rewrite skipn_app, skipn_all, Nat.sub_diag. reflexivity.
Qed.

Definition hexdigit (d : N) : N := if d <? 10 then 48 + d else 87 + d.

(** list helpers *)
Fixpoint intercalate (sep : bytes) (l : list bytes) : bytes :=
  match l with
  | [] => []
  | [x] => x
  | x :: t => x ++ sep ++ intercalate sep t
  end.

Definition option_map2 {A B} (f : A -> B) (o : option A) : option B :=
  match o with Some a => Some (f a) | None => None end.

Lemma skipn_add {A} (a b : nat) (l : list A) : skipn a (skipn b l) = skipn (b + a) l.
Proof.
  revert l. induction b as [|b IH]; intros l; [reflexivity|].
  destruct l as [|x l]; [destruct a; reflexivity|]. simpl. apply IH.
Qed.

Lemma app_eq_length_inv {A} (a a' x x' : list A) :
  a ++ x = a' ++ x' -> length a = length a' -> a = a' /\ x = x'.
Proof.
  revert a'. induction a as [|y a IH]; intros [|y' a'] H L; simpl in *; try discriminate.
  - split; [reflexivity|exact H].
  - inversion H; subst. destruct (IH a' H2 ltac:(lia)) as [-> ->]. split; reflexivity.
Qed.
