(** UTF-8 well-formedness after Unicode Table 3-7 (what [std::str::from_utf8]
    accepts), decoding as far as valid ([Utf8Error::valid_up_to]) and the
    boundary lemma the lexer's unchecked re-slicing relies on. *)
From ClapModel Require Import Base.Bytes.
Open Scope N_scope.

Definition cont (b : N) : bool := (128 <=? b) && (b <=? 191).

(** [utf8_step s] = code point and length of the well-formed sequence at the head of [s]. *)
Definition utf8_step (s : bytes) : option (N * nat) :=
  match s with
  | [] => None
  | b0 :: t =>
    if b0 <? 128 then Some (b0, 1%nat)
    else if (194 <=? b0) && (b0 <=? 223) then
      match t with
      | b1 :: _ => if cont b1 then Some ((b0 - 192) * 64 + (b1 - 128), 2%nat) else None
      | _ => None end
    else if (224 <=? b0) && (b0 <=? 239) then
      match t with
      | b1 :: b2 :: _ =>
         let lo := if b0 =? 224 then 160 else 128 in
         let hi := if b0 =? 237 then 159 else 191 in
         if (lo <=? b1) && (b1 <=? hi) && cont b2
         then Some ((b0 - 224) * 4096 + (b1 - 128) * 64 + (b2 - 128), 3%nat) else None
      | _ => None end
    else if (240 <=? b0) && (b0 <=? 244) then
      match t with
      | b1 :: b2 :: b3 :: _ =>
         let lo := if b0 =? 240 then 144 else 128 in
         let hi := if b0 =? 244 then 143 else 191 in
         if (lo <=? b1) && (b1 <=? hi) && cont b2 && cont b3
         then Some ((b0 - 240) * 262144 + (b1 - 128) * 4096 + (b2 - 128) * 64 + (b3 - 128), 4%nat)
         else None
      | _ => None end
    else None
  end.

Lemma utf8_step_len s c n : utf8_step s = Some (c, n) -> (1 <= n <= 4 /\ n <= length s)%nat.
Proof.
  unfold utf8_step. destruct s as [|b0 t]; [discriminate|].
  destruct (b0 <? 128). { intros H; inversion H; simpl; lia. }
  destruct ((194 <=? b0) && (b0 <=? 223)).
  { destruct t as [|b1 t]; [discriminate|]. destruct (cont b1); [|discriminate].
    intros H; inversion H; simpl; lia. }
  destruct ((224 <=? b0) && (b0 <=? 239)).
  { destruct t as [|b1 [|b2 t]]; try discriminate.
    destruct (_ && _); [|discriminate]. intros H; inversion H; simpl; lia. }
  destruct ((240 <=? b0) && (b0 <=? 244)); [|discriminate].
  destruct t as [|b1 [|b2 [|b3 t]]]; try discriminate.
  destruct (_ && _); [|discriminate]. intros H; inversion H; simpl; lia.
Qed.

(** decode as far as valid: (code points, number of bytes consumed) *)
Fixpoint decode_fuel (fuel : nat) (s : bytes) : list N * nat :=
  match fuel with
  | O => ([], O)
  | S f =>
    match utf8_step s with
    | None => ([], O)
    | Some (c, n) => let '(cs, k) := decode_fuel f (skipn n s) in (c :: cs, (n + k)%nat)
    end
  end.
Definition decode_prefix (s : bytes) := decode_fuel (length s) s.
Definition valid_up_to (s : bytes) : nat := snd (decode_prefix s).
Definition utf8_valid (s : bytes) : bool := Nat.eqb (valid_up_to s) (length s).
Definition decode (s : bytes) : list N := fst (decode_prefix s).

Lemma decode_fuel_le f : forall s, (snd (decode_fuel f s) <= length s)%nat.
Proof.
  induction f as [|f IH]; intros s; simpl; [lia|].
  destruct (utf8_step s) as [[c n]|] eqn:E; simpl; [|lia].
  destruct (decode_fuel f (skipn n s)) as [cs k] eqn:D. simpl.
  apply utf8_step_len in E. specialize (IH (skipn n s)). rewrite D in IH. simpl in IH.
  rewrite skipn_length in IH. lia.
Qed.

Lemma valid_up_to_le s : (valid_up_to s <= length s)%nat.
Proof. apply decode_fuel_le. Qed.

(** fuel irrelevance: more fuel than length changes nothing *)
Lemma decode_fuel_enough : forall f1 f2 s, (length s <= f1)%nat -> (length s <= f2)%nat ->
  decode_fuel f1 s = decode_fuel f2 s.
Proof.
  induction f1 as [|f1 IH]; intros f2 s H1 H2.
  - destruct s; [|simpl in H1; lia]. destruct f2; reflexivity.
  - destruct f2 as [|f2].
    + destruct s; [reflexivity | simpl in H2; lia].
    + simpl. destruct (utf8_step s) as [[c n]|] eqn:E; [|reflexivity].
      apply utf8_step_len in E.
      rewrite (IH f2 (skipn n s)); [reflexivity| |]; rewrite skipn_length; lia.
Qed.

Lemma utf8_step_prefix s c n m : utf8_step s = Some (c, n) -> (n <= m)%nat ->
  utf8_step (firstn m s) = Some (c, n).
Proof.
  intros H0 Hm0. pose proof (utf8_step_len _ _ _ H0) as Hlen.
  revert H0 Hm0.
  unfold utf8_step. destruct s as [|b0 t]; [discriminate|].
  destruct m as [|m]; [intros; lia|].
  cbn [firstn].
  destruct (b0 <? 128). { intros H _; exact H. }
  destruct ((194 <=? b0) && (b0 <=? 223)).
  { destruct t as [|b1 t]; [discriminate|]. destruct (cont b1) eqn:C; [|discriminate].
    intros H Hm; inversion H; subst. destruct m as [|m]; [lia|]. simpl. rewrite C. reflexivity. }
  destruct ((224 <=? b0) && (b0 <=? 239)).
  { destruct t as [|b1 [|b2 t]]; try discriminate.
    destruct (_ && _) eqn:C; [|discriminate]. intros H Hm; inversion H; subst.
    destruct m as [|[|m]]; try lia. simpl. rewrite C. reflexivity. }
  destruct ((240 <=? b0) && (b0 <=? 244)); [|discriminate].
  destruct t as [|b1 [|b2 [|b3 t]]]; try discriminate.
  destruct (_ && _) eqn:C; [|discriminate]. intros H Hm; inversion H; subst.
  destruct m as [|[|[|m]]]; try lia. simpl. rewrite C. reflexivity.
Qed.

Lemma valid_prefix_valid_gen : forall f s, (length s <= f)%nat ->
  decode_fuel f (firstn (snd (decode_fuel f s)) s) =
  (fst (decode_fuel f s), snd (decode_fuel f s)).
Proof.
  induction f as [|f IH]; intros s Hl; [reflexivity|].
  simpl. destruct (utf8_step s) as [[c n]|] eqn:E.
  - destruct (decode_fuel f (skipn n s)) as [cs k] eqn:D. simpl.
    pose proof (utf8_step_len _ _ _ E) as Hn.
    rewrite (utf8_step_prefix s c n (n + k) E) by lia.
    assert (Hs: skipn n (firstn (n + k) s) = firstn k (skipn n s)).
    { rewrite skipn_firstn_comm. f_equal. lia. }
    rewrite Hs.
    specialize (IH (skipn n s)). rewrite D in IH. simpl in IH.
    rewrite IH; [reflexivity|]. rewrite skipn_length. lia.
  - simpl. destruct f; reflexivity.
Qed.

(** The prefix of length [valid_up_to] is itself well-formed UTF-8: the boundary lemma. *)
Theorem valid_prefix_is_valid s : utf8_valid (firstn (valid_up_to s) s) = true.
Proof.
  unfold utf8_valid, valid_up_to, decode_prefix.
  pose proof (valid_prefix_valid_gen (length s) s (le_n _)) as H.
  pose proof (decode_fuel_le (length s) s) as Hle.
  set (k := snd (decode_fuel (length s) s)) in *.
  rewrite (decode_fuel_enough (length (firstn k s)) (length s) (firstn k s)).
  - rewrite H. simpl. rewrite firstn_length. apply Nat.eqb_eq. lia.
  - lia.
  - rewrite firstn_length. lia.
Qed.

(** ** Unfolding decoding one scalar value at a time (no fuel in sight) *)

Lemma decode_prefix_step s c n : utf8_step s = Some (c, n) ->
  decode_prefix s = (c :: fst (decode_prefix (skipn n s)), (n + snd (decode_prefix (skipn n s)))%nat).
Proof.
  intros E. unfold decode_prefix. pose proof (utf8_step_len _ _ _ E) as Hn.
  destruct s as [|b t]; [discriminate|].
  change (length (b :: t)) with (S (length t)). cbn [decode_fuel]. rewrite E.
  rewrite (decode_fuel_enough (length t) (length (skipn n (b :: t))) (skipn n (b :: t))).
  - destruct (decode_fuel (length (skipn n (b :: t))) (skipn n (b :: t))); reflexivity.
  - rewrite skipn_length. cbn [length]. lia.
  - lia.
Qed.

Lemma decode_prefix_stop s : utf8_step s = None -> decode_prefix s = ([], O).
Proof.
  intros E. unfold decode_prefix. destruct (length s); [reflexivity|].
  cbn [decode_fuel]. rewrite E. reflexivity.
Qed.

Lemma valid_up_to_step s c n : utf8_step s = Some (c, n) ->
  valid_up_to s = (n + valid_up_to (skipn n s))%nat.
Proof. intros E. unfold valid_up_to. rewrite (decode_prefix_step s c n E). reflexivity. Qed.

Lemma decode_step s c n : utf8_step s = Some (c, n) -> decode s = c :: decode (skipn n s).
Proof. intros E. unfold decode. rewrite (decode_prefix_step s c n E). reflexivity. Qed.

Lemma valid_up_to_stop s : utf8_step s = None -> valid_up_to s = O.
Proof. intros E. unfold valid_up_to. rewrite (decode_prefix_stop s E). reflexivity. Qed.

Lemma decode_stop s : utf8_step s = None -> decode s = [].
Proof. intros E. unfold decode. rewrite (decode_prefix_stop s E). reflexivity. Qed.

(** induction along the scalar values of a byte string *)
Lemma utf8_ind (P : bytes -> Prop) :
  (forall s, utf8_step s = None -> P s) ->
  (forall s c n, utf8_step s = Some (c, n) -> P (skipn n s) -> P s) ->
  forall s, P s.
Proof.
  intros Hstop Hstep s.
  remember (length s) as k eqn:Hk. revert s Hk.
  induction k as [k IH] using lt_wf_ind. intros s Hk.
  destruct (utf8_step s) as [[c n]|] eqn:E; [|apply Hstop; exact E].
  apply (Hstep s c n E). pose proof (utf8_step_len _ _ _ E) as Hn.
  apply (IH (length (skipn n s))); [|reflexivity]. rewrite skipn_length. lia.
Qed.

Lemma utf8_step_app a b c n : utf8_step a = Some (c, n) -> utf8_step (a ++ b) = Some (c, n).
Proof.
  unfold utf8_step. destruct a as [|b0 t]; [discriminate|]. cbn [app].
  destruct (b0 <? 128). { intros H; exact H. }
  destruct ((194 <=? b0) && (b0 <=? 223)).
  { destruct t as [|b1 t]; [discriminate|]. cbn [app]. intros H; exact H. }
  destruct ((224 <=? b0) && (b0 <=? 239)).
  { destruct t as [|b1 [|b2 t]]; try discriminate. cbn [app]. intros H; exact H. }
  destruct ((240 <=? b0) && (b0 <=? 244)); [|discriminate].
  destruct t as [|b1 [|b2 [|b3 t]]]; try discriminate. cbn [app]. intros H; exact H.
Qed.

Lemma utf8_valid_nil : utf8_valid [] = true.
Proof. reflexivity. Qed.

Lemma utf8_valid_skip s c n : utf8_valid s = true -> utf8_step s = Some (c, n) ->
  utf8_valid (skipn n s) = true.
Proof.
  unfold utf8_valid. intros V E. apply Nat.eqb_eq in V. apply Nat.eqb_eq.
  rewrite (valid_up_to_step s c n E) in V. pose proof (utf8_step_len _ _ _ E) as Hn.
  rewrite skipn_length. lia.
Qed.

Lemma utf8_valid_nonempty s : utf8_valid s = true -> s <> [] ->
  exists c n, utf8_step s = Some (c, n).
Proof.
  unfold utf8_valid. intros V Hne. apply Nat.eqb_eq in V.
  destruct (utf8_step s) as [[c n]|] eqn:E; [exists c, n; reflexivity|].
  rewrite (valid_up_to_stop s E) in V. destruct s; [congruence|discriminate].
Qed.

Lemma utf8_valid_cons s c n : utf8_step s = Some (c, n) -> utf8_valid (skipn n s) = true ->
  utf8_valid s = true.
Proof.
  unfold utf8_valid. intros E V. apply Nat.eqb_eq in V. apply Nat.eqb_eq.
  rewrite (valid_up_to_step s c n E). pose proof (utf8_step_len _ _ _ E) as Hn.
  rewrite skipn_length in V. lia.
Qed.

(** decoding a well-formed string followed by anything: the well-formed part first *)
Lemma valid_app a : forall b, utf8_valid a = true ->
  valid_up_to (a ++ b) = (length a + valid_up_to b)%nat /\ decode (a ++ b) = decode a ++ decode b.
Proof.
  induction a as [a E | a c n E IH] using utf8_ind; intros b V.
  - assert (a = []) as ->.
    { unfold utf8_valid in V. apply Nat.eqb_eq in V. rewrite (valid_up_to_stop a E) in V.
      destruct a; [reflexivity|discriminate]. }
    split; reflexivity.
  - pose proof (utf8_step_len _ _ _ E) as Hn.
    pose proof (utf8_step_app a b c n E) as Eab.
    assert (Hsk : skipn n (a ++ b) = skipn n a ++ b).
    { rewrite skipn_app. replace (n - length a)%nat with O by lia. reflexivity. }
    destruct (IH b (utf8_valid_skip a c n V E)) as [IH1 IH2].
    rewrite (valid_up_to_step _ c n Eab), (decode_step _ c n Eab), Hsk, IH1, IH2.
    rewrite (decode_step a c n E). rewrite skipn_length. split; [lia|reflexivity].
Qed.

Lemma utf8_valid_app a b : utf8_valid a = true -> utf8_valid b = true -> utf8_valid (a ++ b) = true.
Proof.
  intros Va Vb. unfold utf8_valid. apply Nat.eqb_eq.
  rewrite (proj1 (valid_app a b Va)). unfold utf8_valid in Vb. apply Nat.eqb_eq in Vb.
  rewrite app_length. lia.
Qed.

(** decoding stops exactly where no well-formed sequence starts *)
Lemma step_after_valid_prefix s : utf8_step (skipn (valid_up_to s) s) = None.
Proof.
  induction s as [s E | s c n E IH] using utf8_ind.
  - rewrite (valid_up_to_stop s E). exact E.
  - rewrite (valid_up_to_step s c n E). rewrite <- skipn_add. exact IH.
Qed.

Lemma decode_valid_prefix s : decode (firstn (valid_up_to s) s) = decode s.
Proof.
  induction s as [s E | s c n E IH] using utf8_ind.
  - rewrite (valid_up_to_stop s E), (decode_stop s E). reflexivity.
  - rewrite (valid_up_to_step s c n E), (decode_step s c n E).
    pose proof (utf8_step_len _ _ _ E) as Hn.
    rewrite (decode_step _ c n (utf8_step_prefix s c n (n + valid_up_to (skipn n s)) E ltac:(lia))).
    f_equal. rewrite skipn_firstn_comm.
    replace (n + valid_up_to (skipn n s) - n)%nat with (valid_up_to (skipn n s)) by lia.
    exact IH.
Qed.

(** one well-formed sequence is a well-formed string *)
Lemma utf8_valid_char s c n : utf8_step s = Some (c, n) -> utf8_valid (firstn n s) = true.
Proof.
  intros E. pose proof (utf8_step_len _ _ _ E) as Hn.
  apply (utf8_valid_cons _ c n (utf8_step_prefix s c n n E (le_n n))).
  rewrite skipn_all2; [reflexivity|]. rewrite firstn_length. lia.
Qed.

(** a string is valid iff decoding consumes all of it: nothing unread is left *)
Lemma utf8_valid_iff s : utf8_valid s = true <-> skipn (valid_up_to s) s = [].
Proof.
  unfold utf8_valid. pose proof (valid_up_to_le s) as Hle. split.
  - intros V. apply Nat.eqb_eq in V. rewrite V. apply skipn_all.
  - intros H. apply Nat.eqb_eq. apply (f_equal (@length N)) in H. rewrite skipn_length in H.
    cbn [length] in H. lia.
Qed.

Lemma ascii_valid s : (forall b, In b s -> b < 128) -> utf8_valid s = true.
Proof.
  induction s as [|b t IH]; intros H; [reflexivity|].
  assert (E : utf8_step (b :: t) = Some (b, 1%nat)).
  { unfold utf8_step. assert (Hb : b < 128) by (apply H; left; reflexivity).
    apply N.ltb_lt in Hb. rewrite Hb. reflexivity. }
  apply (utf8_valid_cons _ b 1%nat E). cbn [skipn]. apply IH. intros x Hx. apply H. right. exact Hx.
Qed.

(** ** Encoding, and what a decoded scalar value consumed *)

Definition utf8_encode (c : N) : bytes :=
  if c <? 128 then [c]
  else if c <? 2048 then [192 + c / 64; 128 + c mod 64]
  else if c <? 65536 then [224 + c / 4096; 128 + (c / 64) mod 64; 128 + c mod 64]
  else [240 + c / 262144; 128 + (c / 4096) mod 64; 128 + (c / 64) mod 64; 128 + c mod 64].

Ltac bools :=
  repeat match goal with
         | H : _ && _ = true |- _ => apply andb_true_iff in H; destruct H
         | H : (_ <=? _) = true |- _ => apply N.leb_le in H
         | H : (_ <? _) = true |- _ => apply N.ltb_lt in H
         | H : (_ <? _) = false |- _ => apply N.ltb_ge in H
         | H : (_ =? _) = true |- _ => apply N.eqb_eq in H
         | H : (_ =? _) = false |- _ => apply N.eqb_neq in H
         end.

Lemma divmod_2 hi lo : lo < 64 -> (hi * 64 + lo) / 64 = hi /\ (hi * 64 + lo) mod 64 = lo.
Proof.
  intros H. split.
  - symmetry. apply (N.div_unique _ 64 hi lo); lia.
  - symmetry. apply (N.mod_unique _ 64 hi lo); lia.
Qed.

Lemma cont_range b : cont b = true -> 128 <= b /\ b - 128 < 64.
Proof. unfold cont. intros H. bools. lia. Qed.

(** the bytes a decoded scalar value came from are its encoding, and it is a scalar value *)
Lemma utf8_step_encode s c n : utf8_step s = Some (c, n) ->
  firstn n s = utf8_encode c /\ c < 1114112 /\ ~ (55296 <= c < 57344).
Proof.
  unfold utf8_step. destruct s as [|b0 t]; [discriminate|].
  destruct (b0 <? 128) eqn:A.
  { intros H; inversion H; subst. unfold utf8_encode. rewrite A. bools. split; [reflexivity|lia]. }
  destruct ((194 <=? b0) && (b0 <=? 223)) eqn:B.
  { destruct t as [|b1 t]; [discriminate|]. destruct (cont b1) eqn:C1; [|discriminate].
    intros H; inversion H; subst. clear H. apply cont_range in C1. bools.
    set (h := b0 - 192). set (l := b1 - 128).
    assert (Hh : 2 <= h < 32) by (unfold h; lia). assert (Hl : l < 64) by (unfold l; lia).
    destruct (divmod_2 h l Hl) as [D M].
    unfold utf8_encode.
    replace (h * 64 + l <? 128) with false by (symmetry; apply N.ltb_ge; lia).
    replace (h * 64 + l <? 2048) with true by (symmetry; apply N.ltb_lt; lia).
    rewrite D, M. cbn [firstn]. split; [|lia]. f_equal; [unfold h; lia|]. f_equal. unfold l; lia. }
  destruct ((224 <=? b0) && (b0 <=? 239)) eqn:C.
  { destruct t as [|b1 [|b2 t]]; try discriminate.
    destruct (_ && _ && cont b2) eqn:K; [|discriminate].
    intros H; inversion H; subst. clear H.
    apply andb_true_iff in K. destruct K as [K C2]. apply cont_range in C2.
    apply andb_true_iff in K. destruct K as [K1 K2]. bools.
    set (h := b0 - 224). set (m := b1 - 128). set (l := b2 - 128).
    assert (Hh : h < 16) by (unfold h; lia).
    assert (Hl : l < 64) by (unfold l; lia).
    assert (Hb1 : 128 <= b1 <= 191).
    { destruct (b0 =? 224); destruct (b0 =? 237); lia. }
    assert (Hm : m < 64) by (unfold m; lia).
    assert (Hlo : h = 0 -> 32 <= m).
    { intros Hz. destruct (b0 =? 224) eqn:Z; bools; unfold h, m in *; lia. }
    assert (Hhi : h = 13 -> m < 32).
    { intros Hz. destruct (b0 =? 237) eqn:Z; bools; unfold h, m in *; lia. }
    replace (h * 4096 + m * 64 + l) with ((h * 64 + m) * 64 + l) by lia.
    destruct (divmod_2 (h * 64 + m) l Hl) as [D M]. destruct (divmod_2 h m Hm) as [D2 M2].
    unfold utf8_encode.
    replace ((h * 64 + m) * 64 + l <? 128) with false by (symmetry; apply N.ltb_ge; lia).
    replace ((h * 64 + m) * 64 + l <? 2048) with false by (symmetry; apply N.ltb_ge; lia).
    replace ((h * 64 + m) * 64 + l <? 65536) with true by (symmetry; apply N.ltb_lt; lia).
    change 4096 with (64 * 64). rewrite <- N.div_div by lia. rewrite D, D2, M2, M.
    cbn [firstn]. split; [|lia].
    f_equal; [unfold h; lia|]. f_equal; [unfold m; lia|]. f_equal. unfold l; lia. }
  destruct ((240 <=? b0) && (b0 <=? 244)) eqn:D4; [|discriminate].
  destruct t as [|b1 [|b2 [|b3 t]]]; try discriminate.
  destruct (_ && _ && cont b2 && cont b3) eqn:K; [|discriminate].
  intros H; inversion H; subst. clear H.
  apply andb_true_iff in K. destruct K as [K C3]. apply cont_range in C3.
  apply andb_true_iff in K. destruct K as [K C2]. apply cont_range in C2.
  apply andb_true_iff in K. destruct K as [K1 K2]. bools.
  set (h := b0 - 240). set (m1 := b1 - 128). set (m2 := b2 - 128). set (l := b3 - 128).
  assert (Hh : h < 5) by (unfold h; lia).
  assert (Hl : l < 64) by (unfold l; lia).
  assert (Hm2 : m2 < 64) by (unfold m2; lia).
  assert (Hb1 : 128 <= b1 <= 191).
  { destruct (b0 =? 240); destruct (b0 =? 244); lia. }
  assert (Hm1 : m1 < 64) by (unfold m1; lia).
  assert (Hlo : h = 0 -> 16 <= m1).
  { intros Hz. destruct (b0 =? 240) eqn:Z; bools; unfold h, m1 in *; lia. }
  assert (Hhi : h = 4 -> m1 < 16).
  { intros Hz. destruct (b0 =? 244) eqn:Z; bools; unfold h, m1 in *; lia. }
  replace (h * 262144 + m1 * 4096 + m2 * 64 + l) with (((h * 64 + m1) * 64 + m2) * 64 + l) by lia.
  destruct (divmod_2 ((h * 64 + m1) * 64 + m2) l Hl) as [D M].
  destruct (divmod_2 (h * 64 + m1) m2 Hm2) as [D2 M2].
  destruct (divmod_2 h m1 Hm1) as [D3 M3].
  unfold utf8_encode.
  replace (((h * 64 + m1) * 64 + m2) * 64 + l <? 128) with false by (symmetry; apply N.ltb_ge; lia).
  replace (((h * 64 + m1) * 64 + m2) * 64 + l <? 2048) with false by (symmetry; apply N.ltb_ge; lia).
  replace (((h * 64 + m1) * 64 + m2) * 64 + l <? 65536) with false by (symmetry; apply N.ltb_ge; lia).
  change 262144 with (64 * (64 * 64)). change 4096 with (64 * 64).
  rewrite <- !N.div_div by lia. rewrite D, D2, D3, M3, M2, M.
  cbn [firstn]. split; [|lia].
  f_equal; [unfold h; lia|]. f_equal; [unfold m1; lia|]. f_equal; [unfold m2; lia|]. f_equal. unfold l; lia.
Qed.
