(** UTF-8 well-formedness after Unicode Table 3-7 (what [std::str::from_utf8]
    accepts), decoding as far as valid ([Utf8Error::valid_up_to]) and the
    boundary lemma the lexer's unchecked re-slicing relies on. *)
From ClapModel Require Import Base.Bytes.
Open Scope N_scope.

Definition cont (b : N) : bool := (128 <=? b) && (b <=? 191).

(** [utf8_step s] = code point and length of the well-formed sequence at the head of [s]. *)
Definition utf8_step (s : bytes) : option (N * nat) :=
  match s with
  | [] => None
  | b0 :: t =>
    if b0 <? 128 then Some (b0, 1%nat)
    else if (194 <=? b0) && (b0 <=? 223) then
      match t with
      | b1 :: _ => if cont b1 then Some ((b0 - 192) * 64 + (b1 - 128), 2%nat) else None
      | _ => None end
    else if (224 <=? b0) && (b0 <=? 239) then
      match t with
      | b1 :: b2 :: _ =>
         let lo := if b0 =? 224 then 160 else 128 in
         let hi := if b0 =? 237 then 159 else 191 in
         if (lo <=? b1) && (b1 <=? hi) && cont b2
         then Some ((b0 - 224) * 4096 + (b1 - 128) * 64 + (b2 - 128), 3%nat) else None
      | _ => None end
    else if (240 <=? b0) && (b0 <=? 244) then
      match t with
      | b1 :: b2 :: b3 :: _ =>
         let lo := if b0 =? 240 then 144 else 128 in
         let hi := if b0 =? 244 then 143 else 191 in
         if (lo <=? b1) && (b1 <=? hi) && cont b2 && cont b3
         then Some ((b0 - 240) * 262144 + (b1 - 128) * 4096 + (b2 - 128) * 64 + (b3 - 128), 4%nat)
         else None
      | _ => None end
    else None
  end.

Lemma utf8_step_len s c n : utf8_step s = Some (c, n) -> (1 <= n <= 4 /\ n <= length s)%nat.
Proof.
  unfold utf8_step. destruct s as [|b0 t]; [discriminate|].
  destruct (b0 <? 128). { intros H; inversion H; simpl; lia. }
  destruct ((194 <=? b0) && (b0 <=? 223)).
  { destruct t as [|b1 t]; [discriminate|]. destruct (cont b1); [|discriminate].
    intros H; inversion H; simpl; lia. }
  destruct ((224 <=? b0) && (b0 <=? 239)).
  { destruct t as [|b1 [|b2 t]]; try discriminate.
    destruct (_ && _); [|discriminate]. intros H; inversion H; simpl; lia. }
  destruct ((240 <=? b0) && (b0 <=? 244)); [|discriminate].
  destruct t as [|b1 [|b2 [|b3 t]]]; try discriminate.
  destruct (_ && _); [|discriminate]. intros H; inversion H; simpl; lia.
Qed.

(** decode as far as valid: (code points, number of bytes consumed) *)
Fixpoint decode_fuel (fuel : nat) (s : bytes) : list N * nat :=
  match fuel with
  | O => ([], O)
  | S f =>
    match utf8_step s with
    | None => ([], O)
    | Some (c, n) => let '(cs, k) := decode_fuel f (skipn n s) in (c :: cs, (n + k)%nat)
    end
  end.
Definition decode_prefix (s : bytes) := decode_fuel (length s) s.
Definition valid_up_to (s : bytes) : nat := snd (decode_prefix s).
Definition utf8_valid (s : bytes) : bool := Nat.eqb (valid_up_to s) (length s).
Definition decode (s : bytes) : list N := fst (decode_prefix s).

Lemma decode_fuel_le f : forall s, (snd (decode_fuel f s) <= length s)%nat.
Proof.
  induction f as [|f IH]; intros s; simpl; [lia|].
  destruct (utf8_step s) as [[c n]|] eqn:E; simpl; [|lia].
  destruct (decode_fuel f (skipn n s)) as [cs k] eqn:D. simpl.
  apply utf8_step_len in E. specialize (IH (skipn n s)). rewrite D in IH. simpl in IH.
  rewrite skipn_length in IH. lia.
Qed.

Lemma valid_up_to_le s : (valid_up_to s <= length s)%nat.
Proof. apply decode_fuel_le. Qed.

(** fuel irrelevance: more fuel than length changes nothing *)
Lemma decode_fuel_enough : forall f1 f2 s, (length s <= f1)%nat -> (length s <= f2)%nat ->
  decode_fuel f1 s = decode_fuel f2 s.
Proof.
  induction f1 as [|f1 IH]; intros f2 s H1 H2.
  - destruct s; [|simpl in H1; lia]. destruct f2; reflexivity.
  - destruct f2 as [|f2].
    + destruct s; [reflexivity | simpl in H2; lia].
    + simpl. destruct (utf8_step s) as [[c n]|] eqn:E; [|reflexivity].
      apply utf8_step_len in E.
      rewrite (IH f2 (skipn n s)); [reflexivity| |]; rewrite skipn_length; lia.
Qed.

Lemma utf8_step_prefix s c n m : utf8_step s = Some (c, n) -> (n <= m)%nat ->
  utf8_step (firstn m s) = Some (c, n).
Proof.
  intros H0 Hm0. pose proof (utf8_step_len _ _ _ H0) as Hlen.
  revert H0 Hm0.
  unfold utf8_step. destruct s as [|b0 t]; [discriminate|].
  destruct m as [|m]; [intros; lia|].
  cbn [firstn].
  destruct (b0 <? 128). { intros H _; exact H. }
  destruct ((194 <=? b0) && (b0 <=? 223)).
  { destruct t as [|b1 t]; [discriminate|]. destruct (cont b1) eqn:C; [|discriminate].
    intros H Hm; inversion H; subst. destruct m as [|m]; [lia|]. simpl. rewrite C. reflexivity. }
  destruct ((224 <=? b0) && (b0 <=? 239)).
  { destruct t as [|b1 [|b2 t]]; try discriminate.
    destruct (_ && _) eqn:C; [|discriminate]. intros H Hm; inversion H; subst.
    destruct m as [|[|m]]; try lia. simpl. rewrite C. reflexivity. }
  destruct ((240 <=? b0) && (b0 <=? 244)); [|discriminate].
  destruct t as [|b1 [|b2 [|b3 t]]]; try discriminate.
  destruct (_ && _) eqn:C; [|discriminate]. intros H Hm; inversion H; subst.
  destruct m as [|[|[|m]]]; try lia. simpl. rewrite C. reflexivity.
Qed.

Lemma valid_prefix_valid_gen : forall f s, (length s <= f)%nat ->
  decode_fuel f (firstn (snd (decode_fuel f s)) s) =
  (fst (decode_fuel f s), snd (decode_fuel f s)).
Proof.
  induction f as [|f IH]; intros s Hl; [reflexivity|].
  simpl. destruct (utf8_step s) as [[c n]|] eqn:E.
  - destruct (decode_fuel f (skipn n s)) as [cs k] eqn:D. simpl.
    pose proof (utf8_step_len _ _ _ E) as Hn.
    rewrite (utf8_step_prefix s c n (n + k) E) by lia.
    assert (Hs: skipn n (firstn (n + k) s) = firstn k (skipn n s)).
    { rewrite skipn_firstn_comm. f_equal. lia. }
    rewrite Hs.
    specialize (IH (skipn n s)). rewrite D in IH. simpl in IH.
    rewrite IH; [reflexivity|]. rewrite skipn_length. lia.
  - simpl. destruct f; reflexivity.
Qed.

(** The prefix of length [valid_up_to] is itself well-formed UTF-8: the boundary lemma. *)
Theorem valid_prefix_is_valid s : utf8_valid (firstn (valid_up_to s) s) = true.
Proof.
  unfold utf8_valid, valid_up_to, decode_prefix.
  pose proof (valid_prefix_valid_gen (length s) s (le_n _)) as H.
  pose proof (decode_fuel_le (length s) s) as Hle.
  set (k := snd (decode_fuel (length s) s)) in *.
  rewrite (decode_fuel_enough (length (firstn k s)) (length s) (firstn k s)).
  - rewrite H. simpl. rewrite firstn_length. apply Nat.eqb_eq. lia.
  - lia.
  - rewrite firstn_length. lia.
Qed.
