(** Machine integers as they occur in the modelled Rust code (64-bit target).

    [usize]/[u64] values are [N] below [2^64]; [i64] values are [Z] in
    [-2^63, 2^63).  Every operation that can leave the range is explicit:
    saturating, checked (returning [None] = debug panic / release wrap) or
    an [as]-cast with its wrap written out. *)
From Coq Require Import NArith ZArith Lia.
Open Scope N_scope.

Definition usize_max : N := 18446744073709551615.   (* 2^64 - 1 *)
Definition u64_mod : N := 18446744073709551616.     (* 2^64 *)
Definition i64_max : Z := 9223372036854775807%Z.
Definition i64_min : Z := (-9223372036854775808)%Z.

Definition in_usize (n : N) : bool := n <=? usize_max.
Definition in_i64 (z : Z) : bool := ((i64_min <=? z) && (z <=? i64_max))%Z%bool.

Definition sat_add (a b : N) : N := N.min (a + b) usize_max.
Definition sat_sub (a b : N) : N := a - b.          (* N subtraction truncates at 0 *)
Definition checked_sub (a b : N) : option N := if b <=? a then Some (a - b) else None.

(** [x as i64] for a [usize]/[u64] [x] (two's-complement reinterpretation). *)
Definition as_i64 (n : N) : Z :=
  let z := Z.of_N (n mod u64_mod) in
  if (z <=? i64_max)%Z then z else (z - Z.of_N u64_mod)%Z.

(** [i64::saturating_add]. *)
Definition i64_sat_add (a b : Z) : Z := Z.max i64_min (Z.min i64_max (a + b)).

(** [z as u64] for an [i64] [z]. *)
Definition as_u64 (z : Z) : N :=
  Z.to_N (z mod Z.of_N u64_mod).

Lemma as_i64_small n : n <= 9223372036854775807 -> as_i64 n = Z.of_N n.
Proof.
  intros H. unfold as_i64, u64_mod, i64_max.
  rewrite N.mod_small by lia.
  destruct (Z.leb_spec (Z.of_N n) 9223372036854775807); lia.
Qed.

Lemma as_u64_nonneg z : (0 <= z <= i64_max)%Z -> as_u64 z = Z.to_N z.
Proof.
  intros H. unfold as_u64, u64_mod, i64_max in *.
  rewrite Z.mod_small; [reflexivity|]. lia.
Qed.
