(** Property C02, un-parser, subcommands (part 2) and the top level: invocation trees.

    An invocation tree is the items of one level, optionally followed by a subcommand name and the
    invocation of that subcommand.  [run_inv] is its meaning: the meaning of the items at each
    level ([apply_items] / [react_all] over [occs]), the child's matches stored in the subcommand
    slot, then the env/default/validation phases of the level.  [gmw_inv]: [get_matches_with] on the
    rendered tree IS [run_inv] (induction on the tree); [do_parse_inv], [parse_top_inv]: the same
    for [_do_parse] and [try_get_matches_from_mut]. *)
From ClapModel Require Import Base.Bytes Base.Machine Base.Utf8 Lex.OsStrExtModel.
From ClapModel Require Import Parse.Cmd Parse.Build Parse.Valid Parse.Matcher Parse.Errors Parse.Validator Parse.Parser.
From ClapModel Require Import ParseProofs.Actions ParseProofs.ActionsLoop ParseProofs.Spelling ParseProofs.Sources
                              ParseProofs.Unparse ParseProofs.UnparseProofs ParseProofs.UnparseTop ParseProofs.UnparseSub
                              ParseProofs.UnparseTrail.
From Coq Require Import ZArith Lia List Bool.
From RecordUpdate Require Import RecordSet.
Import RecordSetNotations.
Import ListNotations.
Open Scope N_scope.

Inductive inv :=
| ILeaf (its : list item)
| ISub (its : list item) (name : bytes) (j : inv)
| ITrail (its : list item) (vs : list bytes).          (* items, then [--] and the values after it *)

Fixpoint render_inv (i : inv) : list bytes :=
  match i with
  | ILeaf its => render its
  | ISub its name j => render its ++ name :: render_inv j
  | ITrail its vs => render its ++ ESC :: vs
  end.
Definition inv_items (i : inv) : list item := match i with ILeaf its | ISub its _ _ | ITrail its _ => its end.
(** the occurrences of the root level of a tree *)
Definition inv_occs (c : cmd) (i : inv) : list occ :=
  match i with
  | ILeaf its | ISub its _ _ => occs c 1 its
  | ITrail its vs => occs c 1 its ++ trail_occs c (items_pos c 1 its) vs
  end.

(** the built subcommand a name token selects *)
Definition child (c : cmd) (name : bytes) : option cmd :=
  match possible_subcommand c name false with
  | Some scn => match find_subcommand c scn with
                | Some sc0 => build_subcommand c (c_name sc0)
                | None => None end
  | None => None
  end.

Definition is_done (p : pstate_t) : bool := match p with PSValuesDone => true | _ => false end.
Definition not_pos (p : pstate_t) : bool := match p with PSPos _ => false | _ => true end.

(** the class, on the tree: every level conventional and without [ignore_errors]; the items of each
    level well formed; a subcommand name follows only a finished occurrence (an open option or a
    multi-valued positional would swallow it), is recognised (by name or alias), is not the
    generated [help] subcommand, and no [args_conflicts_with_subcommands] *)
Fixpoint wf_inv (c : cmd) (i : inv) : bool :=
  conv c && negb (is_set s_ignore_errors c) &&
  match i with
  | ILeaf its => wf_items c PSValuesDone 1 its
  | ISub its name j =>
      wf_items c PSValuesDone 1 its && is_done (items_pst c PSValuesDone 1 its)
      && negb (is_set s_args_negate_subs c)
      && match possible_subcommand c name false with
         | Some scn => negb (beq scn s_help && negb (is_set s_disable_help_sub c))
         | None => false end
      && match child c name with
         | Some scb => wf_inv scb j
         | None => false end
  | ITrail its vs =>
      (* [--] does not directly follow an open run of a multi-valued positional (it would continue it);
         it is not a subcommand name; no [dont_delimit_trailing_values]; every value finds a positional *)
      wf_items c PSValuesDone 1 its && not_pos (items_pst c PSValuesDone 1 its)
      && (if is_done (items_pst c PSValuesDone 1 its) then nosub c ESC else true)
      && negb (is_set s_dont_delimit_trailing c)
      && wf_trail c (items_pos c 1 its) vs
  end.

Fixpoint run_inv (c : cmd) (i : inv) : res ps :=
  match i with
  | ILeaf its => do st1 <- react_all c (occs c 1 its) ps_new; post_loop c st1
  | ISub its name j =>
      match child c name with
      | Some scb =>
          do st' <- apply_items c 1 its ps_new;
          match run_inv scb j with
          | ROk sub_st =>
              do st1 <- resolve_pending c (ssub (Some (c_name scb, into_inner (mt sub_st))) st');
              post_loop c st1
          | RErr e _ => RErr e st'
          | RPanic n => RPanic n
          end
      | None => RPanic 0
      end
  | ITrail its vs =>
      do st1 <- react_all c (occs c 1 its ++ trail_occs c (items_pos c 1 its) vs) ps_new; post_loop c st1
  end.

Lemma possible_subcommand_vaf c tok vaf : is_set s_args_negate_subs c = false ->
  possible_subcommand c tok vaf = possible_subcommand c tok false.
Proof. intros H. unfold possible_subcommand. rewrite H. reflexivity. Qed.

(** the loop on a subcommand name *)
Lemma loop_sub_name c (name : bytes) (rest : list bytes) pos vaf st scn :
  is_set s_args_negate_subs c = false -> possible_subcommand c name false = Some scn ->
  (beq scn s_help && negb (is_set s_disable_help_sub c)) = false ->
  parse_loop c (name :: rest) (mkL PSValuesDone pos vaf false) st = ROk (LSub scn false vaf st rest).
Proof.
  intros Hn Hs Hh. cbn [parse_loop]. cbn [l_trailing l_pst l_vaf l_pos].
  rewrite orb_true_r. rewrite (possible_subcommand_vaf c name vaf Hn), Hs, Hh. reflexivity.
Qed.

Lemma wf_inv_parts c i : wf_inv c i = true ->
  conv c = true /\ is_set s_ignore_errors c = false /\
  match i with
  | ILeaf its => wf_items c PSValuesDone 1 its = true
  | ISub its name j =>
      wf_items c PSValuesDone 1 its = true /\ items_pst c PSValuesDone 1 its = PSValuesDone /\
      is_set s_args_negate_subs c = false /\
      exists scn sc0 scb, possible_subcommand c name false = Some scn /\
        (beq scn s_help && negb (is_set s_disable_help_sub c)) = false /\
        find_subcommand c scn = Some sc0 /\ build_subcommand c (c_name sc0) = Some scb /\
        child c name = Some scb /\ wf_inv scb j = true
  | ITrail its vs =>
      wf_items c PSValuesDone 1 its = true /\ not_pos (items_pst c PSValuesDone 1 its) = true /\
      (items_pst c PSValuesDone 1 its = PSValuesDone -> nosub c ESC = true) /\
      is_set s_dont_delimit_trailing c = false /\ wf_trail c (items_pos c 1 its) vs = true
  end.
Proof.
  intros H. destruct i as [its|its name j|its vs]; cbn [wf_inv] in H.
  - apply andb_prop in H. destruct H as [H H3]. apply andb_prop in H. destruct H as [H1 H2].
    split; [exact H1|]. split; [destruct (is_set s_ignore_errors c); [discriminate|reflexivity]|exact H3].
  - apply andb_prop in H. destruct H as [H H3]. apply andb_prop in H. destruct H as [H1 H2].
    split; [exact H1|]. split; [destruct (is_set s_ignore_errors c); [discriminate|reflexivity]|].
    apply andb_prop in H3. destruct H3 as [H3 H8]. apply andb_prop in H3. destruct H3 as [H3 H7].
    apply andb_prop in H3. destruct H3 as [H3 H6]. apply andb_prop in H3. destruct H3 as [H4 H5].
    split; [exact H4|]. split; [destruct (items_pst c PSValuesDone 1 its); try discriminate; reflexivity|].
    split; [destruct (is_set s_args_negate_subs c); [discriminate|reflexivity]|].
    unfold child in *. destruct (possible_subcommand c name false) as [scn|] eqn:Ep; [|discriminate].
    destruct (find_subcommand c scn) as [sc0|] eqn:Ef; [|discriminate].
    destruct (build_subcommand c (c_name sc0)) as [scb|] eqn:Eb; [|discriminate].
    exists scn, sc0, scb. split; [reflexivity|]. split; [destruct (beq scn s_help && _); [discriminate|reflexivity]|].
    split; [exact Ef|]. split; [exact Eb|]. split; [reflexivity|exact H8].
  - apply andb_prop in H. destruct H as [H H3]. apply andb_prop in H. destruct H as [H1 H2].
    split; [exact H1|]. split; [destruct (is_set s_ignore_errors c); [discriminate|reflexivity]|].
    apply andb_prop in H3. destruct H3 as [H3 H8]. apply andb_prop in H3. destruct H3 as [H3 H7].
    apply andb_prop in H3. destruct H3 as [H3 H6]. apply andb_prop in H3. destruct H3 as [H4 H5].
    split; [exact H4|]. split; [exact H5|]. split; [intros E; rewrite E in H6; exact H6|].
    split; [destruct (is_set s_dont_delimit_trailing c); [discriminate|reflexivity]|exact H8].
Qed.

Lemma valid_tree_child f c scn sc0 scb : valid_tree (S f) c = true ->
  find_subcommand c scn = Some sc0 -> build_subcommand c (c_name sc0) = Some scb ->
  valid_tree f scb = true.
Proof.
  cbn [valid_tree]. intros H Hf Hb. apply andb_prop in H. destruct H as [_ H].
  rewrite forallb_forall in H. unfold find_subcommand in Hf. apply find_some in Hf. destruct Hf as [Hin _].
  specialize (H sc0 Hin). rewrite Hb in H. exact H.
Qed.

(** THE UN-PARSER THEOREM for one command tree *)
Theorem gmw_inv : forall i c f, valid_tree (S f) c = true -> wf_inv c i = true ->
  get_matches_with (S f) c (render_inv i) ps_new = run_inv c i.
Proof.
  induction i as [its|its name j IH|its vs]; intros c f Hv Hw; destruct (wf_inv_parts c _ Hw) as [Hconv [Hie H]].
  - cbn [render_inv run_inv]. apply gmw_items; assumption.
  - destruct H as [Hwi [Hpst [Hneg [scn [sc0 [scb [Hps [Hh [Hfs [Hb [Hch Hwj]]]]]]]]]]].
    pose proof (valid_tree_child f c scn sc0 scb Hv Hfs Hb) as Hvc.
    destruct f as [|f']; [cbn [valid_tree] in Hvc; discriminate|].
    cbn [render_inv run_inv]. rewrite Hch. rewrite get_matches_with_unfold. unfold cmdline_phase.
    rewrite (loop_items c Hconv its (name :: render_inv j) PSValuesDone 1 false ps_new Hwi I
               (pend_inv_none c PSValuesDone ps_new eq_refl) eq_refl).
    rewrite Hpst. rewrite rbind_assoc.
    destruct (apply_items c 1 its ps_new) as [st'|e s|n]; cbn [rbind]. 2: { rewrite Hie; reflexivity. } 2: reflexivity.
    rewrite (loop_sub_name c name (render_inv j) _ _ st' scn Hneg Hps Hh). cbn [rbind].
    rewrite Hneg. cbn [andb]. rewrite Hfs. cbn [expect rbind]. rewrite Hb.
    assert (Ha : assert_app scb = true).
    { destruct f'; cbn [valid_tree] in Hvc; apply andb_prop in Hvc; apply Hvc. }
    rewrite Ha. cbn [negb].
    rewrite (IH scb f' Hvc Hwj).
    destruct (run_inv scb j) as [sub_st|e s|n]; [reflexivity|rewrite !Hie; reflexivity|reflexivity].
  - destruct H as [Hwi [Hnp [Hns [Hddt Hwt]]]].
    cbn [render_inv run_inv]. rewrite get_matches_with_unfold. unfold cmdline_phase.
    pose proof (pend_inv_none c PSValuesDone ps_new eq_refl) as Hi0.
    rewrite (loop_items c Hconv its (ESC :: vs) PSValuesDone 1 false ps_new Hwi I Hi0 eq_refl).
    rewrite rbind_assoc. rewrite react_all_app.
    pose proof (flush_items c Hconv its PSValuesDone 1 ps_new Hwi) as F.
    cbn [resolve_pending ps_new mt matcher_new mt_pending rbind] in F. change (mkPs matcher_new 0 None 0) with ps_new in F.
    rewrite <- F. clear F.
    destruct (apply_items c 1 its ps_new) as [st'|e s|n] eqn:Ea; cbn [rbind]; [|rewrite Hie; reflexivity|reflexivity].
    pose proof (items_pst_ok c Hconv its PSValuesDone 1 Hwi I) as Hpo.
    pose proof (apply_items_inv c Hconv its PSValuesDone 1 ps_new st' Hwi Hi0 Ea) as Hpi.
    assert (Hpi' : pend_inv c PSValuesDone st').
    { destruct (items_pst c PSValuesDone 1 its); [exact Hpi|exact Hpi|discriminate Hnp]. }
    rewrite (loop_escape c Hconv vs _ _ _ st' Hpo).
    2: { destruct (items_pst c PSValuesDone 1 its) eqn:Ep; try exact I. apply Hns. reflexivity. }
    rewrite (loop_trail c Hconv vs _ _ _ _ Hwt (pend_inv_start_trailing c st' Hpi')).
    rewrite rbind_assoc.
    assert (FT : (do s' <- trail_apply c (items_pos c 1 its) vs (st' <| mt := start_trailing (mt st') |>);
                  do s2 <- resolve_pending c s'; post_loop c s2) =
                 (do st0 <- resolve_pending c st';
                  do s2 <- react_all c (trail_occs c (items_pos c 1 its) vs) st0; post_loop c s2)).
    { rewrite <- (resolve_start_trailing c Hddt st').
      exact (flush_trail c Hconv Hddt vs (items_pos c 1 its) (st' <| mt := start_trailing (mt st') |>) (post_loop c) Hwt). }
    destruct (trail_apply c (items_pos c 1 its) vs (st' <| mt := start_trailing (mt st') |>)) as [s'|e s|n]; cbn [rbind] in *.
    + rewrite rbind_assoc. exact FT.
    + rewrite rbind_assoc. rewrite <- FT. rewrite Hie. reflexivity.
    + rewrite rbind_assoc. rewrite <- FT. reflexivity.
Qed.

(** in the successful case the level's own entries are the fold of [react] over its occurrences,
    whatever the subcommand slot holds *)
Theorem run_inv_sub_ok c its name j scb sub_st st : conv c = true ->
  wf_items c PSValuesDone 1 its = true -> child c name = Some scb -> run_inv scb j = ROk sub_st ->
  (run_inv c (ISub its name j) = ROk st <->
   exists st1, react_all c (occs c 1 its) ps_new = ROk st1 /\
               post_loop c (ssub (Some (c_name scb, into_inner (mt sub_st))) st1) = ROk st).
Proof.
  intros Hconv Hw Hch Hr. cbn [run_inv]. rewrite Hch, Hr.
  pose proof (flush_items c Hconv its PSValuesDone 1 ps_new Hw) as F.
  cbn [resolve_pending ps_new mt matcher_new mt_pending rbind] in F. change (mkPs matcher_new 0 None 0) with ps_new in F.
  rewrite <- F. set (x := Some (c_name scb, into_inner (mt sub_st))).
  destruct (apply_items c 1 its ps_new) as [st'|e s|n]; cbn [rbind].
  - rewrite resolve_pending_sub. destruct (resolve_pending c st') as [s1|e s|n]; cbn [psub rbind].
    + split; [intros H; exists s1; split; [reflexivity|exact H]|intros [s2 [E H]]; inversion E; subst; exact H].
    + split; [discriminate|intros [s2 [E _]]; discriminate].
    + split; [discriminate|intros [s2 [E _]]; discriminate].
  - split; [discriminate|intros [s2 [E _]]; discriminate].
  - split; [discriminate|intros [s2 [E _]]; discriminate].
Qed.

Lemma inv_occs_args c i : conv c = true -> Forall (fun o => In (o_arg o) (c_args c)) (inv_occs c i).
Proof.
  intros Hconv. destruct i as [its|its name j|its vs]; cbn [inv_occs]; try apply (occs_args c its 1).
  apply Forall_app. split; [apply (occs_args c its 1)|apply trail_occs_args].
Qed.

(** conservation at the root level of a tree (by [gmw_inv] every level is the root of its subtree) *)
Theorem conservation_inv : forall i c f st, valid_tree (S f) c = true -> wf_inv c i = true ->
  get_matches_with (S f) c (render_inv i) ps_new = ROk st ->
  forall a, In a (c_args c) ->
    (forall gs, denote_os c (a_id a) (inv_occs c i) = Some gs -> groups_of (a_id a) (mt st) = Some gs)
    /\ (forall e, fm_get (a_id a) (mt_args (mt st)) = Some e -> m_source e = Some SCmdLine ->
          denote_os c (a_id a) (inv_occs c i) = Some (m_raw e)).
Proof.
  intros i c f st Hv Hw H. rewrite (gmw_inv i c f Hv Hw) in H.
  destruct (wf_inv_parts c _ Hw) as [Hconv [Hie Hp]]. pose proof (inv_occs_args c i Hconv) as Hos.
  destruct i as [its|its name j|its vs]; cbn [inv_occs] in *.
  - cbn [run_inv] in H.
    destruct (react_all c (occs c 1 its) ps_new) as [st1|e s|n] eqn:E1; cbn [rbind] in H; try discriminate.
    apply (conservation_core_os c Hconv _ st1 st1 st Hos E1 eq_refl); [|exact H].
    apply (react_all_pending_keep c _ _ _ E1 eq_refl).
  - destruct Hp as [Hwi [_ [_ [scn [sc0 [scb [_ [_ [_ [_ [Hch _]]]]]]]]]]].
    destruct (run_inv scb j) as [sub_st|e s|n] eqn:Er.
    + apply (run_inv_sub_ok c its name j scb sub_st st Hconv Hwi Hch Er) in H. destruct H as [st1 [E1 H]].
      apply (conservation_core_os c Hconv _ st1 (ssub (Some (c_name scb, into_inner (mt sub_st))) st1) st Hos E1); [| |exact H].
      * rewrite ssub_mt, msub_args. reflexivity.
      * rewrite ssub_mt, msub_pending. apply (react_all_pending_keep c _ _ _ E1 eq_refl).
    + cbn [run_inv] in H. rewrite Hch, Er in H. destruct (apply_items c 1 its ps_new); discriminate.
    + cbn [run_inv] in H. rewrite Hch, Er in H. destruct (apply_items c 1 its ps_new); discriminate.
  - cbn [run_inv] in H.
    destruct (react_all c (occs c 1 its ++ trail_occs c (items_pos c 1 its) vs) ps_new) as [st1|e s|n] eqn:E1; cbn [rbind] in H; try discriminate.
    apply (conservation_core_os c Hconv _ st1 st1 st Hos E1 eq_refl); [|exact H].
    apply (react_all_pending_keep c _ _ _ E1 eq_refl).
Qed.

(** the subcommand chain is kept: the matches of a tree hold the child's matches under the child's name *)
Theorem chain_inv c its name j st : wf_inv c (ISub its name j) = true -> run_inv c (ISub its name j) = ROk st ->
  exists scb sub_st, child c name = Some scb /\ run_inv scb j = ROk sub_st /\
    mt_sub (mt st) = Some (c_name scb, into_inner (mt sub_st)).
Proof.
  intros Hw H. destruct (wf_inv_parts c _ Hw) as [Hconv [Hie [Hwi [_ [_ [scn [sc0 [scb [_ [_ [_ [_ [Hch _]]]]]]]]]]]]].
  destruct (run_inv scb j) as [sub_st|e s|n] eqn:Er.
  - exists scb, sub_st. split; [exact Hch|]. split; [exact Er|].
    apply (run_inv_sub_ok c its name j scb sub_st st Hconv Hwi Hch Er) in H. destruct H as [st1 [E1 H]].
    destruct (post_loop_ok c _ st H) as [st2 [E2 E3]].
    assert (P1 : mt_pending (mt (ssub (Some (c_name scb, into_inner (mt sub_st))) st1)) = None).
    { rewrite ssub_mt, msub_pending. apply (react_all_pending_keep c _ _ _ E1 eq_refl). }
    destruct (add_env_frame c _ st2 P1 E2) as [P2 [S2 _]].
    destruct (add_defaults_frame c st2 st P2 E3) as [_ [S3 _]].
    rewrite S3, S2. destruct st1 as [m ci fa fk]. destruct m. reflexivity.
  - cbn [run_inv] in H. rewrite Hch, Er in H. destruct (apply_items c 1 its ps_new); discriminate.
  - cbn [run_inv] in H. rewrite Hch, Er in H. destruct (apply_items c 1 its ps_new); discriminate.
Qed.

(** * the top level *)
(** what [_do_parse] does with the result of [get_matches_with] (its own text) *)
Definition finish_outcome (c0 : cmd) (r : res ps) : outcome :=
  let c := build_self c0 in
  let fuel := S (S (depth c)) in
  let finish (st : ps) : outcome :=
    let m := into_inner (mt st) in
    let globals := used_global_args (S (matches_depth m)) (build_recursive fuel c0) m in
    OOk (fst (fill_in_global_values (S (matches_depth m)) globals m [])) in
  match r with
  | ROk st => finish st
  | RErr e st => if is_set s_ignore_errors c && use_stderr (e_kind e) then finish st else OErr e
  | RPanic 0 => OOutOfFuel
  | RPanic s => OPanicked s
  end.

Lemma do_parse_unfold c0 toks :
  do_parse c0 toks = if negb (valid c0) then OInvalidConfig
                     else finish_outcome c0 (get_matches_with (S (S (depth (build_self c0)))) (build_self c0) toks ps_new).
Proof. reflexivity. Qed.

Theorem do_parse_inv c0 i : valid c0 = true -> wf_inv (build_self c0) i = true ->
  do_parse c0 (render_inv i) = finish_outcome c0 (run_inv (build_self c0) i).
Proof.
  intros Hv Hw. rewrite do_parse_unfold, Hv. cbn [negb]. f_equal. apply gmw_inv; [exact Hv|exact Hw].
Qed.

(** [argv[0]] becomes the binary name when none was set *)
Definition with_bin (c0 : cmd) (bin : bytes) : cmd :=
  match c_bin_name c0 with
  | Some _ => c0
  | None => if utf8_valid bin && negb (is_nil bin) then c0 <| c_bin_name := Some bin |> else c0
  end.

Theorem parse_top_inv c0 bin i : is_set s_no_binary_name c0 = false ->
  valid (with_bin c0 bin) = true -> wf_inv (build_self (with_bin c0 bin)) i = true ->
  parse_top c0 (bin :: render_inv i) =
  finish_outcome (with_bin c0 bin) (run_inv (build_self (with_bin c0 bin)) i).
Proof.
  intros Hn Hv Hw. unfold parse_top. rewrite Hn. fold (with_bin c0 bin). apply do_parse_inv; assumption.
Qed.

(** * trees without global arguments: [_do_parse] returns the matches of [get_matches_with] unchanged *)
Fixpoint no_globals (c : cmd) : bool :=
  match c with
  | mkCmd _ _ _ _ _ _ args _ subs _ _ _ _ _ _ _ _ _ =>
      forallb (fun a => negb (a_global a)) args
      && (fix go (l : list cmd) : bool := match l with [] => true | s :: t => no_globals s && go t end) subs
  end.

Lemma no_globals_parts c : no_globals c = true ->
  forallb (fun a => negb (a_global a)) (c_args c) = true /\ forall s, In s (c_subs c) -> no_globals s = true.
Proof.
  destruct c as [n al sf lf sfa lfa args groups subs cs gs v lv ev bn dn ab lab]. cbn [no_globals c_args c_subs].
  intros H. apply andb_prop in H. destruct H as [H1 H2]. split; [exact H1|].
  induction subs as [|s t IH]; intros s0 Hin; [destruct Hin|].
  apply andb_prop in H2. destruct H2 as [Hs Ht]. destruct Hin as [<-|Hin]; [exact Hs|apply IH; assumption].
Qed.

Lemma used_global_args_none : forall fuel c m, no_globals c = true -> used_global_args fuel c m = [].
Proof.
  induction fuel as [|f IH]; intros c m H; [reflexivity|]. destruct (no_globals_parts c H) as [H1 H2].
  cbn [used_global_args].
  assert (E : filter a_global (c_args c) = []).
  { clear -H1. induction (c_args c) as [|a l IHl]; [reflexivity|]. cbn [forallb] in H1. apply andb_prop in H1. destruct H1 as [Ha Hl].
    cbn [filter]. destruct (a_global a); [discriminate|]. apply IHl. exact Hl. }
  rewrite E. cbn [map app]. destruct (ms_sub m) as [[name sm]|]; [|reflexivity].
  destruct (find_subcommand c name) as [sc|] eqn:F; [|reflexivity].
  apply IH. apply H2. unfold find_subcommand in F. apply find_some in F. apply F.
Qed.

Lemma fill_no_globals : forall fuel m, fill_in_global_values fuel [] m [] = (m, []).
Proof.
  induction fuel as [|f IH]; intros m; [reflexivity|]. cbn [fill_in_global_values fold_left].
  destruct m as [args sub]. cbn [ms_sub ms_args]. destruct sub as [[name sm]|].
  - rewrite IH. reflexivity.
  - reflexivity.
Qed.

Theorem finish_no_globals c0 st :
  no_globals (build_recursive (S (S (depth (build_self c0)))) c0) = true ->
  finish_outcome c0 (ROk st) = OOk (into_inner (mt st)).
Proof.
  intros H. unfold finish_outcome. rewrite (used_global_args_none _ _ _ H). rewrite fill_no_globals. reflexivity.
Qed.

(** THE UN-PARSER THEOREM in its planned form, for trees without global arguments: parsing the
    rendered invocation succeeds exactly when its meaning does, with exactly those matches *)
Theorem parse_top_denote c0 bin i st : is_set s_no_binary_name c0 = false ->
  valid (with_bin c0 bin) = true -> wf_inv (build_self (with_bin c0 bin)) i = true ->
  no_globals (build_recursive (S (S (depth (build_self (with_bin c0 bin))))) (with_bin c0 bin)) = true ->
  run_inv (build_self (with_bin c0 bin)) i = ROk st ->
  parse_top c0 (bin :: render_inv i) = OOk (into_inner (mt st)).
Proof.
  intros Hn Hv Hw Hg Hr. rewrite (parse_top_inv c0 bin i Hn Hv Hw), Hr. apply finish_no_globals. exact Hg.
Qed.
