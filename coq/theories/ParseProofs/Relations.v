(** Property C03: a successful parse satisfies every declared relation between arguments.

    Part 1 is the *declarative* specification [Relations c mt] (written from the property text
    and clap's documentation, independent of the validator's code: no worklists, no
    [Conflicts] table, no [ChildGraph]).  Part 2 proves that the model of
    [Validator::validate] is sound for it; part 3 lifts this through [get_matches_with]
    to every level of the subcommand chain; part 4 relates the matcher-level notion of
    "group present" to the member-based one and exhibits the two input families on which
    they differ (findings). *)
From Coq Require Import ZArith List Bool Lia.
Import ListNotations.
From ClapModel Require Import Base.Bytes Base.Machine.
From ClapModel Require Import Parse.Cmd Parse.Build Parse.Valid Parse.Matcher Parse.Errors Parse.Validator Parse.Parser.
Open Scope N_scope.

(** * Part 1: specification *)

(** (R4) presence: an id is present when the matches hold an entry for it whose source is
    not [DefaultValue] (what [ArgMatches::value_source] reports) *)
Definition explicit_m (m : marg) : Prop := m_source m <> Some SDefault.
Definition present (mt : matcher) (i : id) : Prop :=
  exists m, fm_get i (mt_args mt) = Some m /\ explicit_m m.
Definition value_matches (m : marg) (v : bytes) : Prop :=
  exists r, In r (concat (m_raw m)) /\
            (if m_ignore_case m then eq_ignore_case r v = true else r = v).
(** an [ArgPredicate] holds of the explicit occurrence [m] *)
Definition holds (p : pred) (m : marg) : Prop :=
  explicit_m m /\ match p with PIsPresent => True | PEquals v => value_matches m v end.
Definition has_value (mt : matcher) (i : id) (v : bytes) : Prop :=
  exists m, fm_get i (mt_args mt) = Some m /\ holds (PEquals v) m.

(** the matcher is a [FlatMap]: keys are unique (representation invariant of the list encoding) *)
Definition fm_wf (mt : matcher) : Prop := NoDup (map fst (mt_args mt)).

Section Spec.
Variable c : cmd.
Variable mt : matcher.
(** the presence predicate on ids: [P] (what the matches report) or the member-based one of part 4 *)
Variable P : id -> Prop.

Definition arg_of (i : id) (a : arg) : Prop := find_arg c i = Some a.
Definition group_of (i : id) (g : group) : Prop := find_arg c i = None /\ find_group c i = Some g.
Definition member (i : id) (g : group) : Prop := In g (c_groups c) /\ In i (g_args g).

(** [declares x y]: the definition of [x] names [y] as something it cannot be used with:
    [conflicts_with], [overrides_with] ("overrides are implicitly conflicts"), a conflict of a
    group [x] belongs to, or another member of a non-[multiple] group [x] belongs to;
    for a group [x]: [ArgGroup::conflicts_with]. *)
Definition declares (x y : id) : Prop :=
  (exists a, arg_of x a /\
     (In y (a_blacklist a) \/ In y (a_overrides a) \/
      exists g, member x g /\
                (In y (g_conflicts g) \/ (g_multiple g = false /\ In y (g_args g) /\ y <> x))))
  \/ (exists g, group_of x g /\ In y (g_conflicts g)).

Definition exclusive_present : Prop :=
  exists e b, arg_of e b /\ a_exclusive b = true /\ P e.

(** what the present arg [root] (with explicit occurrence [m]) demands: the targets of its
    [requires]/[requires_if] rules whose predicate holds, closed under unconditional [requires] *)
Inductive ReqBy (root : id) (m : marg) : id -> Prop :=
| RB_direct a p y : arg_of root a -> In (p, y) (a_requires a) -> holds p m -> ReqBy root m y
| RB_trans x b y : ReqBy root m x -> arg_of x b -> In (PIsPresent, y) (a_requires b) -> ReqBy root m y.

Inductive Required : id -> Prop :=
| Rq_static a : In a (c_args c) -> a_required a = true -> Required (a_id a)
| Rq_group g : In g (c_groups c) -> g_required g = true -> Required (g_id g)
| Rq_group_requires g y : In g (c_groups c) -> g_required g = true -> In y (g_requires g) -> Required y
| Rq_present_group x g y : group_of x g -> P x -> In y (g_requires g) -> Required y
| Rq_requires root m y : fm_get root (mt_args mt) = Some m -> explicit_m m -> ReqBy root m y -> Required y.

(** documented exemptions for a missing required arg [x]: something present conflicts with it
    (declared on either side, or against/by a group [x] belongs to) *)
Definition excused (x : id) : Prop :=
  (exists y, P y /\ y <> x /\ (declares x y \/ declares y x))
  \/ (exists g y, member x g /\ P y /\ y <> g_id g /\ (declares (g_id g) y \/ declares y (g_id g))).

Definition satisfied (x : id) : Prop :=
  (forall a, arg_of x a -> P x \/ exclusive_present \/ excused x)
  /\ (forall g, group_of x g -> P x \/ exists m, In m (g_args g) /\ P m).

(** [required_if_eq_any] / [required_if_eq_all] / [required_unless_present(_any)] /
    [required_unless_present_all] *)
Definition cond_required (a : arg) : Prop :=
  (exists o v, In (o, v) (a_r_ifs a) /\ has_value mt o v)
  \/ (a_r_ifs_all a <> [] /\ forall o v, In (o, v) (a_r_ifs_all a) -> has_value mt o v)
  \/ ((a_r_unless a <> [] \/ a_r_unless_all a <> [])
      /\ (forall o, In o (a_r_unless a) -> ~ P o)
      /\ (a_r_unless_all a = [] \/ exists o, In o (a_r_unless_all a) /\ ~ P o)).

Definition negates_reqs : bool := is_set s_subs_negate_reqs c && is_some (mt_sub mt).

Record RelationsP : Prop := {
  (** (R1) no present arg together with a present arg or group one of them declares a conflict with;
      covers the members of a non-multiple group *)
  rel_conflicts : forall i a x, arg_of i a -> P i -> P x -> x <> i ->
                                ~ declares i x /\ ~ declares x i;
  (** (R2) an exclusive arg is the only present arg *)
  rel_exclusive : forall i a j b, arg_of i a -> a_exclusive a = true -> P i ->
                                  arg_of j b -> P j -> j = i;
  (** (R3) every required id is present or excused, unless a subcommand negates requirements *)
  rel_required : negates_reqs = false -> forall x, Required x -> satisfied x;
  rel_cond_required : negates_reqs = false -> forall a, In a (c_args c) -> cond_required a ->
                                  P (a_id a) \/ exclusive_present
}.
End Spec.

Definition Relations (c : cmd) (mt : matcher) : Prop := RelationsP c mt (present mt).

(** id-resolution facts of a command that passed [assert_app]: group ids are unique and
    group members are arguments *)
Definition rel_wf (c : cmd) : bool :=
  forallb (fun g => Nat.ltb (count_if (fun x => beq (g_id x) (g_id g)) (c_groups c)) 2
                    && forallb (fun m => is_some (find_arg c m)) (g_args g)) (c_groups c).

(** * Part 2: soundness of [validate] *)

(** ** basic facts *)
Lemma mem_id_In x l : mem_id x l = true <-> In x l.
Proof.
  unfold mem_id. rewrite existsb_exists. split.
  - intros (y & Hy & E). apply beq_eq in E. subst. exact Hy.
  - intros H. exists x. split; [exact H | apply beq_refl].
Qed.
Lemma mem_id_false x l : mem_id x l = false <-> ~ In x l.
Proof. rewrite <- mem_id_In. destruct (mem_id x l); intuition congruence. Qed.
Lemma is_nil_true {A} (l : list A) : is_nil l = true <-> l = [].
Proof. destruct l; cbn; split; intros; congruence. Qed.
Lemma is_nil_false {A} (l : list A) : is_nil l = false <-> l <> [].
Proof. destruct l; cbn; split; intros; congruence. Qed.

Lemma fm_get_In {V} k (l : list (id * V)) v : fm_get k l = Some v -> In (k, v) l.
Proof.
  induction l as [|[k' v'] t IH]; cbn; [discriminate|].
  destruct (beq k' k) eqn:E.
  - intros [= ->]. apply beq_eq in E. subst. now left.
  - intros H. right. auto.
Qed.
Lemma fm_get_first {V} k (l : list (id * V)) v :
  NoDup (map fst l) -> In (k, v) l -> fm_get k l = Some v.
Proof.
  induction l as [|[k' v'] t IH]; cbn; [intros _ []|].
  intros Hnd [E|Hin].
  - inversion E; subst. now rewrite beq_refl.
  - inversion Hnd as [|? ? Hni Hnd']; subst.
    destruct (beq k' k) eqn:E.
    + apply beq_eq in E. subst. exfalso. apply Hni. apply (in_map fst) in Hin. exact Hin.
    + auto.
Qed.

Lemma find_arg_id c i a : find_arg c i = Some a -> a_id a = i /\ In a (c_args c).
Proof. unfold find_arg. intros H. apply find_some in H as [Hin E]. apply beq_eq in E. auto. Qed.
Lemma find_group_id c i g : find_group c i = Some g -> g_id g = i /\ In g (c_groups c).
Proof. unfold find_group. intros H. apply find_some in H as [Hin E]. apply beq_eq in E. auto. Qed.

Lemma explicit_m_spec m : check_explicit_m PIsPresent m = true <-> explicit_m m.
Proof.
  unfold check_explicit_m, explicit_m. destruct (m_source m) as [[]|]; cbn; split; intros; congruence.
Qed.
Lemma check_explicit_m_spec p m : check_explicit_m p m = true <-> holds p m.
Proof.
  unfold holds. rewrite <- explicit_m_spec. unfold check_explicit_m.
  destruct (match m_source m with Some s => negb (src_explicit s) | None => false end).
  - split; [discriminate | intros [H _]; discriminate].
  - destruct p as [v|].
    + rewrite existsb_exists. unfold value_matches. split.
      * intros (r & Hin & E). split; [reflexivity|]. exists r. split; [exact Hin|].
        destruct (m_ignore_case m); [exact E | now apply beq_eq].
      * intros (_ & r & Hin & E). exists r. split; [exact Hin|].
        destruct (m_ignore_case m); [exact E | now apply beq_eq].
    + tauto.
Qed.
Lemma present_spec mt i : check_explicit mt i PIsPresent = true <-> present mt i.
Proof.
  unfold check_explicit, present. destruct (fm_get i (mt_args mt)) as [m|].
  - rewrite explicit_m_spec. split; [intros H; exists m; auto | intros (m' & [= <-] & H); exact H].
  - split; [discriminate | intros (m' & [=] & _)].
Qed.
Lemma not_present_spec mt i : check_explicit mt i PIsPresent = false <-> ~ present mt i.
Proof. rewrite <- present_spec. destruct (check_explicit mt i PIsPresent); intuition congruence. Qed.
Lemma has_value_spec mt i v : check_explicit mt i (PEquals v) = true <-> has_value mt i v.
Proof.
  unfold check_explicit, has_value. destruct (fm_get i (mt_args mt)) as [m|].
  - rewrite check_explicit_m_spec. split; [intros H; exists m; auto | intros (m' & [= <-] & H); exact H].
  - split; [discriminate | intros (m' & [=] & _)].
Qed.

Lemma explicit_entries_In mt i m :
  In (i, m) (explicit_entries mt) <-> In (i, m) (mt_args mt) /\ explicit_m m.
Proof. unfold explicit_entries. rewrite filter_In. cbn [snd]. now rewrite explicit_m_spec. Qed.
Lemma present_entry mt i : present mt i -> exists m, In (i, m) (explicit_entries mt).
Proof. intros (m & G & E). exists m. apply explicit_entries_In. split; [now apply fm_get_In | exact E]. Qed.
Lemma entry_present mt i m : fm_wf mt -> In (i, m) (explicit_entries mt) -> present mt i.
Proof.
  intros W H. apply explicit_entries_In in H as [Hin E]. exists m. split; [|exact E].
  now apply fm_get_first.
Qed.

(** ** [rel_wf] *)
Lemma count_lt2_find {A} (f : A -> bool) (l : list A) x :
  (forall y, In y l -> f y = true -> f x = true -> True) ->
  In x l -> f x = true -> (count_if f l < 2)%nat -> find f l = Some x.
Proof.
  intros _. induction l as [|y t IH]; [intros []|].
  unfold count_if in *. cbn [filter find]. intros [->|Hin] Hx Hc.
  - now rewrite Hx.
  - destruct (f y) eqn:Ey.
    + exfalso. cbn [length] in Hc.
      assert (In x (filter f t)) as Hf by (apply filter_In; auto).
      destruct (filter f t); [destruct Hf | cbn in Hc; lia].
    + auto.
Qed.
Lemma rel_wf_group c g : rel_wf c = true -> In g (c_groups c) ->
  find_group c (g_id g) = Some g /\ forall m, In m (g_args g) -> exists a, find_arg c m = Some a.
Proof.
  unfold rel_wf. rewrite forallb_forall. intros W Hin. specialize (W g Hin).
  apply andb_true_iff in W as [Hc Hm]. split.
  - unfold find_group. apply Nat.ltb_lt in Hc.
    apply (count_lt2_find (fun x => beq (g_id x) (g_id g))); auto. apply beq_refl.
  - rewrite forallb_forall in Hm. intros m Hmi. specialize (Hm m Hmi).
    destruct (find_arg c m) as [a|]; [eauto | discriminate].
Qed.
Lemma assert_app_rel_wf c : assert_app c = true -> rel_wf c = true.
Proof.
  unfold assert_app. intros H.
  repeat (apply andb_true_iff in H as [H ?]).
  match goal with Hg : forallb _ (c_groups c) = true |- _ => rename Hg into HG end.
  unfold rel_wf. rewrite forallb_forall in *. intros g Hin. specialize (HG g Hin).
  repeat (apply andb_true_iff in HG as [HG ?]).
  apply andb_true_iff. split; assumption.
Qed.

(** ** direct conflicts = [declares] *)
Section Sound.
Variable c : cmd.
Hypothesis W : rel_wf c = true.

Definition dc_step (a : arg) (acc : option (list id)) (gid : id) : option (list id) :=
  match acc with
  | None => None
  | Some conf =>
      match find_group c gid with
      | None => None
      | Some grp =>
          let conf := conf ++ g_conflicts grp in
          Some (if negb (g_multiple grp)
                then conf ++ filter (fun m => negb (beq m (a_id a))) (g_args grp)
                else conf)
      end
  end.
Lemma gadc_unfold a : gather_arg_direct_conflicts c a =
  match fold_left (dc_step a) (groups_for_arg c (a_id a)) (Some (a_blacklist a)) with
  | None => None | Some conf => Some (conf ++ a_overrides a) end.
Proof. reflexivity. Qed.
Lemma dc_fold_none a l : fold_left (dc_step a) l None = None.
Proof. induction l; cbn; auto. Qed.
Lemma filter_neq_In (x y : id) l : In y (filter (fun m => negb (beq m x)) l) <-> In y l /\ y <> x.
Proof. rewrite filter_In, negb_true_iff, beq_neq. tauto. Qed.

Definition grp_names (x : id) (grp : group) (y : id) : Prop :=
  In y (g_conflicts grp) \/ (g_multiple grp = false /\ In y (g_args grp) /\ y <> x).

Lemma dc_fold_spec a : forall l acc conf,
  fold_left (dc_step a) l (Some acc) = Some conf ->
  forall y, In y conf <->
            (In y acc \/ exists gid grp, In gid l /\ find_group c gid = Some grp /\ grp_names (a_id a) grp y).
Proof.
  induction l as [|gid l IH]; intros acc conf; cbn [fold_left].
  - intros [= <-] y. split; [auto | intros [H|(g & grp & [] & _)]; exact H].
  - unfold dc_step at 2. destruct (find_group c gid) as [grp|] eqn:E; [|rewrite dc_fold_none; discriminate].
    intros H y. rewrite (IH _ _ H y). clear IH H. unfold grp_names.
    assert (In y (if negb (g_multiple grp)
                  then (acc ++ g_conflicts grp) ++ filter (fun m => negb (beq m (a_id a))) (g_args grp)
                  else acc ++ g_conflicts grp)
            <-> In y acc \/ In y (g_conflicts grp) \/ (g_multiple grp = false /\ In y (g_args grp) /\ y <> a_id a)) as Hh.
    { destruct (g_multiple grp); cbn [negb]; repeat rewrite in_app_iff; rewrite ?filter_neq_In; intuition congruence. }
    cbv zeta. rewrite Hh. clear Hh. split.
    + intros [[H|H]|(g' & grp' & Hin & Hf & Hn)].
      * auto.
      * right. exists gid, grp. split; [now left|]. split; [exact E|exact H].
      * right. exists g', grp'. split; [now right|]. auto.
    + intros [H|(g' & grp' & [->|Hin] & Hf & Hn)].
      * auto.
      * rewrite E in Hf. inversion Hf; subst. left. right. exact Hn.
      * right. exists g', grp'. auto.
Qed.

Lemma groups_for_arg_spec x gid grp :
  (In gid (groups_for_arg c x) /\ find_group c gid = Some grp) <-> (member c x grp /\ gid = g_id grp).
Proof.
  unfold groups_for_arg, member. rewrite in_map_iff. split.
  - intros ((g0 & <- & Hf) & Hfg). apply filter_In in Hf as [Hin Hm]. apply mem_id_In in Hm.
    destruct (rel_wf_group c g0 W Hin) as [Hfind _]. rewrite Hfind in Hfg. inversion Hfg; subst. auto.
  - intros ((Hin & Hm) & ->). destruct (rel_wf_group c grp W Hin) as [Hfind _]. split; [|exact Hfind].
    exists grp. split; [reflexivity|]. apply filter_In. split; [exact Hin|]. now apply mem_id_In.
Qed.

Lemma gather_direct_spec x conf :
  gather_direct_conflicts c x = Some conf -> forall y, In y conf <-> declares c x y.
Proof.
  unfold gather_direct_conflicts, declares, arg_of, group_of.
  destruct (find_arg c x) as [a|] eqn:Ea.
  - rewrite gadc_unfold. destruct (fold_left _ _ _) as [conf0|] eqn:Ef; [|discriminate].
    intros [= <-] y. destruct (find_arg_id c x a Ea) as [Hid _].
    rewrite in_app_iff, (dc_fold_spec a _ _ _ Ef y). rewrite Hid. split.
    + intros [[H|(gid & grp & Hin & Hf & Hn)]|H]; left; exists a; (split; [reflexivity|]); auto.
      right. right. exists grp. split; [|exact Hn]. apply (groups_for_arg_spec x gid grp). auto.
    + intros [(a' & [= <-] & [H|[H|(g & Hm & Hn)]])|(g & [[=] _] & _)]; auto.
      left. right. exists (g_id g), g. destruct (proj2 (groups_for_arg_spec x (g_id g) g) (conj Hm eq_refl)). auto.
  - destruct (find_group c x) as [g|] eqn:Eg; [|discriminate].
    intros [= <-] y. split.
    + intros H. right. exists g. auto.
    + intros [(a & [=] & _)|(g' & [_ Hg'] & Hy)]. inversion Hg'; subst. exact Hy.
Qed.

(** ** the [Conflicts] table *)
Lemma cwa_spec mt potential : conflicts_with_args c mt = Some potential ->
  (forall x m, In (x, m) (explicit_entries mt) ->
               exists conf, In (x, conf) potential /\ gather_direct_conflicts c x = Some conf)
  /\ (forall x conf, In (x, conf) potential ->
               gather_direct_conflicts c x = Some conf /\ exists m, In (x, m) (explicit_entries mt)).
Proof.
  unfold conflicts_with_args. generalize (explicit_entries mt). intros l. revert potential.
  induction l as [|[k m0] t IH]; cbn [fold_right]; intros potential.
  - intros [= <-]. split; [intros ? ? [] | intros ? ? []].
  - destruct (fold_right _ _ t) as [l'|] eqn:Ef; [|discriminate]. cbn [fst].
    destruct (gather_direct_conflicts c k) as [conf0|] eqn:Eg; [|discriminate].
    intros [= <-]. destruct (IH l' eq_refl) as [IH1 IH2]. split.
    + intros x m [E|Hin].
      * inversion E; subst. exists conf0. split; [now left | exact Eg].
      * destruct (IH1 x m Hin) as (conf & Hc & Hg). exists conf. split; [now right | exact Hg].
    + intros x conf [E|Hin].
      * inversion E; subst. split; [exact Eg|]. exists m0. now left.
      * destruct (IH2 x conf Hin) as (Hg & m & Hm). split; [exact Hg|]. exists m. now right.
Qed.

Definition mine_of (potential : list (id * list id)) (x : id) : option (list id) :=
  match fm_get x potential with Some l => Some l | None => gather_direct_conflicts c x end.
Lemma mine_of_spec mt potential x mine : conflicts_with_args c mt = Some potential ->
  mine_of potential x = Some mine -> gather_direct_conflicts c x = Some mine.
Proof.
  intros Hp. unfold mine_of. destruct (fm_get x potential) as [l|] eqn:E; [|auto].
  intros [= <-]. apply fm_get_In in E. now apply (proj2 (cwa_spec mt potential Hp)) in E as [E _].
Qed.

Lemma flat_map_nil {A B} (f : A -> list B) l : flat_map f l = [] <-> forall x, In x l -> f x = [].
Proof.
  induction l as [|a t IH]; cbn; [split; [intros _ ? []|reflexivity]|].
  split.
  - intros H. apply app_eq_nil in H as [H1 H2]. intros x [<-|Hin]; [exact H1 | now apply IH].
  - intros H. rewrite (H a (or_introl eq_refl)). cbn. apply IH. intros x Hin. apply H. now right.
Qed.

Lemma gc_spec potential x l : gather_conflicts c potential x = Some l ->
  exists mine, mine_of potential x = Some mine /\
    (l = [] <-> forall other oc, In (other, oc) potential -> other <> x -> ~ In other mine /\ ~ In x oc).
Proof.
  unfold gather_conflicts. fold (mine_of potential x). destruct (mine_of potential x) as [mine|]; [|discriminate].
  intros [= <-]. exists mine. split; [reflexivity|]. rewrite flat_map_nil. split.
  - intros H other oc Hin Hne. specialize (H _ Hin). cbn beta iota in H.
    destruct (beq x other) eqn:Eb; [apply beq_eq in Eb; congruence|].
    apply app_eq_nil in H as [H1 H2].
    destruct (mem_id other mine) eqn:E1; [discriminate|]. destruct (mem_id x oc) eqn:E2; [discriminate|].
    apply mem_id_false in E1, E2. auto.
  - intros H [other oc] Hin. destruct (beq x other) eqn:Eb; [reflexivity|].
    apply beq_neq in Eb. destruct (H other oc Hin) as [H1 H2]; [congruence|].
    apply mem_id_false in H1, H2. now rewrite H1, H2.
Qed.

(** ** [validate_conflicts] = VOk gives (R1) and (R2) *)
Lemma first_err_ok {A} (f : A -> vres) l : first_err (map f l) = VOk -> forall x, In x l -> f x = VOk.
Proof.
  induction l as [|a t IH]; cbn; [intros _ ? []|].
  destruct (f a) eqn:E; try discriminate. intros H x [<-|Hin]; auto.
Qed.
Lemma build_conflict_err_ok name conf : build_conflict_err c name conf = VOk -> conf = [].
Proof.
  unfold build_conflict_err. destruct (is_nil conf) eqn:E; [intros _; now apply is_nil_true|].
  destruct (fold_right _ _ conf); [|discriminate].
  destruct (forallb _ _); [|discriminate]. destruct (find_arg c name); discriminate.
Qed.

Lemma two_keys_length {V} (l : list (id * V)) i j mi mj :
  In (i, mi) l -> In (j, mj) l -> i <> j -> (2 <= length l)%nat.
Proof.
  destruct l as [|p [|q t]]; cbn [In length]; try lia; try tauto.
  intros [E1|[]] [E2|[]] Hne. exfalso. subst p. inversion E2. congruence.
Qed.

Lemma validate_exclusive_ok mt : validate_exclusive c mt = VOk ->
  forall i a j b, arg_of c i a -> a_exclusive a = true -> present mt i -> arg_of c j b -> present mt j -> j = i.
Proof.
  unfold validate_exclusive, arg_of. intros H i a j b Ha Hx Hi Hb Hj.
  destruct (present_entry mt i Hi) as (mi & Hmi). destruct (present_entry mt j Hj) as (mj & Hmj).
  destruct (Nat.leb _ 1) eqn:El.
  - apply Nat.leb_le in El. destruct (beq j i) eqn:E; [now apply beq_eq|]. apply beq_neq in E. exfalso.
    assert (2 <= length (filter (fun p => is_some (find_arg c (fst p))) (explicit_entries mt)))%nat; [|lia].
    apply (two_keys_length _ i j mi mj); [| |congruence]; apply filter_In; cbn [fst]; split; auto.
    + now rewrite Ha.
    + now rewrite Hb.
  - exfalso. destruct (find_map _ _) eqn:Ef; [discriminate|]. clear H El.
    revert Ef Hmi. generalize (explicit_entries mt). induction l as [|p t IH]; cbn [find_map]; [intros _ []|].
    destruct (find_arg c (fst p)) as [a'|] eqn:Ep.
    + destruct (a_exclusive a') eqn:Ex; [discriminate|]. intros Ef [->|Hin]; [|auto].
      cbn [fst] in Ep. congruence.
    + intros Ef [->|Hin]; [|auto]. cbn [fst] in Ep. congruence.
Qed.

Lemma validate_conflicts_ok mt potential :
  fm_wf mt -> conflicts_with_args c mt = Some potential -> validate_conflicts c mt potential = VOk ->
  forall i a x, arg_of c i a -> present mt i -> present mt x -> x <> i -> ~ declares c i x /\ ~ declares c x i.
Proof.
  intros Wm Hp. unfold validate_conflicts. destruct (validate_exclusive c mt); try discriminate.
  intros H i a x Ha Hi Hx Hne.
  destruct (present_entry mt i Hi) as (mi & Hmi). destruct (present_entry mt x Hx) as (mx & Hmx).
  pose proof (first_err_ok _ _ H (i, mi)) as Hf. cbn [fst] in Hf.
  assert (In (i, mi) (filter (fun p => is_some (find_arg c (fst p))) (explicit_entries mt))) as Hin.
  { apply filter_In. split; [exact Hmi|]. cbn [fst]. unfold arg_of in Ha. now rewrite Ha. }
  specialize (Hf Hin). destruct (gather_conflicts c potential i) as [l|] eqn:Eg; [|discriminate].
  apply build_conflict_err_ok in Hf. subst l.
  destruct (gc_spec potential i [] Eg) as (mine & Hmine & Hnil).
  destruct (proj1 (cwa_spec mt potential Hp) x mx Hmx) as (oc & Hoc & Hgx).
  destruct (proj1 Hnil eq_refl x oc Hoc Hne) as [H1 H2].
  apply (mine_of_spec mt) in Hmine; [|exact Hp].
  rewrite (gather_direct_spec i mine Hmine x) in H1. rewrite (gather_direct_spec x oc Hgx i) in H2. auto.
Qed.

(** ** the required set *)
Lemma graph_insert_In g i x : In x (graph_insert g i) <-> In x g \/ x = i.
Proof.
  unfold graph_insert. destruct (mem_id i g) eqn:E.
  - apply mem_id_In in E. split; [auto | intros [H| ->]; auto].
  - rewrite in_app_iff. cbn. intuition.
Qed.
Lemma fold_graph_insert_In rs : forall req x, In x (fold_left graph_insert rs req) <-> In x req \/ In x rs.
Proof.
  induction rs as [|r t IH]; intros req x; cbn [fold_left].
  - cbn. tauto.
  - rewrite IH, graph_insert_In. cbn. intuition.
Qed.

Lemma required_graph_spec x :
  (exists a, In a (c_args c) /\ a_required a = true /\ x = a_id a)
  \/ (exists g, In g (c_groups c) /\ g_required g = true /\ (x = g_id g \/ In x (g_requires g)))
  -> In x (required_graph c).
Proof.
  unfold required_graph.
  set (FA := fun (g : list id) (a : arg) => if a_required a then graph_insert g (a_id a) else g).
  set (FG := fun (g : list id) (grp : group) => if g_required grp then graph_insert g (g_id grp) ++ g_requires grp else g).
  assert (HA : forall l g0 y, In y g0 \/ (exists a, In a l /\ a_required a = true /\ y = a_id a) -> In y (fold_left FA l g0)).
  { induction l as [|a t IH]; intros g0 y; cbn [fold_left].
    - intros [H|(a & [] & _)]; exact H.
    - intros H. apply IH. unfold FA. destruct H as [H|(a' & [<-|Hin] & Hr & ->)].
      + left. destruct (a_required a); [apply graph_insert_In|]; auto.
      + left. rewrite Hr. apply graph_insert_In. auto.
      + right. exists a'. auto. }
  assert (HG : forall l g0 y, In y g0 \/ (exists g, In g l /\ g_required g = true /\ (y = g_id g \/ In y (g_requires g)))
                              -> In y (fold_left FG l g0)).
  { induction l as [|a t IH]; intros g0 y; cbn [fold_left].
    - intros [H|(a & [] & _)]; exact H.
    - intros H. apply IH. unfold FG. destruct H as [H|(a' & [<-|Hin] & Hr & Hy)].
      + left. destruct (g_required a); [apply in_app_iff; left; apply graph_insert_In|]; auto.
      + left. rewrite Hr. apply in_app_iff. destruct Hy as [->|Hy]; [left; apply graph_insert_In|]; auto.
      + right. exists a'. auto. }
  intros [H|H]; apply HG; [left; apply HA; right; exact H | right; exact H].
Qed.

(** ** [unroll_arg_requires] computes a set closed under the fired [requires] edges *)
Section Unroll.
Variable func : pred * id -> option id.
Variable root : id.

Definition needs_visit (y : id) : Prop := exists req, find_arg c y = Some req /\ a_requires req <> [].
Definition goodW (S : list id) (x : id) : Prop :=
  forall b, find_arg c x = Some b ->
  forall r, In r (filter_map (relevant_rule func (beq x root)) (a_requires b)) -> In r S.

Definition ur_inner (acc : list id * list id) (r : id) : list id * list id :=
  let '(args, pushed) := acc in
  let pushed := match find_arg c r with
                | Some req => if negb (is_nil (a_requires req)) then a_id req :: pushed else pushed
                | None => pushed end in
  (args ++ [r], pushed).
Lemma ur_inner_spec : forall l args pushed args' pushed',
  fold_left ur_inner l (args, pushed) = (args', pushed') ->
  args' = args ++ l /\ (forall r, In r l -> needs_visit r -> In r pushed') /\ incl pushed pushed'.
Proof.
  induction l as [|r t IH]; intros args pushed args' pushed'; cbn [fold_left].
  - intros [= <- <-]. rewrite app_nil_r. split; [reflexivity|]. split; [intros ? []|apply incl_refl].
  - unfold ur_inner at 2. intros H. apply IH in H as (-> & Hv & Hi). rewrite <- app_assoc. cbn [app].
    split; [reflexivity|]. split.
    + intros r' [<-|Hin] Hn; [|auto]. apply Hi. destruct Hn as (req & Hf & Hne). rewrite Hf.
      apply is_nil_false in Hne. rewrite Hne. cbn [negb]. left. now apply find_arg_id in Hf as [-> _].
    + intros z Hz. apply Hi. destruct (find_arg c r) as [req|]; [destruct (negb _); [right|]|]; exact Hz.
Qed.

Lemma loop_closed : forall fuel r_vec processed args out,
  unroll_requires_loop c func root fuel r_vec processed args = Some out ->
  (forall x, In x processed -> goodW args x) ->
  (forall y, In y args -> needs_visit y -> In y processed \/ In y r_vec) ->
  incl args out /\ (forall x, In x processed \/ In x r_vec -> goodW out x)
  /\ (forall y, In y out -> needs_visit y -> goodW out y).
Proof.
  induction fuel as [|fuel IH]; intros r_vec processed args out; cbn [unroll_requires_loop]; [discriminate|].
  destruct r_vec as [|a rest].
  - intros [= <-] H1 H2. split; [apply incl_refl|]. split.
    + intros x [H|[]]. auto.
    + intros y Hy Hn. destruct (H2 y Hy Hn) as [H|[]]. auto.
  - destruct (mem_id a processed) eqn:Em.
    + apply mem_id_In in Em. intros H H1 H2. apply IH in H as (Ha & Hb & Hc); [| exact H1 |].
      * split; [exact Ha|]. split; [|exact Hc]. intros x [Hx|[<-|Hx]]; apply Hb; auto.
      * intros y Hy Hn. destruct (H2 y Hy Hn) as [H'|[<-|H']]; auto.
    + destruct (find_arg c a) as [arg|] eqn:Ea.
      * fold ur_inner. destruct (fold_left ur_inner _ _) as [args' pushed] eqn:Ef.
        apply ur_inner_spec in Ef as (-> & Hv & _).
        intros H H1 H2. apply IH in H as (Ha & Hb & Hc).
        -- split; [intros z Hz; apply Ha, in_app_iff; auto|]. split; [|exact Hc].
           intros x [Hx|[<-|Hx]]; apply Hb; rewrite !in_app_iff; cbn; auto.
        -- intros x Hx. apply in_app_iff in Hx as [Hx|[<-|[]]].
           ++ intros b Hb r Hr. apply in_app_iff. left. apply (H1 x Hx b Hb r Hr).
           ++ intros b Hb r Hr. rewrite Ea in Hb. inversion Hb; subst. apply in_app_iff. now right.
        -- intros y Hy Hn. rewrite !in_app_iff. cbn. apply in_app_iff in Hy as [Hy|Hy].
           ++ destruct (H2 y Hy Hn) as [H'|[<-|H']]; auto.
           ++ right. left. now apply Hv.
      * intros H H1 H2. apply IH in H as (Ha & Hb & Hc).
        -- split; [exact Ha|]. split; [|exact Hc].
           intros x [Hx|[<-|Hx]]; apply Hb; rewrite !in_app_iff; cbn; auto.
        -- intros x Hx. apply in_app_iff in Hx as [Hx|[<-|[]]]; [auto|].
           intros b Hb. congruence.
        -- intros y Hy Hn. rewrite !in_app_iff. cbn. destruct (H2 y Hy Hn) as [H'|[<-|H']]; auto.
Qed.

Lemma unroll_closed out : unroll_arg_requires c func root = Some out ->
  goodW out root /\ forall y, In y out -> needs_visit y -> goodW out y.
Proof.
  unfold unroll_arg_requires. intros H. apply loop_closed in H as (_ & Hb & Hc).
  - split; [apply Hb; right; now left | exact Hc].
  - intros ? [].
  - intros ? [].
Qed.
End Unroll.

Lemma filter_map_In {A B} (f : A -> option B) l x y : In x l -> f x = Some y -> In y (filter_map f l).
Proof.
  induction l as [|a t IH]; cbn; [intros []|].
  intros [->|Hin] Hf.
  - rewrite Hf. now left.
  - destruct (f a); [right|]; auto.
Qed.

Definition is_relevant (matched : marg) (r : pred * id) : option id :=
  if check_explicit_m (fst r) matched then Some (snd r) else None.

Lemma ReqBy_explicit root m y : ReqBy c root m y -> explicit_m m.
Proof. induction 1 as [a p y Ha Hin [He _]|]; auto. Qed.

Lemma ReqBy_unrolled root m out : unroll_arg_requires c (is_relevant m) root = Some out ->
  forall y, ReqBy c root m y -> In y out.
Proof.
  intros H. apply unroll_closed in H as [Hroot Hcl]. intros y HR.
  induction HR as [a p y Ha Hin Hh | x b y HR IH Hb Hin].
  - apply (Hroot a Ha). apply (filter_map_In _ _ (p, y)); [exact Hin|].
    unfold relevant_rule, is_relevant. rewrite beq_refl. cbn [orb fst snd].
    apply check_explicit_m_spec in Hh. now rewrite Hh.
  - assert (needs_visit x) as Hn. { exists b. split; [exact Hb|]. intros E. rewrite E in Hin. destruct Hin. }
    apply (Hcl x IH Hn b Hb). apply (filter_map_In _ _ (PIsPresent, y)); [exact Hin|].
    unfold relevant_rule, is_relevant. cbn [fst snd pred_is_present]. rewrite orb_true_r.
    apply ReqBy_explicit in HR. apply explicit_m_spec in HR. now rewrite HR.
Qed.

(** ** [gather_requires] *)
Definition gr_step (acc : option (list id)) (p : id * marg) : option (list id) :=
  match acc with
  | None => None
  | Some req =>
      let '(name, matched) := p in
      match find_arg c name with
      | Some arg =>
          match unroll_arg_requires c (is_relevant matched) (a_id arg) with
          | None => None
          | Some rs => Some (fold_left graph_insert rs req)
          end
      | None =>
          match find_group c name with
          | Some g => Some (fold_left graph_insert (g_requires g) req)
          | None => Some req
          end
      end
  end.
Lemma gather_requires_unfold mt required :
  gather_requires c mt required = fold_left gr_step (explicit_entries mt) (Some required).
Proof. reflexivity. Qed.
Lemma gr_fold_none l : fold_left gr_step l None = None.
Proof. induction l; cbn; auto. Qed.
Lemma gr_fold_spec : forall l req0 req, fold_left gr_step l (Some req0) = Some req ->
  incl req0 req
  /\ forall name matched, In (name, matched) l ->
       (forall arg, find_arg c name = Some arg ->
                    exists rs, unroll_arg_requires c (is_relevant matched) name = Some rs /\ incl rs req)
       /\ (forall g, find_arg c name = None -> find_group c name = Some g -> incl (g_requires g) req).
Proof.
  induction l as [|[n0 m0] t IH]; intros req0 req; cbn [fold_left].
  - intros [= <-]. split; [apply incl_refl | intros ? ? []].
  - unfold gr_step at 2. destruct (find_arg c n0) as [arg0|] eqn:Ea.
    + destruct (find_arg_id c n0 arg0 Ea) as [Hid _]. rewrite Hid.
      destruct (unroll_arg_requires c (is_relevant m0) n0) as [rs|] eqn:Eu; [|rewrite gr_fold_none; discriminate].
      intros H. apply IH in H as [Hi Ht]. split.
      * intros z Hz. apply Hi, fold_graph_insert_In. auto.
      * intros name matched [E|Hin]; [|auto]. inversion E; subst. split.
        -- intros arg _. exists rs. split; [exact Eu|]. intros z Hz. apply Hi, fold_graph_insert_In. auto.
        -- intros g Hn. congruence.
    + destruct (find_group c n0) as [g0|] eqn:Eg.
      * intros H. apply IH in H as [Hi Ht]. split.
        -- intros z Hz. apply Hi, fold_graph_insert_In. auto.
        -- intros name matched [E|Hin]; [|auto]. inversion E; subst. split.
           ++ intros arg Hn. congruence.
           ++ intros g _ Hg. rewrite Eg in Hg. inversion Hg; subst. intros z Hz. apply Hi, fold_graph_insert_In. auto.
      * intros H. apply IH in H as [Hi Ht]. split; [exact Hi|].
        intros name matched [E|Hin]; [|auto]. inversion E; subst. split; intros; congruence.
Qed.

Lemma gather_requires_spec mt required :
  fm_wf mt -> gather_requires c mt (required_graph c) = Some required ->
  forall x, Required c mt (present mt) x -> In x required.
Proof.
  intros Wm H. rewrite gather_requires_unfold in H. apply gr_fold_spec in H as [Hi He].
  intros x HR. destruct HR as [a Hin Hr | g Hin Hr | g y Hin Hr Hy | x g y [Hna Hg] Hp Hy | root m y Hg Hm HR].
  - apply Hi, required_graph_spec. left. exists a. auto.
  - apply Hi, required_graph_spec. right. exists g. auto.
  - apply Hi, required_graph_spec. right. exists g. auto.
  - destruct (present_entry mt x Hp) as (mx & Hmx). apply (proj2 (He x mx Hmx) g Hna Hg). exact Hy.
  - assert (In (root, m) (explicit_entries mt)) as Hmr.
    { apply explicit_entries_In. split; [now apply fm_get_In|exact Hm]. }
    assert (exists a, find_arg c root = Some a) as [a Ha].
    { clear - HR. induction HR as [a p y Ha _ _|]; eauto. }
    destruct (proj1 (He root m Hmr) a Ha) as (rs & Hu & Hrs). apply Hrs. apply (ReqBy_unrolled root m rs Hu y HR).
Qed.

(** ** [unroll_args_in_group]: with member = arg, the members themselves *)
Definition ug_inner (acc : list id * list id) (n : id) : list id * list id :=
  let '(args, pushed) := acc in
  if mem_id n args then (args, pushed)
  else if is_some (find_arg c n) then (args ++ [n], pushed)
  else (args, n :: pushed).
Lemma ug_inner_spec : forall l args pushed,
  (forall n, In n l -> is_some (find_arg c n) = true) ->
  exists args', fold_left ug_inner l (args, pushed) = (args', pushed)
                /\ forall z, In z args' -> In z args \/ In z l.
Proof.
  induction l as [|n t IH]; intros args pushed Hl; cbn [fold_left].
  - exists args. split; [reflexivity|auto].
  - unfold ug_inner at 2. destruct (mem_id n args).
    + destruct (IH args pushed) as (args' & E & Hz); [intros; apply Hl; now right|].
      exists args'. split; [exact E|]. intros z Hin. destruct (Hz z Hin); cbn; auto.
    + rewrite (Hl n (or_introl eq_refl)).
      destruct (IH (args ++ [n]) pushed) as (args' & E & Hz); [intros; apply Hl; now right|].
      exists args'. split; [exact E|]. intros z Hin. destruct (Hz z Hin) as [H|H]; cbn; auto.
      apply in_app_iff in H as [H|[<-|[]]]; auto.
Qed.
Lemma unroll_group_members g members : In g (c_groups c) -> find_group c (g_id g) = Some g ->
  unroll_args_in_group c (g_id g) = Some members -> forall z, In z members -> In z (g_args g).
Proof.
  intros Hin Hf. unfold unroll_args_in_group. cbn [unroll_group_loop]. rewrite Hf.
  fold ug_inner.
  destruct (ug_inner_spec (g_args g) [] []) as (args' & E & Hz).
  { intros n Hn. destruct (proj2 (rel_wf_group c g W Hin) n Hn) as (a & ->). reflexivity. }
  rewrite E. cbn [app]. intros [= <-] z Hzin. destruct (Hz z Hzin) as [[]|H]. exact H.
Qed.

(** ** [is_missing_required_ok] *)
Definition imr_step (potential : list (id * list id)) (acc : option bool) (g : id) : option bool :=
  match acc with
  | None => None
  | Some true => Some true
  | Some false =>
      match gather_conflicts c potential g with
      | None => None
      | Some l => Some (negb (is_nil l))
      end
  end.
Lemma imr_fold potential : forall l acc, fold_left (imr_step potential) l acc = Some true ->
  acc = Some true \/ exists g lc, In g l /\ gather_conflicts c potential g = Some lc /\ lc <> [].
Proof.
  induction l as [|g t IH]; intros acc; cbn [fold_left]; [auto|].
  intros H. apply IH in H as [H|(g' & lc & Hin & Hg & Hne)].
  - unfold imr_step in H. destruct acc as [[|]|]; try discriminate; [auto|].
    destruct (gather_conflicts c potential g) as [lc|] eqn:Eg; [|discriminate].
    right. exists g, lc. split; [now left|]. split; [exact Eg|]. apply is_nil_false.
    inversion H. now apply negb_true_iff.
  - right. exists g', lc. split; [now right|]. auto.
Qed.

Lemma gc_witness potential x l : gather_conflicts c potential x = Some l -> l <> [] ->
  exists mine other oc, mine_of potential x = Some mine /\ In (other, oc) potential /\ other <> x
                        /\ (In other mine \/ In x oc).
Proof.
  unfold gather_conflicts. fold (mine_of potential x). destruct (mine_of potential x) as [mine|]; [|discriminate].
  intros [= <-] Hne. match type of Hne with ?fm <> [] => destruct fm as [|z t] eqn:Ef end; [exfalso; now apply Hne|].
  assert (In z (z :: t)) as Hz by now left. rewrite <- Ef in Hz. apply in_flat_map in Hz as ([other oc] & Hin & Hz).
  exists mine, other, oc. split; [reflexivity|]. split; [exact Hin|].
  destruct (beq x other) eqn:Eb; [destruct Hz|]. apply beq_neq in Eb. split; [congruence|].
  apply in_app_iff in Hz as [Hz|Hz].
  - left. destruct (mem_id other mine) eqn:E; [now apply mem_id_In|destruct Hz].
  - right. destruct (mem_id x oc) eqn:E; [now apply mem_id_In|destruct Hz].
Qed.

Lemma gc_nonempty mt potential x l :
  fm_wf mt -> conflicts_with_args c mt = Some potential ->
  gather_conflicts c potential x = Some l -> l <> [] ->
  exists y, present mt y /\ y <> x /\ (declares c x y \/ declares c y x).
Proof.
  intros Wm Hp Hg Hne. destruct (gc_witness potential x l Hg Hne) as (mine & y & oc & Hmine & Hin & Hyx & Hd).
  apply (mine_of_spec mt) in Hmine; [|exact Hp].
  destruct (proj2 (cwa_spec mt potential Hp) y oc Hin) as (Hgy & my & Hmy).
  exists y. split; [now apply (entry_present mt y my)|]. split; [exact Hyx|].
  destruct Hd as [Hd|Hd]; [left; now apply (gather_direct_spec x mine Hmine) | right; now apply (gather_direct_spec y oc Hgy)].
Qed.

Lemma imr_ok_spec mt potential a :
  fm_wf mt -> conflicts_with_args c mt = Some potential ->
  is_missing_required_ok c potential a = Some true -> excused c (present mt) (a_id a).
Proof.
  intros Wm Hp. unfold is_missing_required_ok, excused.
  destruct (gather_conflicts c potential (a_id a)) as [l|] eqn:Eg; [|discriminate].
  destruct (is_nil l) eqn:En; cbn [negb].
  - fold (imr_step potential). intros H. apply imr_fold in H as [H|(g & lc & Hin & Hg & Hne)]; [discriminate|].
    right. unfold groups_for_arg in Hin. apply in_map_iff in Hin as (g0 & <- & Hf).
    apply filter_In in Hf as [Hin Hm]. apply mem_id_In in Hm.
    destruct (gc_nonempty mt potential (g_id g0) lc Wm Hp Hg Hne) as (y & Hy & Hne' & Hd).
    exists g0, y. unfold member. auto.
  - intros _. left. apply is_nil_false in En. apply (gc_nonempty mt potential (a_id a) l Wm Hp Eg En).
Qed.

(** ** [validate_required] *)
Definition excl_present_b (mt : matcher) : bool :=
  existsb (fun p => match find_arg c (fst p) with Some a => a_exclusive a | None => false end)
          (explicit_entries mt).
Lemma excl_present_spec mt : fm_wf mt -> excl_present_b mt = true -> exclusive_present c (present mt).
Proof.
  intros Wm. unfold excl_present_b. rewrite existsb_exists. intros ([e m] & Hin & H). cbn [fst] in H.
  destruct (find_arg c e) as [b|] eqn:Eb; [|discriminate].
  exists e, b. split; [exact Eb|]. split; [exact H|]. now apply (entry_present mt e m).
Qed.

Definition mr_step1 (mt : matcher) (potential : list (id * list id)) (excl : bool)
           (acc : option (list id * N)) (aog : id) : option (list id * N) :=
  match acc with
  | None => None
  | Some (missing, highest) =>
      if check_explicit mt aog PIsPresent then acc
      else match find_arg c aog with
           | Some a =>
               if excl then acc
               else match is_missing_required_ok c potential a with
                    | None => None
                    | Some true => acc
                    | Some false =>
                        Some (missing ++ [a_id a],
                              if a_last a then highest else N.max highest (opt_default 0 (a_index a)))
                    end
           | None =>
               match find_group c aog with
               | Some g =>
                   match unroll_args_in_group c (g_id g) with
                   | None => None
                   | Some members =>
                       if existsb (fun m => check_explicit mt m PIsPresent) members then acc
                       else Some (missing ++ [g_id g], highest)
                   end
               | None => acc
               end
           end
  end.
Definition cond_b (mt : matcher) (a : arg) : bool :=
  let r1 := existsb (fun r => check_explicit mt (fst r) (PEquals (snd r))) (a_r_ifs a) in
  let r2 := forallb (fun r => check_explicit mt (fst r) (PEquals (snd r))) (a_r_ifs_all a)
            && negb (is_nil (a_r_ifs_all a)) in
  let r3 := (negb (is_nil (a_r_unless a)) || negb (is_nil (a_r_unless_all a)))
            && fails_arg_required_unless mt a in
  r1 || r2 || r3.
Definition mr_step2 (mt : matcher) (excl : bool) (acc : list id * N) (a : arg) : list id * N :=
  let '(missing, highest) := acc in
  if check_explicit mt (a_id a) PIsPresent then acc
  else if negb excl && cond_b mt a
       then (missing ++ [a_id a],
             if a_last a then highest else N.max highest (opt_default 0 (a_index a)))
       else acc.
Definition mr_step3 (mt : matcher) (highest : N) (missing : list id) (p : arg) : list id :=
  if check_explicit mt (a_id p) PIsPresent then missing
  else match a_index p with
       | Some i => if i <? highest then missing ++ [a_id p] else missing
       | None => missing ++ [a_id p]
       end.
Lemma missing_required_unfold mt potential :
  missing_required c mt potential =
  match gather_requires c mt (required_graph c) with
  | None => None
  | Some required =>
      match fold_left (mr_step1 mt potential (excl_present_b mt)) required (Some ([], 0)) with
      | None => None
      | Some (missing, highest) =>
          let '(missing, highest) := fold_left (mr_step2 mt (excl_present_b mt)) (c_args c) (missing, highest) in
          Some (if negb (is_set s_allow_missing_pos c)
                then fold_left (mr_step3 mt highest) (positionals c) missing
                else missing)
      end
  end.
Proof. reflexivity. Qed.

Definition step1_ok (mt : matcher) (potential : list (id * list id)) (excl : bool) (aog : id) : Prop :=
  check_explicit mt aog PIsPresent = true
  \/ (exists a, find_arg c aog = Some a /\ (excl = true \/ is_missing_required_ok c potential a = Some true))
  \/ (find_arg c aog = None /\ exists g members, find_group c aog = Some g
        /\ unroll_args_in_group c (g_id g) = Some members
        /\ existsb (fun m => check_explicit mt m PIsPresent) members = true)
  \/ (find_arg c aog = None /\ find_group c aog = None).

Lemma app_one_not_nil {A} (l : list A) x : l ++ [x] <> [].
Proof. destruct l; discriminate. Qed.

Lemma mr_step1_none mt potential excl l : fold_left (mr_step1 mt potential excl) l None = None.
Proof. induction l; cbn; auto. Qed.
Lemma mr_step1_inv mt potential excl : forall l acc h',
  fold_left (mr_step1 mt potential excl) l acc = Some ([], h') ->
  (exists h, acc = Some ([], h)) /\ forall aog, In aog l -> step1_ok mt potential excl aog.
Proof.
  induction l as [|x t IH]; intros acc h'; cbn [fold_left].
  - intros ->. split; [eauto | intros ? []].
  - intros H. apply IH in H as [(h & Hacc) Ht].
    assert ((exists h0, acc = Some ([], h0)) /\ step1_ok mt potential excl x) as [Ha Hx].
    { clear IH Ht. unfold mr_step1 in Hacc. unfold step1_ok.
      destruct acc as [[missing highest]|]; [|discriminate].
      destruct (check_explicit mt x PIsPresent) eqn:Ec.
      { inversion Hacc; subst. split; [eauto|auto]. }
      destruct (find_arg c x) as [a|] eqn:Ea.
      - destruct excl eqn:Ex.
        { inversion Hacc; subst. split; [eauto|]. right. left. exists a. auto. }
        destruct (is_missing_required_ok c potential a) as [[|]|] eqn:Ei; try discriminate.
        + inversion Hacc; subst. split; [eauto|]. right. left. exists a. auto.
        + exfalso. inversion Hacc as [[Hm Hh]]. now apply app_one_not_nil in Hm.
      - destruct (find_group c x) as [g|] eqn:Eg.
        + destruct (unroll_args_in_group c (g_id g)) as [members|] eqn:Eu; [|discriminate].
          destruct (existsb _ members) eqn:Ee.
          * inversion Hacc; subst. split; [eauto|]. right. right. left. split; [reflexivity|]. exists g, members. auto.
          * exfalso. inversion Hacc as [[Hm Hh]]. now apply app_one_not_nil in Hm.
        + inversion Hacc; subst. split; [eauto|]. right. right. right. auto. }
    split; [exact Ha|]. intros aog [<-|Hin]; auto.
Qed.

Lemma mr_step2_inv mt excl : forall l acc h',
  fold_left (mr_step2 mt excl) l acc = ([], h') ->
  fst acc = [] /\ forall a, In a l -> check_explicit mt (a_id a) PIsPresent = true \/ negb excl && cond_b mt a = false.
Proof.
  induction l as [|x t IH]; intros acc h'; cbn [fold_left].
  - intros ->. split; [reflexivity | intros ? []].
  - intros H. apply IH in H as [Hacc Ht].
    assert (fst acc = [] /\ (check_explicit mt (a_id x) PIsPresent = true \/ negb excl && cond_b mt x = false)) as [Ha Hx].
    { clear IH Ht. unfold mr_step2 in Hacc. destruct acc as [missing highest].
      destruct (check_explicit mt (a_id x) PIsPresent); [auto|].
      destruct (negb excl && cond_b mt x); [|auto].
      exfalso. cbn [fst] in Hacc. now apply app_one_not_nil in Hacc. }
    split; [exact Ha|]. intros a [<-|Hin]; auto.
Qed.

Lemma mr_step3_inv mt highest : forall l missing, fold_left (mr_step3 mt highest) l missing = [] -> missing = [].
Proof.
  induction l as [|x t IH]; intros missing; cbn [fold_left]; [auto|].
  intros H. apply IH in H. unfold mr_step3 in H.
  destruct (check_explicit mt (a_id x) PIsPresent); [exact H|].
  destruct (a_index x) as [i|]; [destruct (i <? highest); [|exact H]|]; now apply app_one_not_nil in H.
Qed.

Lemma cond_b_spec mt a : cond_required mt (present mt) a -> cond_b mt a = true.
Proof.
  unfold cond_required, cond_b. intros [(o & v & Hin & Hv)|[(Hne & Hall)|(Hne & Hany & Hallu)]].
  - apply orb_true_iff. left. apply orb_true_iff. left. apply existsb_exists. exists (o, v).
    split; [exact Hin|]. cbn [fst snd]. now apply has_value_spec.
  - apply orb_true_iff. left. apply orb_true_iff. right. apply andb_true_iff. split.
    + apply forallb_forall. intros [o v] Hin. cbn [fst snd]. apply has_value_spec. auto.
    + apply negb_true_iff. now apply is_nil_false.
  - apply orb_true_iff. right. apply andb_true_iff. split.
    + apply orb_true_iff. destruct Hne as [H|H]; [left|right]; apply negb_true_iff; now apply is_nil_false.
    + unfold fails_arg_required_unless. apply andb_true_iff. split.
      * apply orb_true_iff. destruct Hallu as [->|(o & Hin & Hn)]; [now left|]. right.
        apply negb_true_iff. destruct (forallb _ (a_r_unless_all a)) eqn:Ef; [|reflexivity].
        exfalso. rewrite forallb_forall in Ef. apply Hn. apply present_spec. auto.
      * apply negb_true_iff. destruct (existsb _ (a_r_unless a)) eqn:Ee; [|reflexivity].
        exfalso. apply existsb_exists in Ee as (o & Hin & Ho). apply (Hany o Hin). now apply present_spec.
Qed.

Lemma missing_required_ok mt potential :
  fm_wf mt -> conflicts_with_args c mt = Some potential -> missing_required c mt potential = Some [] ->
  (forall x, Required c mt (present mt) x -> satisfied c (present mt) x)
  /\ (forall a, In a (c_args c) -> cond_required mt (present mt) a -> present mt (a_id a) \/ exclusive_present c (present mt)).
Proof.
  intros Wm Hp. rewrite missing_required_unfold.
  destruct (gather_requires c mt (required_graph c)) as [required|] eqn:Egr; [|discriminate].
  destruct (fold_left (mr_step1 _ _ _) required _) as [[missing1 highest1]|] eqn:E1; [|discriminate].
  destruct (fold_left (mr_step2 _ _) (c_args c) _) as [missing2 highest2] eqn:E2.
  intros H. assert (missing2 = []) as ->.
  { destruct (negb (is_set s_allow_missing_pos c)); injection H as H'; [now apply mr_step3_inv in H' | exact H']. }
  clear H. apply mr_step2_inv in E2 as [Hm1 H2]. cbn [fst] in Hm1. subst missing1.
  apply mr_step1_inv in E1 as [_ H1]. split.
  - intros x HR. apply (gather_requires_spec mt required Wm Egr) in HR. specialize (H1 x HR).
    unfold satisfied. destruct H1 as [Hp1|[(a & Ha & Hex)|[(Hna & g & members & Hg & Hu & He)|[Hna Hng]]]].
    + apply present_spec in Hp1. split.
      * intros; auto.
      * intros g _. now left.
    + split.
      * intros a' Ha'. unfold arg_of in Ha'. rewrite Ha in Ha'. inversion Ha'; subst a'.
        destruct (find_arg_id c x a Ha) as [Hid _]. destruct Hex as [Hex|Hex].
        -- right. left. now apply excl_present_spec.
        -- right. right. rewrite <- Hid. now apply (imr_ok_spec mt potential a).
      * intros g [Hna _]. congruence.
    + split.
      * intros a Ha. unfold arg_of in Ha. congruence.
      * intros g' [_ Hg']. rewrite Hg in Hg'. inversion Hg'; subst g'.
        apply existsb_exists in He as (m & Hin & Hm). right. exists m. split; [|now apply present_spec].
        destruct (find_group_id c x g Hg) as [Hid Hgin]. rewrite <- Hid in Hg.
        apply (unroll_group_members g members Hgin Hg Hu m Hin).
    + split; [intros a Ha; unfold arg_of in Ha; congruence | intros g [_ Hg]; congruence].
  - intros a Hin Hc. apply cond_b_spec in Hc. destruct (H2 a Hin) as [Hp2|Hn].
    + left. now apply present_spec.
    + right. rewrite Hc, andb_true_r in Hn. apply negb_false_iff in Hn. now apply excl_present_spec.
Qed.

(** ** [Validator::validate] is sound for [Relations] *)
Theorem validate_sound_wf mt : fm_wf mt -> validate c mt = VOk -> Relations c mt.
Proof.
  intros Wm. unfold validate.
  destruct (conflicts_with_args c mt) as [potential|] eqn:Hp; [|discriminate].
  destruct (negb (is_some (mt_sub mt)) && is_set s_arg_required_else_help c && is_nil (explicit_entries mt)); [discriminate|].
  destruct (negb (is_some (mt_sub mt)) && is_set s_sub_required c); [discriminate|].
  destruct (validate_conflicts c mt potential) eqn:Hc; try discriminate.
  intros H. unfold Relations. constructor.
  - apply (validate_conflicts_ok mt potential Wm Hp Hc).
  - apply validate_exclusive_ok. unfold validate_conflicts in Hc.
    destruct (validate_exclusive c mt); try discriminate; reflexivity.
  - unfold negates_reqs. intros Hn. rewrite Hn in H.
    destruct (missing_required c mt potential) as [[|m l]|] eqn:Hm; try discriminate.
    apply (missing_required_ok mt potential Wm Hp Hm).
  - unfold negates_reqs. intros Hn. rewrite Hn in H.
    destruct (missing_required c mt potential) as [[|m l]|] eqn:Hm; try discriminate.
    apply (missing_required_ok mt potential Wm Hp Hm).
Qed.
End Sound.

Theorem validate_sound c mt :
  assert_app c = true -> fm_wf mt -> validate c mt = VOk -> Relations c mt.
Proof. intros H. apply validate_sound_wf. now apply assert_app_rel_wf. Qed.

(** consequence of (R1) spelled out: a non-[multiple] group has at most one present member *)
Corollary group_single c mt g i j a :
  Relations c mt -> In g (c_groups c) -> g_multiple g = false ->
  In i (g_args g) -> In j (g_args g) -> arg_of c i a -> present mt i -> present mt j -> i = j.
Proof.
  intros R Hg Hm Hi Hj Ha Pi Pj. destruct (beq j i) eqn:E; [symmetry; now apply beq_eq|].
  apply beq_neq in E. exfalso. destruct (rel_conflicts c mt _ R i a j Ha Pi Pj E) as [H _]. apply H.
  left. exists a. split; [exact Ha|]. right. right. exists g. split; [split; assumption|]. right. auto.
Qed.

(** * Part 3: lifting through the parser *)

(** a successful [get_matches_with] ends in a successful [validate] of the level's own matcher
    (also under [ignore_errors]: a parse error of this level is returned, never swallowed here) *)
Lemma gmw_validated fuel c toks st0 st :
  get_matches_with fuel c toks st0 = ROk st -> validate c (mt st) = VOk.
Proof.
  destruct fuel as [|fuel]; cbn [get_matches_with]; [discriminate|].
  match goal with |- (match ?p with _ => _ end) = _ -> _ => destruct p as [s|e s|n] end.
  - unfold rbind. destruct (resolve_pending c s) as [s1| |]; try discriminate.
    destruct (add_env c s1) as [s2| |]; try discriminate.
    destruct (add_defaults c s2) as [s3| |]; try discriminate.
    destruct (validate c (mt s3)) eqn:E; cbn [vres_to_res]; try discriminate.
    intros [= <-]. exact E.
  - destruct (is_set s_ignore_errors c); [|discriminate]. cbv zeta.
    destruct (resolve_pending c s); try discriminate;
    (match goal with |- context [add_env c ?x] => destruct (add_env c x) end; try discriminate;
     match goal with |- context [add_defaults c ?x] => destruct (add_defaults c x) end; discriminate).
  - discriminate.
Qed.

Theorem gmw_sound fuel c toks st0 st :
  assert_app c = true -> get_matches_with fuel c toks st0 = ROk st -> fm_wf (mt st) -> Relations c (mt st).
Proof. intros A H Wm. apply validate_sound; auto. now apply (gmw_validated fuel c toks st0). Qed.

(** * Part 4: member-based presence of groups *)

(** The property speaks of the explicitly supplied *arguments*; a group is present when one of
    its members is.  [Relations] uses what the matches report for a group id (the group's own
    entry).  The two notions agree on [coherent] matchers; [RelationsM] is the specification
    with member-based presence. *)
Definition present_members (mt : matcher) (g : group) : Prop := exists m, In m (g_args g) /\ present mt m.
Definition presentM (c : cmd) (mt : matcher) (x : id) : Prop :=
  match find_arg c x, find_group c x with
  | None, Some g => present_members mt g
  | _, _ => present mt x
  end.
Definition RelationsM (c : cmd) (mt : matcher) : Prop := RelationsP c mt (presentM c mt).

Definition coherent (c : cmd) (mt : matcher) : Prop :=
  forall x g, group_of c x g -> (present mt x <-> present_members mt g).
Definition coherent_b (c : cmd) (mt : matcher) : bool :=
  forallb (fun g => Bool.eqb (check_explicit mt (g_id g) PIsPresent)
                             (existsb (fun m => check_explicit mt m PIsPresent) (g_args g))) (c_groups c).

Lemma present_members_spec mt g :
  existsb (fun m => check_explicit mt m PIsPresent) (g_args g) = true <-> present_members mt g.
Proof.
  unfold present_members. rewrite existsb_exists. split; intros (m & Hin & H); exists m; (split; [exact Hin|]); now apply present_spec.
Qed.
Lemma coherent_b_sound c mt : coherent_b c mt = true -> coherent c mt.
Proof.
  unfold coherent_b, coherent. rewrite forallb_forall. intros H x g [_ Hg].
  destruct (find_group_id c x g Hg) as [Hid Hin]. specialize (H g Hin). apply eqb_prop in H.
  rewrite Hid in H. rewrite <- present_spec, <- present_members_spec, H. tauto.
Qed.
Lemma coherent_b_complete c mt : assert_app c = true -> coherent c mt -> coherent_b c mt = true.
Proof.
  intros A Hc. pose proof (assert_app_rel_wf c A) as W.
  unfold coherent_b. apply forallb_forall. intros g Hin.
  assert (find_arg c (g_id g) = None) as Hna.
  { unfold assert_app in A. repeat (apply andb_true_iff in A as [A ?]).
    match goal with Hg : forallb _ (c_groups c) = true |- _ => rename Hg into HG end.
    rewrite forallb_forall in HG. specialize (HG g Hin). repeat (apply andb_true_iff in HG as [HG ?]).
    match goal with Hn : negb (is_some (find_arg c (g_id g))) = true |- _ =>
      destruct (find_arg c (g_id g)); [discriminate Hn | reflexivity] end. }
  destruct (rel_wf_group c g W Hin) as [Hf _].
  specialize (Hc (g_id g) g (conj Hna Hf)). rewrite <- present_spec, <- present_members_spec in Hc.
  destruct (check_explicit mt (g_id g) PIsPresent), (existsb _ (g_args g)); try reflexivity; exfalso;
    destruct Hc as [H1 H2]; (discriminate (H1 eq_refl) || discriminate (H2 eq_refl)).
Qed.

Lemma coherent_presentM c mt : coherent c mt -> forall x, present mt x <-> presentM c mt x.
Proof.
  intros Hc x. unfold presentM. destruct (find_arg c x) eqn:Ea; [tauto|].
  destruct (find_group c x) as [g|] eqn:Eg; [|tauto]. apply Hc. split; assumption.
Qed.

Lemma RelationsP_ext c mt P P' : (forall x, P x <-> P' x) -> RelationsP c mt P -> RelationsP c mt P'.
Proof.
  intros E R.
  assert (Hex : exclusive_present c P -> exclusive_present c P').
  { intros (e & b & Ha & Hx & Hp). exists e, b. split; [exact Ha|]. split; [exact Hx|]. now apply E. }
  assert (Hexc : forall x, excused c P x -> excused c P' x).
  { intros x [(y & Hp & H)|(g & y & Hm & Hp & H)].
    - left. exists y. split; [now apply E | exact H].
    - right. exists g, y. split; [exact Hm|]. split; [now apply E | exact H]. }
  assert (Hreq : forall x, Required c mt P' x -> Required c mt P x).
  { intros x H. destruct H as [a Hin Hr | g Hin Hr | g y Hin Hr Hy | x g y Hg Hp Hy | root m y Hg Hm HR].
    - now apply Rq_static.
    - now apply Rq_group.
    - now apply (Rq_group_requires c mt P g).
    - apply (Rq_present_group c mt P x g); auto. now apply E.
    - now apply (Rq_requires c mt P root m). }
  constructor.
  - intros i a x Ha Pi Px. apply (rel_conflicts c mt P R i a x Ha); now apply E.
  - intros i a j b Ha Hx Pi Hb Pj. apply (rel_exclusive c mt P R i a j b Ha Hx); auto; now apply E.
  - intros Hn x Hr. destruct (rel_required c mt P R Hn x (Hreq x Hr)) as [S1 S2]. split.
    + intros a Ha. destruct (S1 a Ha) as [H|[H|H]]; [left; now apply E | right; left; auto | right; right; auto].
    + intros g Hg. destruct (S2 g Hg) as [H|(m & Hin & H)]; [left; now apply E | right; exists m; split; [exact Hin | now apply E]].
  - intros Hn a Hin Hc. destruct (rel_cond_required c mt P R Hn a Hin) as [H|H].
    + destruct Hc as [H1|[H2|(Hne & Hany & Hall)]]; [left; exact H1 | right; left; exact H2 |].
      right. right. split; [exact Hne|]. split.
      * intros o Ho Hp. apply (Hany o Ho). now apply E.
      * destruct Hall as [Hnil|(o & Ho & Hn')]; [now left | right; exists o; split; [exact Ho|]]. intros Hp. apply Hn'. now apply E.
    + left. now apply E.
    + right. auto.
Qed.

Theorem validate_sound_members c mt :
  assert_app c = true -> fm_wf mt -> coherent_b c mt = true -> validate c mt = VOk -> RelationsM c mt.
Proof.
  intros A Wm Hc Hv. apply (RelationsP_ext c mt (present mt)).
  - apply coherent_presentM. now apply coherent_b_sound.
  - now apply validate_sound.
Qed.

(** ** the two input families on which the matcher is not coherent (findings) *)
From RecordUpdate Require Import RecordSet.
Import RecordSetNotations.

Definition wflag (i : id) (l : bytes) : arg := arg_new i <| a_long := Some l |> <| a_action := Some ASetTrue |>.
Definition i_a : id := [97]. Definition i_b : id := [98]. Definition i_c : id := [99].
Definition i_g : id := [103]. Definition i_x : id := [120].
Definition dd (l : bytes) : bytes := 45 :: 45 :: l.

(** F1: [a] overrides the *group* [g]; [b] is a member of [g]; [c] conflicts with [g].
    `--bb --aa --cc`: the occurrence of [a] removes the entry of [g] (not its member [b]),
    so the conflict of [c] with [g] is not seen. *)
Definition f1_cmd : cmd :=
  cmd_new [112]
    <| c_args := [wflag i_a [97;97] <| a_overrides := [i_g] |>; wflag i_b [98;98];
                  wflag i_c [99;99] <| a_blacklist := [i_g] |>] |>
    <| c_groups := [group_new i_g <| g_args := [i_b] |> <| g_multiple := true |>] |>.
Definition f1_toks : list bytes := [dd [98;98]; dd [97;97]; dd [99;99]].

(** F2: [a] is the only member of [g]; [c] overrides [a]; [x] is required unless [g] is present.
    `--aa --cc`: [a] is removed, the entry of [g] stays, [x] is not demanded
    (`--cc` alone is rejected with MissingRequiredArgument). *)
Definition f2_cmd : cmd :=
  cmd_new [112]
    <| c_args := [wflag i_a [97;97]; wflag i_c [99;99] <| a_overrides := [i_a] |>;
                  wflag i_x [120;120] <| a_r_unless := [i_g] |>] |>
    <| c_groups := [group_new i_g <| g_args := [i_a] |> <| g_multiple := true |>] |>.
Definition f2_toks : list bytes := [dd [97;97]; dd [99;99]].

Definition run_level (c0 : cmd) (toks : list bytes) : res ps :=
  let c := build_self c0 in get_matches_with (S (S (depth c))) c toks ps_new.

Lemma coherence_refuted_f1 :
  valid f1_cmd = true /\
  exists st, run_level f1_cmd f1_toks = ROk st
             /\ coherent_b (build_self f1_cmd) (mt st) = false
             /\ check_explicit (mt st) i_b PIsPresent = true      (* a member of g is present ... *)
             /\ check_explicit (mt st) i_c PIsPresent = true      (* ... together with c, which conflicts with g *)
             /\ check_explicit (mt st) i_g PIsPresent = false.
Proof. split; [vm_compute; reflexivity|]. eexists. split; [vm_compute; reflexivity|]. vm_compute. repeat split. Qed.

Lemma coherence_refuted_f2 :
  valid f2_cmd = true /\
  exists st, run_level f2_cmd f2_toks = ROk st
             /\ coherent_b (build_self f2_cmd) (mt st) = false
             /\ check_explicit (mt st) i_g PIsPresent = true      (* the group's entry is explicit ... *)
             /\ check_explicit (mt st) i_a PIsPresent = false     (* ... its only member is not ... *)
             /\ check_explicit (mt st) i_x PIsPresent = false     (* ... and x (required unless g) is absent *)
  /\ (exists e st', run_level f2_cmd [dd [99;99]] = RErr e st' /\ e_kind e = EMissingRequiredArgument).
Proof.
  split; [vm_compute; reflexivity|]. eexists. split; [vm_compute; reflexivity|].
  vm_compute. repeat split. do 2 eexists. split; reflexivity.
Qed.

(** the member-based specification itself fails on the two witnesses (so the coherence
    hypothesis of [validate_sound_members] cannot be dropped): stated for F1 *)
Lemma relationsM_refuted_f1 :
  exists st, run_level f1_cmd f1_toks = ROk st /\ ~ RelationsM (build_self f1_cmd) (mt st).
Proof.
  eexists. split; [vm_compute; reflexivity|]. intros R.
  assert (Hc : arg_of (build_self f1_cmd) i_c (wflag i_c [99;99] <| a_blacklist := [i_g] |>
               <| a_num := Some r_empty |> <| a_vp := Some VPBool |>
               <| a_default := [s_false] |> <| a_default_missing := [s_true] |>)).
  { vm_compute. reflexivity. }
  destruct (rel_conflicts _ _ _ R i_c _ i_g Hc) as [H _].
  - vm_compute. eexists. split; [reflexivity | discriminate].
  - vm_compute. exists i_b. split; [now left|]. eexists. split; [reflexivity | discriminate].
  - discriminate.
  - apply H. left. eexists. split; [exact Hc|]. left. now left.
Qed.

(** * Part 5: the whole parse (root level) and non-vacuity *)
Lemma valid_assert_app c0 : valid c0 = true -> assert_app (build_self c0) = true.
Proof. unfold valid. cbn [valid_tree]. intros H. now apply andb_true_iff in H as [H _]. Qed.

(** what [_do_parse] reports for the final parser state [st]: the matches with the values of
    global args copied across the levels *)
Definition reported (c0 : cmd) (st : ps) : matches :=
  let m := into_inner (mt st) in
  let globals := used_global_args (S (matches_depth m))
                   (build_recursive (S (S (depth (build_self c0)))) c0) m in
  fst (fill_in_global_values (S (matches_depth m)) globals m []).

Theorem do_parse_sound c0 toks m :
  do_parse c0 toks = OOk m -> is_set s_ignore_errors (build_self c0) = false ->
  exists st, run_level c0 toks = ROk st /\ m = reported c0 st
             /\ (fm_wf (mt st) -> Relations (build_self c0) (mt st)).
Proof.
  unfold do_parse, run_level, reported. destruct (valid c0) eqn:V; cbn [negb]; [|discriminate].
  intros H Hi. destruct (get_matches_with _ (build_self c0) toks ps_new) as [st|e st|n] eqn:E.
  - injection H as H. exists st. split; [reflexivity|]. split; [symmetry; exact H|].
    intros Wm. apply (gmw_sound (S (S (depth (build_self c0)))) _ toks ps_new st); auto. now apply valid_assert_app.
  - rewrite Hi in H. cbn in H. discriminate.
  - destruct n; discriminate.
Qed.

Definition fm_wf_b (mt : matcher) : bool := nodup_ids (map fst (mt_args mt)).
Lemma fm_wf_b_sound mt : fm_wf_b mt = true -> fm_wf mt.
Proof.
  unfold fm_wf_b, fm_wf. induction (map fst (mt_args mt)) as [|x t IH]; cbn [nodup_ids]; [constructor|].
  intros H. apply andb_true_iff in H as [H1 H2]. constructor; [|auto].
  apply negb_true_iff in H1. now apply mem_id_false.
Qed.

(** non-vacuity: a valid command with groups, overrides and a required-unless rule, an argv
    that parses, a well-formed and coherent matcher with a live rule *)
Example sound_nonvacuous :
  exists st, valid f2_cmd = true /\ run_level f2_cmd [dd [97;97]] = ROk st
             /\ fm_wf_b (mt st) = true /\ coherent_b (build_self f2_cmd) (mt st) = true
             /\ check_explicit (mt st) i_g PIsPresent = true.
Proof. eexists. split; [vm_compute; reflexivity|]. split; [vm_compute; reflexivity|]. vm_compute. repeat split. Qed.

(** * Part 6: totality of the two unrolling helpers (building blocks for "validate never
    returns VPanic", shared with C01) *)
Section Totality.
Variable c : cmd.

(** potential: pending work + the [requires] lists of the args not yet processed *)
Fixpoint wsum (processed : list id) (l : list arg) : nat :=
  match l with
  | [] => O
  | a :: t => (if mem_id (a_id a) processed then O else length (a_requires a)) + wsum processed t
  end.
Lemma mem_id_app x p q : mem_id x (p ++ q) = mem_id x p || mem_id x q.
Proof. unfold mem_id. apply existsb_app. Qed.
Lemma wsum_mono (p q : list id) l : (wsum (p ++ q) l <= wsum p l)%nat.
Proof.
  induction l as [|a t IH]; cbn [wsum]; [lia|]. rewrite mem_id_app.
  destruct (mem_id (a_id a) p); cbn [orb]; [lia|]. destruct (mem_id (a_id a) q); lia.
Qed.
Lemma wsum_take (x : id) (p : list id) : forall l arg,
  find (fun a => beq (a_id a) x) l = Some arg -> mem_id x p = false ->
  (wsum (p ++ [x]) l + length (a_requires arg) <= wsum p l)%nat.
Proof.
  induction l as [|h t IH]; intros arg; cbn [find wsum]; [discriminate|].
  destruct (beq (a_id h) x) eqn:E.
  - intros [= <-] Hm. apply beq_eq in E. rewrite mem_id_app, E, Hm. cbn [orb mem_id existsb].
    rewrite beq_refl. cbn [orb]. pose proof (wsum_mono p [x] t). lia.
  - intros Hf Hm. specialize (IH arg Hf Hm). rewrite mem_id_app. cbn [mem_id existsb].
    assert (beq (a_id h) x || false = false) as ->. { now rewrite E. }
    rewrite orb_false_r. lia.
Qed.
Lemma wsum_nil l : wsum [] l = length (flat_map a_requires l).
Proof. induction l as [|a t IH]; cbn [wsum flat_map mem_id existsb]; [reflexivity|]. rewrite app_length. lia. Qed.

Lemma filter_map_length {A B} (f : A -> option B) l : (length (filter_map f l) <= length l)%nat.
Proof. induction l as [|a t IH]; cbn; [lia|]. destruct (f a); cbn; lia. Qed.
Lemma ur_inner_length : forall l args pushed args' pushed',
  fold_left (ur_inner c) l (args, pushed) = (args', pushed') -> (length pushed' <= length pushed + length l)%nat.
Proof.
  induction l as [|r t IH]; intros args pushed args' pushed'; cbn [fold_left].
  - intros [= _ <-]. cbn. lia.
  - unfold ur_inner at 2. intros H. apply IH in H. cbn [length].
    destruct (find_arg c r) as [req|]; [destruct (negb _)|]; cbn [length] in H; lia.
Qed.

Lemma unroll_requires_loop_total func root : forall fuel r_vec processed args,
  (length r_vec + wsum processed (c_args c) < fuel)%nat ->
  exists out, unroll_requires_loop c func root fuel r_vec processed args = Some out.
Proof.
  induction fuel as [|fuel IH]; intros r_vec processed args Hlt; [lia|]. cbn [unroll_requires_loop].
  destruct r_vec as [|a rest]; [eauto|]. cbn [length] in Hlt.
  destruct (mem_id a processed) eqn:Em.
  - apply IH. lia.
  - destruct (find_arg c a) as [arg|] eqn:Ea.
    + fold (ur_inner c). destruct (fold_left (ur_inner c) _ _) as [args' pushed] eqn:Ef.
      apply ur_inner_length in Ef. cbn [length] in Ef.
      pose proof (filter_map_length (relevant_rule func (beq a root)) (a_requires arg)).
      pose proof (wsum_take a processed (c_args c) arg Ea Em).
      apply IH. rewrite app_length. lia.
    + apply IH. pose proof (wsum_mono processed [a] (c_args c)). lia.
Qed.

(** [unroll_arg_requires] never runs out of fuel (no hypothesis on the command at all) *)
Theorem unroll_arg_requires_total func a : exists out, unroll_arg_requires c func a = Some out.
Proof.
  unfold unroll_arg_requires. apply unroll_requires_loop_total. unfold requires_fuel.
  rewrite wsum_nil. cbn [length]. lia.
Qed.

(** [unroll_args_in_group] succeeds for every group of a command whose group members are args *)
Theorem unroll_args_in_group_total g : rel_wf c = true -> In g (c_groups c) ->
  exists members, unroll_args_in_group c (g_id g) = Some members.
Proof.
  intros W Hin. destruct (rel_wf_group c g W Hin) as [Hf Hm].
  unfold unroll_args_in_group. cbn [unroll_group_loop]. rewrite Hf. fold (ug_inner c).
  destruct (ug_inner_spec c (g_args g) [] []) as (args' & E & _).
  { intros n Hn. destruct (Hm n Hn) as (a & ->). reflexivity. }
  rewrite E. cbn [app]. eauto.
Qed.
End Totality.
