(** Property C05, round 3: what the tail can change, for EVERY shape of positionals.

    The delivery theorems (EscapeTop.v) are stated for two classes of levels ([sink_from], [chainc]).  The
    statements of this file hold for every level, whatever its positionals look like ([Append] positionals
    with [num_args(1)], value terminators, the low-index-multiple rule, overflow into an external
    subcommand): in trailing mode every iteration either closes the occurrence being collected or pushes the
    token to the pending occurrence of a POSITIONAL ([Escape.tstep]).  So

    - an occurrence of a non-positional argument that is open when the [--] arrives (an option still
      collecting values) is closed by the first token of the tail -- or by the end of the line -- in the
      state the [--] was met in, whatever the tail is ([tail_base]);
    - from then on only occurrences of positionals are opened and closed: an entry that no positional can
      touch ([pos_untouched]) is never written again ([trailing_any_base]).  No token of the tail reaches an argument
      that is not a positional.

    [level_prefix_any]/[gmw_prefix_any]/[parse_top_prefix_any]: the entries of flags and options do not
    depend on the tail; no token of the tail selects a subcommand; the level theorem holds for levels with
    hyphen-accepting arguments too and then names the documented exception precisely
    ([EscapeWalk.hyphen_exception]). *)
From ClapModel Require Import Base.Bytes Base.Machine Base.Utf8 Lex.OsStrExtModel.
From ClapModel Require Import Parse.Cmd Parse.Build Parse.Valid Parse.Matcher Parse.Errors Parse.Validator Parse.Parser.
From ClapModel Require Import ParseProofs.Safe ParseProofs.Invariant ParseProofs.Totality ParseProofs.TotalityMain
  ParseProofs.Sources ParseProofs.Spelling ParseProofs.Dispatch ParseProofs.Provenance
  ParseProofs.Escape ParseProofs.EscapeWalk ParseProofs.EscapeStore ParseProofs.EscapeSub ParseProofs.EscapeLevel
  ParseProofs.EscapeChain ParseProofs.EscapeDisplay ParseProofs.EscapeGlobals ParseProofs.EscapeTop.
From Coq Require Import ZArith Lia List Bool.
From RecordUpdate Require Import RecordSet.
Import RecordSetNotations.
Import ListNotations.
Open Scope N_scope.

Section AnyLoop.
Variable c : cmd.
Hypothesis Hl : lvl c.
Let W3 := proj1 Hl.
Let WP := proj1 (proj2 Hl).

(** [i] is the id of a positional *)
Definition is_pos_id (i : id) : bool :=
  match find_arg c i with Some a => is_some (a_index a) | None => false end.
(** no positional can touch the entry of [y] (see [Escape.touched]) *)
Definition pos_untouched (y : id) : Prop := forall a, In a (c_args c) -> a_index a <> None -> touched c a y = false.
(** the occurrence being collected, if any, belongs to a positional *)
Definition pos_ok (st : ps) : Prop := forall p, mt_pending (mt st) = Some p -> is_pos_id (p_id p) = true.
(** the state the tail starts from: an open occurrence of a non-positional argument is closed *)
Definition tail_base (st : ps) : res ps :=
  match mt_pending (mt st) with
  | Some p => if is_pos_id (p_id p) then ROk st else resolve_pending c st
  | None => ROk st
  end.

Lemma pos_id_arg a : In a (c_args c) -> a_index a <> None -> is_pos_id (a_id a) = true.
Proof. intros Hin Hidx. unfold is_pos_id. rewrite (W3 a Hin). destruct (a_index a); [reflexivity|contradiction]. Qed.

Lemma pos_ok_none st : mt_pending (mt st) = None -> pos_ok st.
Proof. intros H p Hp. rewrite H in Hp. discriminate. Qed.

Lemma resolve_pos_frame st r y : pos_ok st -> pos_untouched y -> resolve_pending c st = ROk r -> get_entry y r = get_entry y st.
Proof.
  intros Hok Hy E. destruct (mt_pending (mt st)) as [p|] eqn:Ep.
  - pose proof (Hok p Ep) as Hpos. unfold is_pos_id in Hpos.
    destruct (find_arg c (p_id p)) as [a|] eqn:Ef; [|discriminate].
    destruct (find_arg_some _ _ _ Ef) as [Hin _].
    assert (Hidx : a_index a <> None) by (destruct (a_index a); [discriminate|discriminate]).
    exact (resolve_pending_frame c st r p a y Ep Ef (Hy a Hin Hidx) E).
  - unfold resolve_pending in E. rewrite Ep in E. injection E as <-. reflexivity.
Qed.

Lemma flush_ok st a st1 : pos_ok st -> flush_for c a st = ROk st1 -> pos_ok st1.
Proof.
  intros Hok. unfold flush_for. destruct (_ || _).
  - intros E. apply pos_ok_none. eapply Spelling.resolve_pending_clears. exact E.
  - intros E. injection E as <-. exact Hok.
Qed.

Lemma flush_entries st a st1 y : pos_ok st -> pos_untouched y -> flush_for c a st = ROk st1 -> get_entry y st1 = get_entry y st.
Proof.
  intros Hok Hy. unfold flush_for. destruct (_ || _).
  - intros E. exact (resolve_pos_frame st st1 y Hok Hy E).
  - intros E. injection E as <-. reflexivity.
Qed.

Lemma pushed_pos st1 a tok m1 : In a (c_args c) -> a_index a <> None ->
  pending_values_push (mt st1) (a_id a) (Some IIndex) true (Some tok) = Some m1 ->
  pos_ok (st1 <| mt := m1 |>) /\ forall y, get_entry y (st1 <| mt := m1 |>) = get_entry y st1.
Proof.
  intros Hin Hidx Ep. destruct (push_spec _ _ _ _ _ Ep) as (p0 & Hpend & Hid & _ & _ & Hargs & _). split.
  - intros p Hp. change (mt (st1 <| mt := m1 |>)) with m1 in Hp. rewrite Hpend in Hp. injection Hp as <-.
    apply beq_eq in Hid. rewrite Hid. apply pos_id_arg; assumption.
  - intros y. unfold get_entry. change (mt (st1 <| mt := m1 |>)) with m1. rewrite Hargs. reflexivity.
Qed.

(** one trailing-mode iteration: afterwards the open occurrence (if any) is a positional's *)
Lemma tstep_ok tok rest ls st ls' st' : tstep c tok rest ls st ls' st' ->
  (pos_ok st -> pos_ok st') /\ (l_pst ls' = PSValuesDone \/ pos_ok st').
Proof.
  intros [pc' a st1 _ Hg Hf _|pc' a st1 m1 _ Hg Hf _ Hp].
  - split; [intros Hok; exact (flush_ok st a st1 Hok Hf)|left; reflexivity].
  - destruct (get_pos_in _ _ _ Hg) as [Hin Hidx].
    destruct (pushed_pos st1 a tok m1 Hin Hidx Hp) as [Hok2 _]. split; [intros _; exact Hok2|right; exact Hok2].
Qed.

(** ... and from a state whose open occurrence is a positional's, no entry outside [pos_untouched] changes *)
Lemma tstep_entries tok rest ls st ls' st' y : tstep c tok rest ls st ls' st' -> pos_ok st -> pos_untouched y ->
  get_entry y st' = get_entry y st.
Proof.
  intros [pc' a st1 _ Hg Hf _|pc' a st1 m1 _ Hg Hf _ Hp] Hok Hy.
  - exact (flush_entries st a st1 y Hok Hy Hf).
  - destruct (get_pos_in _ _ _ Hg) as [Hin Hidx].
    destruct (pushed_pos st1 a tok m1 Hin Hidx Hp) as [_ E2].
    rewrite E2. exact (flush_entries st a st1 y Hok Hy Hf).
Qed.

Lemma truns_pos suffix : forall pre ls st ls' st', truns c suffix pre ls st ls' st' -> pos_ok st ->
  pos_ok st' /\ forall y, pos_untouched y -> get_entry y st' = get_entry y st.
Proof.
  induction pre as [|x pre IH]; intros ls st ls' st' Hr Hok;
    inversion Hr as [|? ? ? ? ls1 st1 ? ? Hst Hrest]; subst; [split; [exact Hok|reflexivity]|].
  pose proof (proj1 (tstep_ok _ _ _ _ _ _ Hst) Hok) as Hok1.
  destruct (IH _ _ _ _ Hrest Hok1) as [Hok2 E2]. split; [exact Hok2|].
  intros y Hy. rewrite (E2 y Hy). exact (tstep_entries _ _ _ _ _ _ y Hst Hok Hy).
Qed.

(** the first iteration: whatever is open, the state after it is [tail_base st] as far as the entries outside
    [pos_untouched] are concerned, and what is open afterwards is a positional's *)
Lemma base_step tok rest ls st ls' st' : tstep c tok rest ls st ls' st' ->
  exists b, tail_base st = ROk b /\ pos_ok st' /\ forall y, pos_untouched y -> get_entry y st' = get_entry y b.
Proof.
  intros Hs. unfold tail_base. destruct (mt_pending (mt st)) as [p|] eqn:Ep.
  - destruct (is_pos_id (p_id p)) eqn:Epos.
    + assert (Hok : pos_ok st) by (intros p' Hp'; rewrite Ep in Hp'; injection Hp' as <-; exact Epos).
      exists st. split; [reflexivity|]. split; [exact (proj1 (tstep_ok _ _ _ _ _ _ Hs) Hok)|].
      intros y Hy. exact (tstep_entries _ _ _ _ _ _ y Hs Hok Hy).
    + (* an occurrence of a non-positional argument is open: the iteration closes it first *)
      assert (Hflush : forall a st1, In a (c_args c) -> a_index a <> None -> flush_for c a st = ROk st1 ->
                resolve_pending c st = ROk st1).
      { intros a st1 Hin Hidx. unfold flush_for, pending_arg_id. rewrite Ep. cbn [opt_map].
        destruct (beq (p_id p) (a_id a)) eqn:Eb.
        - apply beq_eq in Eb. rewrite Eb, (pos_id_arg a Hin Hidx) in Epos. discriminate.
        - cbn [negb orb]. intros E. exact E. }
      destruct Hs as [pc' a st1 _ Hg Hf _|pc' a st1 m1 _ Hg Hf _ Hp]; destruct (get_pos_in _ _ _ Hg) as [Hin Hidx];
        pose proof (Hflush a st1 Hin Hidx Hf) as Er; exists st1; (split; [exact Er|]);
        pose proof (Spelling.resolve_pending_clears c st st1 Er) as Hnone.
      * split; [apply pos_ok_none; exact Hnone|reflexivity].
      * destruct (pushed_pos st1 a tok m1 Hin Hidx Hp) as [Hok2 E2]. split; [exact Hok2|]. intros y _. apply E2.
  - assert (Hok : pos_ok st) by (apply pos_ok_none; exact Ep).
    exists st. split; [reflexivity|]. split; [exact (proj1 (tstep_ok _ _ _ _ _ _ Hs) Hok)|].
    intros y Hy. exact (tstep_entries _ _ _ _ _ _ y Hs Hok Hy).
Qed.

(** closing what is open in [st] itself (the tail is empty) *)
Lemma base_resolve st r : resolve_pending c st = ROk r ->
  exists b, tail_base st = ROk b /\ forall y, pos_untouched y -> get_entry y r = get_entry y b.
Proof.
  intros E. unfold tail_base. destruct (mt_pending (mt st)) as [p|] eqn:Ep.
  - destruct (is_pos_id (p_id p)) eqn:Epos.
    + assert (Hok : pos_ok st) by (intros p' Hp'; rewrite Ep in Hp'; injection Hp' as <-; exact Epos).
      exists st. split; [reflexivity|]. intros y Hy. exact (resolve_pos_frame st r y Hok Hy E).
    + exists r. split; [exact E|reflexivity].
  - exists st. split; [reflexivity|]. intros y _. unfold resolve_pending in E. rewrite Ep in E. injection E as <-. reflexivity.
Qed.

Lemma base_run suffix pre ls st ls' s r : truns c suffix pre ls st ls' s -> resolve_pending c s = ROk r ->
  exists b, tail_base st = ROk b /\ forall y, pos_untouched y -> get_entry y r = get_entry y b.
Proof.
  intros Hr E. inversion Hr as [|tok pre' ? ? ls1 st1 ? ? Hst Hrest]; subst.
  - exact (base_resolve _ _ E).
  - destruct (base_step _ _ _ _ _ _ Hst) as (b & Hb & Hok1 & E1).
    destruct (truns_pos _ _ _ _ _ _ Hrest Hok1) as [Hok2 E2].
    exists b. split; [exact Hb|]. intros y Hy.
    rewrite (resolve_pos_frame s r y Hok2 Hy E), (E2 y Hy). exact (E1 y Hy).
Qed.

(** the trailing-mode loop, then [resolve_pending]: every entry no positional can touch is the entry of
    [tail_base st] -- for every token list.  ([lr_state]: the loop ended with [LDone], or with [LExternal] when the
    positionals ran out and external subcommands are allowed.) *)
Theorem trailing_any_base l ls st lr r :
  l_trailing ls = true -> parse_loop c l ls st = ROk lr -> resolve_pending c (lr_state lr) = ROk r ->
  exists b, tail_base st = ROk b /\ forall y, pos_untouched y -> get_entry y r = get_entry y b.
Proof.
  intros Htr E Er.
  destruct (trailing_outcome c l ls st Htr) as [ls' st2 Hr Eq|pre tok rest ls1 st1 Eq Hr Hstop].
  - rewrite E in Eq. injection Eq as ->. cbn [lr_state] in Er. exact (base_run _ _ _ _ _ _ _ Hr Er).
  - rewrite E in Hstop. inversion Hstop; subst. cbn [lr_state] in Er. exact (base_run _ _ _ _ _ _ _ Hr Er).
Qed.

Lemma tstep_sub tok rest ls st ls' st' : tstep c tok rest ls st ls' st' -> mt_sub (mt st') = mt_sub (mt st).
Proof.
  intros [pc' a st1 _ _ Hf _|pc' a st1 m1 _ _ Hf _ Hp].
  - exact (flush_sub c _ _ _ Hf).
  - change (mt (st1 <| mt := m1 |>)) with m1. rewrite (push_sub _ _ _ _ _ _ Hp). exact (flush_sub c _ _ _ Hf).
Qed.

Lemma truns_sub suffix : forall pre ls st ls' st', truns c suffix pre ls st ls' st' -> mt_sub (mt st') = mt_sub (mt st).
Proof.
  induction pre as [|x pre IH]; intros ls st ls' st' Hr;
    inversion Hr as [|? ? ? ? ls1 st1 ? ? Hst Hrest]; subst; [reflexivity|].
  rewrite (IH _ _ _ _ Hrest). exact (tstep_sub _ _ _ _ _ _ Hst).
Qed.

Theorem trailing_any_sub l ls st lr :
  l_trailing ls = true -> parse_loop c l ls st = ROk lr -> mt_sub (mt (lr_state lr)) = mt_sub (mt st).
Proof.
  intros Htr E.
  destruct (trailing_outcome c l ls st Htr) as [ls' st2 Hr Eq|pre tok rest ls1 st1 Eq Hr Hstop].
  - rewrite E in Eq. injection Eq as ->. cbn [lr_state]. exact (truns_sub _ _ _ _ _ _ Hr).
  - rewrite E in Hstop. inversion Hstop; subst. cbn [lr_state]. exact (truns_sub _ _ _ _ _ _ Hr).
Qed.

End AnyLoop.

(** * One level of [get_matches_with] *)
Section AnyLevel.
Variable c : cmd.
Hypothesis Hl : lvl c.
Hypothesis Hdd : forall vaf, possible_subcommand c dashdash vaf = None.
Let W3 := proj1 Hl.
Let WP := proj1 (proj2 Hl).

(** what the tail could not change at the level that consumed the [--]: every command-line entry that no
    positional can touch; and, when external subcommands are off, the recorded subcommand *)
Definition same_any (st0 s1 s2 : ps) : Prop :=
  (forall y e, pos_untouched c y -> find_group c y = None ->
               get_entry y s1 = Some e -> m_source e = Some SCmdLine -> get_entry y s2 = Some e)
  /\ (is_set s_allow_external c = false -> mt_sub (mt s1) = mt_sub (mt st0) /\ mt_sub (mt s2) = mt_sub (mt st0)).

(** what [parsed_of] makes of a trailing-mode loop result *)
Lemma trailing_parsed f l ls st lr p r :
  l_trailing ls = true -> parse_loop c l ls st = ROk lr ->
  match lr with
  | LDone s => ROk s
  | LSub name keep vaf s rest => after_sub f c name keep vaf s rest
  | LHelpSub names s => RErr (help_walk c names) s
  | LExternal name vals s => external_matches c name vals s
  end = ROk p ->
  resolve_pending c p = ROk r ->
  exists r', resolve_pending c (lr_state lr) = ROk r' /\ (forall y, get_entry y r = get_entry y r')
             /\ (is_set s_allow_external c = false -> mt_sub (mt r) = mt_sub (mt st)).
Proof.
  intros Htr E Hp Er.
  pose proof (trailing_any_sub c l ls st lr Htr E) as Hsub.
  destruct (trailing_no_dispatch c l ls st lr Htr E) as [[s ->]|(pre & tok & rest & s & _ & -> & Hx)].
  - injection Hp as <-. cbn [lr_state] in *. exists r. split; [exact Er|]. split; [reflexivity|]. intros _.
    pose proof (resolve_pending_sub c (mt_sub (mt s)) s eq_refl) as Hk. rewrite Er in Hk. cbn in Hk.
    unfold Dispatch.S_ in Hk. congruence.
  - cbn [lr_state] in *.
    pose proof (external_verbatim c tok rest s) as Hv. rewrite Hp in Hv. cbn [holds] in Hv. subst p.
    change (s <| mt := (mt s) <| mt_sub := ?x |> |>) with (ssub x s) in Er.
    rewrite resolve_pending_ssub in Er. destruct (rmap_ok_inv _ _ _ _ Er) as (r0 & Er0 & ->).
    exists r0. split; [exact Er0|]. split; [reflexivity|]. intros Hne. rewrite Hne in Hx. discriminate.
Qed.

(** (4) for every shape of positionals, and for levels with hyphen-accepting arguments: two successful parses
    of the same prefix with tails [t1], [t2] (either may be empty) agree on every command-line entry that no
    positional can touch; no token of the tail selected a subcommand; or [pre] dispatched; or -- the
    documented exception -- an argument accepting hyphen values was still being collected at the [--] *)
Theorem level_prefix_any f pre t1 t2 st0 s1 s2 :
  mt_pending (mt st0) = None ->
  get_matches_with (S f) c (pre ++ dashdash :: t1) st0 = ROk s1 ->
  get_matches_with (S f) c (pre ++ dashdash :: t2) st0 = ROk s2 ->
  same_any st0 s1 s2
  \/ (exists n k v st1 r,
        parse_loop c (pre ++ dashdash :: t1) ls0 st0 = ROk (LSub n k v st1 (r ++ dashdash :: t1)) /\
        parse_loop c (pre ++ dashdash :: t2) ls0 st0 = ROk (LSub n k v st1 (r ++ dashdash :: t2)))
  \/ (exists tk r st1,
        parse_loop c (pre ++ dashdash :: t1) ls0 st0 = ROk (LExternal tk (r ++ dashdash :: t1) st1) /\
        parse_loop c (pre ++ dashdash :: t2) ls0 st0 = ROk (LExternal tk (r ++ dashdash :: t2) st1))
  \/ hyphen_exception c t1 t2 ls0 st0
       (parse_loop c (pre ++ dashdash :: t1) ls0 st0) (parse_loop c (pre ++ dashdash :: t2) ls0 st0).
Proof.
  intros Hp0 H1 H2. rewrite gmw_unfold in H1, H2.
  destruct (post_ok_inv _ _ _ H1) as (p1 & r1 & e1 & Hparsed1 & Hr1 & He1 & Hd1).
  destruct (post_ok_inv _ _ _ H2) as (p2 & r2 & e2 & Hparsed2 & Hr2 & He2 & Hd2).
  destruct (TV0 c st0 Hp0) as [HTV HLTV].
  destruct (escape_line_sim_h c W3 WP Hdd pre t1 t2 ls0 st0 HTV HLTV) as [Hs|Hex]; [|right; right; right; exact Hex].
  unfold parsed_of in Hparsed1, Hparsed2. fold ls0 in Hparsed1, Hparsed2.
  remember (parse_loop c (pre ++ dashdash :: t1) ls0 st0) as R1 eqn:ER1.
  remember (parse_loop c (pre ++ dashdash :: t2) ls0 st0) as R2 eqn:ER2.
  destruct Hs as [x ls' st1 Htr HT Hpos Hsub|e0 s0|x|n k v s0 r|r s0|tk r s0];
    cbn [rbind] in Hparsed1, Hparsed2; try discriminate Hparsed1.
  - left.
    destruct (parse_loop c (x ++ t1) ls' st1) as [lr1|? ?|?] eqn:EL1; cbn [rbind] in Hparsed1; try discriminate Hparsed1.
    destruct (parse_loop c (x ++ t2) ls' st1) as [lr2|? ?|?] eqn:EL2; cbn [rbind] in Hparsed2; try discriminate Hparsed2.
    pose proof (Spelling.resolve_pending_clears c _ _ Hr1) as N1.
    pose proof (Spelling.resolve_pending_clears c _ _ Hr2) as N2.
    destruct (add_env_frame c r1 e1 N1 He1) as (Q1 & Q2 & _). destruct (add_defaults_frame c e1 s1 Q1 Hd1) as (_ & Q3 & _).
    destruct (add_env_frame c r2 e2 N2 He2) as (Q4 & Q5 & _). destruct (add_defaults_frame c e2 s2 Q4 Hd2) as (_ & Q6 & _).
    destruct (trailing_parsed f _ _ _ _ _ _ Htr EL1 Hparsed1 Hr1) as (r1' & Er1 & Eq1 & Sub1).
    destruct (trailing_parsed f _ _ _ _ _ _ Htr EL2 Hparsed2 Hr2) as (r2' & Er2 & Eq2 & Sub2).
    destruct (trailing_any_base c Hl _ _ _ _ _ Htr EL1 Er1) as (b1 & Hb1 & B1).
    destruct (trailing_any_base c Hl _ _ _ _ _ Htr EL2 Er2) as (b2 & Hb2 & B2).
    rewrite Hb1 in Hb2. injection Hb2 as <-.
    split.
    + intros y e Hy Hg Hy1 Hsrc.
      pose proof (phases_cmdline c _ _ _ _ _ N1 He1 Hd1 Hg Hy1 Hsrc) as Hq.
      rewrite Eq1, (B1 y Hy), <- (B2 y Hy), <- Eq2 in Hq.
      exact (phases_keep c _ _ _ _ _ N2 He2 Hd2 Hg Hq).
    + intros Hne. split; [rewrite Q3, Q2, (Sub1 Hne); exact Hsub|rewrite Q6, Q5, (Sub2 Hne); exact Hsub].
  - right. left. exists n, k, v, s0, r. split; reflexivity.
  - right. right. left. exists tk, r, s0. split; reflexivity.
Qed.

(** on a level without hyphen-accepting arguments the exception cannot occur *)
Lemma no_hyphen_exception t1 t2 ls st R1 R2 :
  (forall a, In a (c_args c) -> a_hyphen a = false) -> hyphen_exception c t1 t2 ls st R1 R2 -> False.
Proof.
  intros Hnh (ls' & st' & a & _ & _ & _ & _ & Hsa & Hh & _).
  assert (Hin : In a (c_args c)).
  { destruct (l_pst ls') as [|i|i]; cbn [state_arg] in Hsa; try discriminate;
      (destruct (find_arg c i) as [a'|] eqn:Ef; cbn [expect rbind] in Hsa; [|discriminate];
       injection Hsa as <-; exact (proj1 (find_arg_some _ _ _ Ef))). }
  rewrite (Hnh a Hin) in Hh. discriminate.
Qed.
End AnyLevel.

(** * The whole tree, global arguments included *)

(** every level the parser can descend into: built, passes the validity gate, no [ignore_errors], [--] is no
    subcommand name.  Unlike [EscapeTop.esc_ok], hyphen-accepting arguments and Help/Version arguments with
    env/defaults are allowed. *)
Fixpoint esc_okh (fuel : nat) (c : cmd) : Prop :=
  match fuel with
  | O => False
  | S f => Totality.wfc c /\ assert_app c = true
           /\ is_set s_ignore_errors c = false
           /\ (forall vaf, possible_subcommand c dashdash vaf = None)
           /\ forall name sc, build_subcommand c name = Some sc -> esc_okh f sc
  end.

Fixpoint esc_okhb (fuel : nat) (c : cmd) : bool :=
  match fuel with
  | O => false
  | S f =>
      negb (is_set s_ignore_errors c)
      && negb (is_some (possible_subcommand c dashdash false)) && negb (is_some (possible_subcommand c dashdash true))
      && forallb (fun s => match build_subcommand c (c_name s) with Some sc => esc_okhb f sc | None => false end) (c_subs c)
  end.

Lemma esc_okh_of : forall f c, tree_ok f c -> esc_okhb f c = true -> esc_okh f c.
Proof.
  induction f as [|f IH]; intros c Hok Hb; [destruct Hok|].
  destruct Hok as (Hwf & Happ & Hch). cbn [esc_okhb] in Hb.
  apply andb_true_iff in Hb as [Hb H5]. apply andb_true_iff in Hb as [Hb H4]. apply andb_true_iff in Hb as [H1 H3].
  cbn [esc_okh]. split; [exact Hwf|]. split; [exact Happ|]. split; [apply negb_true_iff; exact H1|]. split.
  - intros [|].
    + destruct (possible_subcommand c dashdash true); [discriminate|reflexivity].
    + destruct (possible_subcommand c dashdash false); [discriminate|reflexivity].
  - intros name sc Hbs. apply IH; [exact (Hch name sc Hbs)|].
    pose proof Hbs as Hbs'. unfold build_subcommand in Hbs'.
    destruct (List.find (fun s => beq (c_name s) name) (c_subs c)) as [s0|] eqn:Ef; [|discriminate].
    apply List.find_some in Ef. destruct Ef as [Hin Hn]. apply beq_eq in Hn.
    rewrite forallb_forall in H5. specialize (H5 s0 Hin). rewrite Hn, Hbs in H5. exact H5.
Qed.

Lemma esc_okb_okhb : forall f c, esc_okb f c = true -> esc_okhb f c = true.
Proof.
  induction f as [|f IH]; intros c Hb; [discriminate|]. cbn [esc_okb] in Hb. cbn [esc_okhb].
  apply andb_true_iff in Hb as [Hb H5]. apply andb_true_iff in Hb as [Hb H6]. apply andb_true_iff in Hb as [Hb H4].
  apply andb_true_iff in Hb as [Hb H3]. apply andb_true_iff in Hb as [H1 H2].
  rewrite H1, H3, H4. cbn [andb]. apply forallb_forall. intros s Hs. rewrite forallb_forall in H5. specialize (H5 s Hs).
  destruct (build_subcommand c (c_name s)) as [sc|]; [apply IH; exact H5|exact H5].
Qed.

(** where the two parses agree.  [gl]: ids whose entries are not compared (the global arguments of the tree,
    whose entries [fill_in_global_values] rewrites at every level after the parse).  At the level that
    consumed the [--]: every command-line entry no positional can touch; no subcommand recorded when external
    subcommands are off.  Above it: the same subcommand, all entries.  Fourth case: the level declares an
    argument accepting hyphen values (it was being collected at the [--]: [level_prefix_any]). *)
Fixpoint prefix_any (gl : list id) (fuel : nat) (c : cmd) (m1 m2 : matches) : Prop :=
  match fuel with
  | O => False
  | S f =>
      ((forall y e, mem_id y gl = false -> pos_untouched c y -> find_group c y = None ->
                    fm_get y (ms_args m1) = Some e -> m_source e = Some SCmdLine -> fm_get y (ms_args m2) = Some e)
       /\ (is_set s_allow_external c = false -> ms_sub m1 = None /\ ms_sub m2 = None))
      \/ (exists name sc sm1 sm2, build_subcommand c name = Some sc /\ ms_sub m1 = Some (c_name sc, sm1)
                                  /\ ms_sub m2 = Some (c_name sc, sm2)
                                  /\ (forall y, mem_id y gl = false -> fm_get y (ms_args m1) = fm_get y (ms_args m2))
                                  /\ prefix_any gl f sc sm1 sm2)
      \/ (exists name sm1 sm2,
            ms_sub m1 = Some (name, sm1) /\ ms_sub m2 = Some (name, sm2) /\
            (forall y, mem_id y gl = false -> fm_get y (ms_args m1) = fm_get y (ms_args m2)))
      \/ (exists a, In a (c_args c) /\ a_hyphen a = true)
  end.

Lemma hyphen_exception_arg c t1 t2 ls st R1 R2 :
  hyphen_exception c t1 t2 ls st R1 R2 -> exists a, In a (c_args c) /\ a_hyphen a = true.
Proof.
  intros (ls' & st' & a & _ & _ & _ & _ & Hsa & Hh & _). exists a. split; [|exact Hh].
  destruct (l_pst ls') as [|i|i]; cbn [state_arg] in Hsa; try discriminate;
    (destruct (find_arg c i) as [a'|] eqn:Ef; cbn [expect rbind] in Hsa; [|discriminate];
     injection Hsa as <-; exact (proj1 (find_arg_some _ _ _ Ef))).
Qed.

Theorem gmw_prefix_any : forall fuel c pre t1 t2 st0 s1 s2,
  esc_okh fuel c -> mt_pending (mt st0) = None -> mt_sub (mt st0) = None ->
  get_matches_with fuel c (pre ++ dashdash :: t1) st0 = ROk s1 ->
  get_matches_with fuel c (pre ++ dashdash :: t2) st0 = ROk s2 ->
  prefix_any [] fuel c (into_inner (mt s1)) (into_inner (mt s2)).
Proof.
  induction fuel as [|f IH]; intros c pre t1 t2 st0 s1 s2 Hok Hp0 Hs0 H1 H2; [destruct Hok|].
  destruct Hok as (Hwf & Happ & Hig & Hdd & Hch).
  pose proof (lvl_of_wfc c Hwf Happ) as Hl.
  destruct (level_prefix_any c Hl Hdd f pre t1 t2 st0 s1 s2 Hp0 H1 H2) as [Hc|[Hc|[Hc|Hc]]].
  - cbn [prefix_any]. left. destruct Hc as [Hc1 Hc2]. split.
    + intros y e _ Hy Hg Hy1 Hsrc. exact (Hc1 y e Hy Hg Hy1 Hsrc).
    + intros Hne. destruct (Hc2 Hne) as [G1 G2]. cbn [into_inner ms_sub]. rewrite G1, G2, Hs0. split; reflexivity.
  - destruct Hc as (n & k & v & st1 & r & EL1 & EL2). rewrite gmw_unfold in H1, H2.
    destruct (post_ok_inv c _ _ H1) as (p1 & q1 & e1 & Hparsed1 & A1 & A2 & A3).
    destruct (post_ok_inv c _ _ H2) as (p2 & q2 & e2 & Hparsed2 & B1 & B2 & B3).
    pose proof (post_keeps_sub c (mt_sub (mt p1)) (ROk p1) eq_refl) as Hk1.
    pose proof (post_keeps_sub c (mt_sub (mt p2)) (ROk p2) eq_refl) as Hk2.
    rewrite Hparsed1 in H1. rewrite H1 in Hk1. rewrite Hparsed2 in H2. rewrite H2 in Hk2.
    cbn in Hk1, Hk2. unfold Dispatch.S_ in Hk1, Hk2.
    unfold parsed_of in Hparsed1, Hparsed2. change (mkL PSValuesDone 1 false false) with ls0 in Hparsed1, Hparsed2.
    rewrite EL1 in Hparsed1. rewrite EL2 in Hparsed2. cbn [rbind] in Hparsed1, Hparsed2.
    destruct (after_sub_ok _ _ _ _ _ _ _ _ Hig Hparsed1) as (sc0 & sc & sub1 & Ef & Eb & Eg1 & ->).
    destruct (after_sub_ok _ _ _ _ _ _ _ _ Hig Hparsed2) as (sc0' & sc' & sub2 & Ef' & Eb' & Eg2 & ->).
    rewrite Ef in Ef'. injection Ef' as <-. rewrite Eb in Eb'. injection Eb' as <-.
    rewrite record_sub_ssub in A1, B1.
    destruct (phases_ssub c _ _ _ _ _ _ _ _ _ A1 A2 A3 B1 B2 B3) as (d0 & -> & ->).
    cbn [prefix_any]. right. left. exists (c_name sc0), sc, (into_inner (mt sub1)), (into_inner (mt sub2)).
    split; [exact Eb|]. split; [cbn [into_inner ms_sub]; rewrite Hk1; reflexivity|].
    split; [cbn [into_inner ms_sub]; rewrite Hk2; reflexivity|]. split; [intros y _; reflexivity|].
    apply (IH sc r t1 t2 (sub_init k st1) sub1 sub2 (Hch _ _ Eb)); [| |exact Eg1|exact Eg2]; unfold sub_init; destruct k; reflexivity.
  - destruct Hc as (tk & r & st1 & EL1 & EL2). rewrite gmw_unfold in H1, H2.
    destruct (post_ok_inv c _ _ H1) as (p1 & q1 & e1 & Hparsed1 & A1 & A2 & A3).
    destruct (post_ok_inv c _ _ H2) as (p2 & q2 & e2 & Hparsed2 & B1 & B2 & B3).
    pose proof (post_keeps_sub c (mt_sub (mt p1)) (ROk p1) eq_refl) as Hk1.
    pose proof (post_keeps_sub c (mt_sub (mt p2)) (ROk p2) eq_refl) as Hk2.
    rewrite Hparsed1 in H1. rewrite H1 in Hk1. rewrite Hparsed2 in H2. rewrite H2 in Hk2.
    cbn in Hk1, Hk2. unfold Dispatch.S_ in Hk1, Hk2.
    unfold parsed_of in Hparsed1, Hparsed2. change (mkL PSValuesDone 1 false false) with ls0 in Hparsed1, Hparsed2.
    rewrite EL1 in Hparsed1. rewrite EL2 in Hparsed2. cbn [rbind] in Hparsed1, Hparsed2.
    pose proof (external_verbatim c tk (r ++ dashdash :: t1) st1) as Hx1. rewrite Hparsed1 in Hx1. cbn [holds] in Hx1.
    pose proof (external_verbatim c tk (r ++ dashdash :: t2) st1) as Hx2. rewrite Hparsed2 in Hx2. cbn [holds] in Hx2.
    assert (Hargs : mt_args (mt s1) = mt_args (mt s2)).
    { subst p1 p2.
      destruct (phases_ssub c (Some (tk, Matches [(ext_id, ext_marg (r ++ dashdash :: t1))] None))
                  (Some (tk, Matches [(ext_id, ext_marg (r ++ dashdash :: t2))] None)) st1 _ _ _ _ _ _ A1 A2 A3 B1 B2 B3)
        as (d0 & -> & ->). reflexivity. }
    cbn [prefix_any]. right. right. left.
    exists tk, (Matches [(ext_id, ext_marg (r ++ dashdash :: t1))] None), (Matches [(ext_id, ext_marg (r ++ dashdash :: t2))] None).
    cbn [into_inner ms_sub ms_args]. rewrite Hk1, Hk2, Hx1, Hx2.
    split; [reflexivity|]. split; [reflexivity|]. intros y _. rewrite Hargs. reflexivity.
  - cbn [prefix_any]. right. right. right. exact (hyphen_exception_arg _ _ _ _ _ _ _ Hc).
Qed.

(** [fill_in_global_values] keeps the agreement on every id that is not a global argument's *)
Lemma prefix_any_sng gl : forall f c m1 m2 m1' m2',
  prefix_any [] f c m1 m2 -> sng gl m1 m1' -> sng gl m2 m2' -> prefix_any gl f c m1' m2'.
Proof.
  induction f as [|f IH]; intros c m1 m2 m1' m2' H S1 S2; [destruct H|].
  destruct m1 as [a1 s1], m2 as [a2 s2], m1' as [a1' s1'], m2' as [a2' s2'].
  destruct S1 as [E1 T1]. destruct S2 as [E2 T2]. cbn [prefix_any ms_sub ms_args] in *.
  destruct H as [[H1 H2]|[(name & sc & sm1 & sm2 & Eb & -> & -> & Ha & Hr)|[(name & sm1 & sm2 & -> & -> & Ha)|Hh]]].
  - left. split.
    + intros y e Hy Hpt Hg Hy1 Hsrc. rewrite (E1 y Hy) in Hy1. rewrite (E2 y Hy).
      exact (H1 y e eq_refl Hpt Hg Hy1 Hsrc).
    + intros Hne. destruct (H2 Hne) as [-> ->].
      destruct s1' as [[? ?]|]; [contradiction|]. destruct s2' as [[? ?]|]; [contradiction|]. split; reflexivity.
  - right. left. destruct s1' as [[n1 sm1']|]; [|contradiction]. destruct s2' as [[n2 sm2']|]; [|contradiction].
    destruct T1 as [<- T1]. destruct T2 as [<- T2]. exists name, sc, sm1', sm2'.
    split; [exact Eb|]. split; [reflexivity|]. split; [reflexivity|]. split.
    + intros y Hy. rewrite (E1 y Hy), (E2 y Hy). apply Ha. reflexivity.
    + exact (IH sc sm1 sm2 sm1' sm2' Hr T1 T2).
  - right. right. left. destruct s1' as [[n1 sm1']|]; [|contradiction]. destruct s2' as [[n2 sm2']|]; [|contradiction].
    destruct T1 as [<- T1]. destruct T2 as [<- T2]. exists name, sm1', sm2'.
    split; [reflexivity|]. split; [reflexivity|]. intros y Hy. rewrite (E1 y Hy), (E2 y Hy). apply Ha. reflexivity.
  - right. right. right. exact Hh.
Qed.

(** the boolean class: [plain] and [valid] (as for C01), no [ignore_errors] and no subcommand named [--] at
    any level.  Hyphen-accepting arguments, global arguments, every shape of positionals are allowed. *)
Definition esc_class_h (c0 : cmd) : bool := plain c0 && valid c0 && esc_okhb (top_fuel c0) (build_self c0).

Lemma esc_class_h_ok c0 : esc_class_h c0 = true ->
  valid c0 = true /\ esc_okh (top_fuel c0) (build_self c0) /\ is_set s_ignore_errors (build_self c0) = false.
Proof.
  unfold esc_class_h. intros H. apply andb_true_iff in H as [H H3]. apply andb_true_iff in H as [H1 H2].
  split; [exact H2|].
  pose proof H2 as Hv. unfold valid in Hv. cbn zeta in Hv.
  pose proof (tree_ok_of_valid _ _ H1 Hv) as Hok.
  pose proof (esc_okh_of _ _ Hok H3) as He. split; [exact He|].
  unfold top_fuel in He. cbn [esc_okh] in He. exact (proj1 (proj2 (proj2 He))).
Qed.

Lemma esc_class0_h c0 : esc_class0 c0 = true -> esc_class_h c0 = true.
Proof.
  unfold esc_class0, esc_class_h. intros H. apply andb_true_iff in H as [H H3]. rewrite H. cbn [andb].
  apply esc_okb_okhb. exact H3.
Qed.

Lemma do_parse_ok_inv_h c0 toks m : esc_class_h c0 = true -> do_parse c0 toks = OOk m ->
  exists st, get_matches_with (top_fuel c0) (build_self c0) toks ps_new = ROk st
             /\ sng (tree_globals c0) (into_inner (mt st)) m.
Proof.
  intros Hc. destruct (esc_class_h_ok c0 Hc) as (Hv & Hok & Hig).
  unfold do_parse. rewrite Hv. cbn [negb]. fold (top_fuel c0).
  destruct (get_matches_with (top_fuel c0) (build_self c0) toks ps_new) as [st|e st|x] eqn:Eg.
  - intros H. injection H as <-. exists st. split; [reflexivity|].
    set (m0 := into_inner (mt st)) in *.
    set (gs := used_global_args (S (matches_depth m0)) (build_recursive (top_fuel c0) c0) m0).
    assert (Hgs : forall g, In g gs -> mem_id g (tree_globals c0) = true).
    { intros g Hg. apply in_mem_id. exact (used_in_all _ _ _ _ Hg). }
    destruct (fill_spec (tree_globals c0) gs Hgs (S (matches_depth m0)) m0 []) as [_ Hs]; [intros p []|]. exact Hs.
  - rewrite Hig. discriminate.
  - destruct x; discriminate.
Qed.

(** (4)/(5) for the entry points: every shape of positionals, global arguments present, hyphen-accepting
    arguments declared -- two successful parses of the same prefix with tails [t1], [t2] (either may be empty) *)
Theorem do_parse_prefix_any c0 pre t1 t2 m1 m2 :
  esc_class_h c0 = true ->
  do_parse c0 (pre ++ dashdash :: t1) = OOk m1 -> do_parse c0 (pre ++ dashdash :: t2) = OOk m2 ->
  prefix_any (tree_globals c0) (top_fuel c0) (build_self c0) m1 m2.
Proof.
  intros Hc H1 H2. destruct (esc_class_h_ok c0 Hc) as (Hv & Hok & Hig).
  destruct (do_parse_ok_inv_h _ _ _ Hc H1) as (s1 & E1 & S1). destruct (do_parse_ok_inv_h _ _ _ Hc H2) as (s2 & E2 & S2).
  exact (prefix_any_sng _ _ _ _ _ _ _ (gmw_prefix_any _ _ pre t1 t2 ps_new s1 s2 Hok eq_refl eq_refl E1 E2) S1 S2).
Qed.

Theorem parse_top_prefix_any c0 bin pre t1 t2 m1 m2 :
  esc_class_h c0 = true -> is_set s_no_binary_name c0 = false -> c_bin_name c0 <> None ->
  parse_top c0 (bin :: pre ++ dashdash :: t1) = OOk m1 -> parse_top c0 (bin :: pre ++ dashdash :: t2) = OOk m2 ->
  prefix_any (tree_globals c0) (top_fuel c0) (build_self c0) m1 m2.
Proof.
  intros Hc Hnb Hb. unfold parse_top. rewrite Hnb. destruct (c_bin_name c0); [|contradiction].
  apply do_parse_prefix_any; assumption.
Qed.

(** * Non-vacuity *)

Lemma pos_untouched_of_forallb c y :
  forallb (fun a => if is_some (a_index a) then negb (touched c a y) else true) (c_args c) = true -> pos_untouched c y.
Proof.
  intros H a Hin Hidx. rewrite forallb_forall in H. specialize (H a Hin).
  destruct (a_index a); [|contradiction]. cbn in H. apply negb_true_iff. exact H.
Qed.

(** [prog [--g (global)] [--opt <v> [<v>]] [p]... [sub [q]...]] with [subcommand_precedence_over_arg]: the
    positional is an [Append] positional with [num_args(1)] -- one occurrence per token -- and so in neither
    class of the delivery theorems; [--opt] takes up to two values and is still open when the [--] arrives *)
Definition k_pos : arg := (arg_new [112]) <| a_action := Some AAppend |> <| a_num := Some r_single |>.
Definition k_opt : arg := (arg_new [111]) <| a_long := Some [111; 112; 116] |> <| a_action := Some ASet |>
   <| a_num := Some {| vmin := 1; vmax := 2 |} |>.
Definition k_c0 : cmd :=
  (cmd_new [112]) <| c_args := [g_flag; k_opt; k_pos] |> <| c_subs := [x_sub] |> <| c_bin_name := Some [112] |>
    <| c_set := settings_none <| s_sub_precedence := true |> |>.
Definition w_help : bytes := [104; 101; 108; 112].
Definition w_optw : bytes := [45; 45; 111; 112; 116; 61; 119].

Example ex_any_class :
  esc_class_h k_c0 = true /\ esc_class k_c0 = false /\ chainc (build_self k_c0) = false /\
  sink_arg (build_self k_c0) 1 = None /\ is_set s_sub_precedence (build_self k_c0) = true /\
  is_set s_allow_external (build_self k_c0) = false.
Proof. repeat split; vm_compute; reflexivity. Qed.

(** [prog --g --opt v -- sub help -x --opt=w]: the open option is closed with its one value; each token of the
    tail is one occurrence of the positional; [sub] and [help] select nothing *)
Example ex_any_run :
  match parse_top k_c0 ([112] :: [w_g; w_opt; w_v] ++ dashdash :: [t_sub; w_help; w_x; w_optw]) with
  | OOk (Matches args None) =>
      opt_map m_raw (fm_get [111] args) = Some [[w_v]] /\ opt_map m_raw (fm_get [103] args) = Some [[s_true]] /\
      opt_map m_raw (fm_get [112] args) = Some [[t_sub]; [w_help]; [w_x]; [w_optw]]
  | _ => False
  end.
Proof. vm_compute. repeat split; reflexivity. Qed.

(** the same prefix without a tail (second hypothesis of [parse_top_prefix_any]) *)
Example ex_any_empty :
  match parse_top k_c0 ([112] :: [w_g; w_opt; w_v] ++ dashdash :: []) with
  | OOk (Matches args None) => opt_map m_raw (fm_get [111] args) = Some [[w_v]] /\ fm_get [112] args = None
  | _ => False
  end.
Proof. vm_compute. split; reflexivity. Qed.

(** without the [--] the same tokens select the subcommand (the option is open: only
    [subcommand_precedence_over_arg] makes [sub] a subcommand here) *)
Example ex_any_no_escape :
  match parse_top k_c0 ([112] :: [w_g; w_opt; w_v; t_sub; w_help]) with
  | OOk (Matches _ (Some (n, _))) => n = t_sub
  | _ => False
  end.
Proof. vm_compute. reflexivity. Qed.

(** [--opt] is an entry no positional can touch, and not a global argument's *)
Example ex_any_untouched :
  pos_untouched (build_self k_c0) [111] /\ find_group (build_self k_c0) [111] = None /\
  mem_id [111] (tree_globals k_c0) = false /\ mem_id [103] (tree_globals k_c0) = true.
Proof. split; [apply pos_untouched_of_forallb; vm_compute; reflexivity|]. repeat split; vm_compute; reflexivity. Qed.

(** a level WITH a hyphen-accepting option: [prog [--opt <v> [<v>]] [p]...], [--opt] with [allow_hyphen_values] *)
Definition h_opt : arg := (arg_new [111]) <| a_long := Some [111; 112; 116] |> <| a_action := Some ASet |>
   <| a_num := Some {| vmin := 1; vmax := 2 |} |> <| a_hyphen := true |>.
Definition h_pos : arg := (arg_new [112]) <| a_num := Some {| vmin := 0; vmax := usize_max |} |>.
Definition h_c0 : cmd := (cmd_new [112]) <| c_args := [h_opt; h_pos] |> <| c_bin_name := Some [112] |>.
Definition w_w : bytes := [119].

Example ex_h_class : esc_class_h h_c0 = true /\ esc_class0 h_c0 = false.
Proof. split; vm_compute; reflexivity. Qed.

(** the documented exception at [parse_top]: [prog --opt -- --help] -- the option is still collecting, the
    [--] and the [--help] are its two values; nothing reaches the positional, no help is displayed *)
Example ex_h_exception :
  match parse_top h_c0 ([112] :: [w_opt] ++ dashdash :: [t_help]) with
  | OOk (Matches args None) => opt_map m_raw (fm_get [111] args) = Some [[dashdash; t_help]] /\ fm_get [112] args = None
  | _ => False
  end.
Proof. vm_compute. split; reflexivity. Qed.

(** one iteration on a long option given without a value that starts collecting *)
Lemma long_opt_step c tok rest pc vaf st f st1 i vaf1 :
  possible_subcommand c tok vaf = None -> is_escape tok = false -> to_long tok = Some (f, true, None) ->
  parse_long_arg c f true None PSValuesDone pc vaf st = ROk (st1, PROpt i, vaf1) ->
  parse_loop c (tok :: rest) (mkL PSValuesDone pc vaf false) st = parse_loop c rest (mkL (PSOpt i) pc vaf1 false) st1.
Proof.
  intros Hs He Hl Hp. cbn [parse_loop l_trailing l_pst l_pos l_vaf].
  rewrite orb_true_r, Hs, He, Hl. cbn [rbind]. rewrite Hp. cbn [rbind fst snd]. reflexivity.
Qed.

(** ... and its shape at the loop: the line stands at the [--] in the state reached by [--opt] alone *)
Example ex_h_exception_loop : forall t1 t2,
  hyphen_exception (build_self h_c0) t1 t2 ls0 ps_new
    (parse_loop (build_self h_c0) ([w_opt] ++ dashdash :: t1) ls0 ps_new)
    (parse_loop (build_self h_c0) ([w_opt] ++ dashdash :: t2) ls0 ps_new).
Proof.
  intros t1 t2.
  set (st' := mkPs (mkMatcher [] (Some (mkPending [111] (Some ILong) [] None)) None) 0 None 0).
  destruct (find_arg (build_self h_c0) [111]) as [a|] eqn:Ea; [|vm_compute in Ea; discriminate].
  exists (mkL (PSOpt [111]) 1 true false), st', a.
  split.
  { intros p Hp. change (mt_pending (mt st')) with (Some (mkPending [111] (Some ILong) [] None)) in Hp. injection Hp as <-. split.
    - intros a' Hf. change (p_id _) with [111] in Hf. rewrite Ea in Hf. injection Hf as <-. vm_compute in Ea. injection Ea as <-. reflexivity.
    - intros k Hk. discriminate Hk. }
  split.
  { intros i Hi. change (l_pst _) with (PSOpt [111]) in Hi. injection Hi as <-. intros a' Hf. rewrite Ea in Hf. injection Hf as <-. vm_compute in Ea. injection Ea as <-. reflexivity. }
  split; [reflexivity|]. split; [reflexivity|].
  split; [change (l_pst _) with (PSOpt [111]); cbn [state_arg]; rewrite Ea; reflexivity|].
  split; [vm_compute in Ea; injection Ea as <-; reflexivity|].
  assert (Hstep : forall rest, parse_loop (build_self h_c0) (w_opt :: rest) ls0 ps_new
                               = parse_loop (build_self h_c0) rest (mkL (PSOpt [111]) 1 true false) st').
  { intros rest. apply (long_opt_step (build_self h_c0) w_opt rest 1 false ps_new [111; 112; 116]); vm_compute; reflexivity. }
  split; cbn [app]; apply Hstep.
Qed.

(** the same option with both values given is NOT being collected any more: [prog --opt v w -- --help] --
    the [--] is recognised although the level declares a hyphen-accepting argument *)
Example ex_h_recognised :
  match parse_top h_c0 ([112] :: [w_opt; w_v; w_w] ++ dashdash :: [t_help]),
        parse_top h_c0 ([112] :: [w_opt; w_v; w_w] ++ dashdash :: []) with
  | OOk (Matches args None), OOk (Matches args2 None) =>
      opt_map m_raw (fm_get [111] args) = Some [[w_v; w_w]] /\ opt_map m_raw (fm_get [112] args) = Some [[t_help]] /\
      fm_get [111] args2 = fm_get [111] args
  | _, _ => False
  end.
Proof. vm_compute. repeat split; reflexivity. Qed.

(** * Outside every delivery class: value terminators are compared AFTER the escape too

    [check_terminator] sits in the positional branch of the loop, which trailing mode does not skip
    ([Escape.tstep], [TS_term]): a token of the tail that equals the [value_terminator] of the positional it
    would go to is consumed as the terminator and reaches no argument.  [prog -- a ;] with
    [p (num_args 1.., value_terminator ";")] is accepted with [p = [a]].  The implementation agrees
    (corpus/C05/escape-main.r3.cases).  The oracle's class and the classes [sink_from]/[chainc] exclude
    positionals with terminators; read for every command whose positionals could absorb the tail, the first
    sentence of the property does not hold for such commands. *)
Definition v_p : arg := (arg_new [112]) <| a_num := Some {| vmin := 1; vmax := usize_max |} |> <| a_term := Some [59] |>.
Definition v_c0 : cmd := (cmd_new [112]) <| c_args := [v_p] |> <| c_bin_name := Some [112] |>.
Theorem terminator_tail_dropped_refuted : exists c0 tail tok m,
  esc_class_h c0 = true /\ In tok tail /\ do_parse c0 (dashdash :: tail) = OOk m /\ ms_sub m = None /\
  forall y e, fm_get y (ms_args m) = Some e -> ~ In tok (concat (m_raw e)).
Proof.
  exists v_c0, [[97]; [59]], [59]. eexists.
  split; [vm_compute; reflexivity|]. split; [right; left; reflexivity|]. split; [vm_compute; reflexivity|].
  split; [reflexivity|]. intros y e. cbn [ms_args fm_get].
  destruct (beq [112] y); [|discriminate]. intros H. injection H as <-. cbn.
  intros [H|[]]. discriminate H.
Qed.
